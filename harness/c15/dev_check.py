"""Dev-only: run the C15 check with the entries of harness/c15/proposed_known_findings.json in effect, without touching
the shared known_findings.json (until the lead merges them, plain `./check C15` reports the three known classes as
VIOLATION and exits 1).

    cd /verif && PYTHONPATH=${VERIF_REPO:-/repo}:/verif /venv/bin/python harness/c15/dev_check.py C15 [--tier …] [--seed N]
"""
import json
import os
import sys

HERE = os.path.dirname(os.path.abspath(__file__))
sys.path.insert(0, os.path.dirname(os.path.dirname(HERE)))
os.environ.setdefault("PYTHON_MYPY_VERIF", "1")
os.environ.setdefault("PYTHONDONTWRITEBYTECODE", "1")
import harness.vlib.core as core  # noqa: E402

extra = json.load(open(os.path.join(HERE, "proposed_known_findings.json")))
orig = core.load_findings
core.load_findings = lambda prop: orig(prop) + [e for e in extra if e["property"] == prop]
import harness.main as m  # noqa: E402

if __name__ == "__main__":
    os.chdir(os.path.dirname(os.path.dirname(HERE)))
    sys.exit(m.main())
