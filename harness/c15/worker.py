"""C15 worker: runs in a build directory that holds the mypyc-compiled `c15h` extension and its source.

    python worker.py <jobs.jsonl> <out.txt> [interp-only]

Each job line is `[idx, function name, [args…]]`; args: JSON int (arbitrary size), true/false, or
{"f": "<float.hex()>"}.  For every job the same operation is evaluated twice — by the interpreter (the
function's source exec'd as plain Python, `i64 = i32 = i16 = u8 = int`) and by the compiled module — and
one line is written, unbuffered, in two steps so that a crash of the compiled code is attributable:

    <idx>\tI <kind> <type> <repr>\tC <kind> <type> <repr>\n

kind = ok | exc; for exc the type is the exception class name.
"""
from __future__ import annotations

import json
import os
import sys


def canon(f, args):
    try:
        v = f(*args)
    except BaseException as e:  # noqa: BLE001 - the exception type *is* the observation
        return "exc %s -" % type(e).__name__
    t = type(v)
    if t is bool:
        return "ok bool %s" % v
    if t is int:
        return "ok int %d" % v
    if t is float:
        return "ok float %s" % ("nan" if v != v else v.hex())
    if t is complex:
        return "ok complex -"
    return "ok %s %r" % (t.__name__, v)


def dec(a):
    if isinstance(a, dict):
        return float.fromhex(a["f"]) if a["f"] not in ("nan",) else float("nan")
    return a


def main() -> int:
    jobs, out = sys.argv[1], sys.argv[2]
    interp_only = len(sys.argv) > 3
    sys.path.insert(0, os.getcwd())
    src = open("c15h.py").read()
    ns: dict = {"__name__": "c15h_interp"}
    exec(compile(src, "c15h_interp.py", "exec"), ns)
    comp = None
    if not interp_only:
        import c15h as comp  # the compiled extension
        if not getattr(comp, "__file__", "").endswith(".so"):
            print("c15h is not the compiled module: %r" % comp.__file__, file=sys.stderr)
            return 3
    sys.set_int_max_str_digits(0)
    fd = os.open(out, os.O_WRONLY | os.O_CREAT | os.O_APPEND, 0o644)
    with open(jobs) as f:
        for line in f:
            idx, name, args = json.loads(line)
            args = [dec(a) for a in args]
            ri = canon(ns[name], args)
            os.write(fd, ("%d\tI %s" % (idx, ri)).encode())
            rc = canon(getattr(comp, name), args) if comp is not None else "ok none -"
            os.write(fd, ("\tC %s\n" % rc).encode())
    os.close(fd)
    return 0


if __name__ == "__main__":
    sys.exit(main())
