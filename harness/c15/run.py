"""C15 — compiled numeric primitives compute exactly what Python computes.

1. T  two translators, re-run on every check against `core.REPO`:
        translate/cfast.py  the C fast paths of CPy.h / mypyc_util.h / int_ops.c and the live operator tables
                            -> Gen/CFast.lean (typed mini-C -> Lean over BitVec; fails closed; self-test);
        translate/irops.py  the final mypyc IR of the harness's integer functions -> Gen/IrOps.lean.
      The theorems of Props/C15.lean are about those generated definitions (`ctx.prove`).
2. K  one mypyc-compiled harness module (harness/c15/gen.py: a function per operation × type, ≈ 570 functions; opt
      levels 0 and 3; C compiled from the checked tree's lib-rt) is driven in a worker subprocess on the boundary set
      and on random operands.  Every case is evaluated up to three ways: CPython (the same source, interpreted), the
      compiled module, and — where the operation maps to a translated C function, to the hand model of the Python-side
      lowering, or to the conversion / true-division model — the Lean side (Driver/C15.lean).  The specification the
      theorems are stated against (Tagged.pyAnd …, Int.fdiv/fmod) is itself run against CPython.
3. S  the search is the same run: a case on which the model contradicts Python's result (possible only when a proof
      obligation broke) is by construction also a compiled-vs-CPython case; a concrete difference inside the
      property's domain is reported with the smallest operands found for that function (ctx.report); a broken
      obligation / tie without such a case ends in `no-failing-input-found`, the replay naming the theorems and the
      model counterexamples (e.g. `CPyTagged_TooBig(-2^62) = 1`).

Besides the boundary grid and the random stream there is a result-targeted stream (`error-magic`): for every function
whose result type has an overlapping error value (i64/i32/i16: -113, u8: 239, float: -113.0 — read from the regenerated
`cUndefined` table, not hard-coded) operand tuples are constructed whose *exact* result is that value (`magic_targets`);
code that mistakes such a result for a raised exception (wrong `error_kind` of a primitive, wrong `is_error` test)
fails on these operands only.  The `unbox_*` functions drive the wrappers' argument unboxing across both range ends.

The oracle demands exactly what the property states (see `judge`): int/bool — result or exception type equal to
CPython's (negative `**` exponents excluded); fixed width — equal where the exact result fits, ZeroDivisionError, u8
`+ - *` modulo 256, shift counts outside [0, width) excluded, `int -> iN`: some exception iff out of range; float —
equal bit for bit (results that are complex in CPython excluded).

Dev note: the worker is a subprocess so that a crash of compiled code (SIGFPE/SIGSEGV under a broken tree) is an
observation (`crash signalN`), not a failure of the check.
"""
from __future__ import annotations

import hashlib
import json
import os
import struct
import subprocess
import sys
import time
from concurrent.futures import ThreadPoolExecutor

from harness.vlib.core import LEAN, PY, REPO, Ctx, ToolFailure, repo_env
from harness.c15 import gen

HERE = os.path.dirname(os.path.abspath(__file__))
MODEL_FILES = ["MypyVerif/Model/CSem.lean", "MypyVerif/Model/Tagged.lean", "MypyVerif/Model/FixedWidth.lean",
               "MypyVerif/Proofs/CFast.lean", "MypyVerif/Proofs/CFastW.lean", "MypyVerif/Proofs/FixedWidth.lean",
               "MypyVerif/Proofs/FloatConv.lean", "MypyVerif/Model/FloatConv.lean", "MypyVerif/Gen/CFast.lean",
               "MypyVerif/Gen/IrOps.lean"]
WIDTH = {"i64": 64, "i32": 32, "i16": 16, "u8": 8}
RANGES = gen.RANGES
TAG_MIN, TAG_MAX = -2 ** 62, 2 ** 62 - 1
M64 = 2 ** 64


# ------------------------------------------------------------------------------------------ operands
def boundary_ints() -> list[int]:
    b = {0, 1, -1, 2, -2, 3, -3, 5, -7, 10, 63, 64, 65, 127}
    for k in (7, 8, 15, 16, 31, 32, 62, 63, 64):
        for d in (-1, 0, 1):
            b.add(2 ** k + d)
            b.add(-(2 ** k) + d)
    b.update([2 ** 30, 2 ** 30 - 1, 2 ** 61, 2 ** 53 + 1, 2 ** 70 + 12345, -(2 ** 70) - 12345, 10 ** 30])
    return sorted(b)


def boundary_floats() -> list[float]:
    f = [0.0, -0.0, 1.0, -1.0, 0.5, -0.5, 1.5, -1.5, 2.0, -2.0, 3.0, 7.0, -7.0, 2.5, 0.1, 1e-300, 5e-324,
         1e308, -1e308, 1.7976931348623157e308, float("inf"), float("-inf"), float("nan"), 2.0 ** 53,
         2.0 ** 53 + 2, 2.0 ** 62, 2.0 ** 63, -(2.0 ** 63), 2.0 ** 64, 1e19, -1e19, 1e22, 123456789.125, -3.75,
         2.0 ** 31, -(2.0 ** 31) - 0.5, 4611686018427387904.0, 9.223372036854776e18, 1e400 if False else 1e300]
    return f


def rand_int(rng) -> int:
    r = rng.random()
    if r < 0.35:
        k = rng.choice((7, 8, 15, 16, 30, 31, 32, 53, 61, 62, 63, 64))
        v = 2 ** k + rng.randint(-3, 3)
    else:
        v = rng.getrandbits(rng.randint(0, 72))
    return -v if rng.random() < 0.5 else v


def rand_in(rng, lo: int, hi: int) -> int:
    r = rng.random()
    if r < 0.25:
        return rng.choice((lo, lo + 1, hi, hi - 1, 0, 1, max(lo, -1)))
    if r < 0.6:
        bits = rng.randint(0, (hi - lo).bit_length())
        v = rng.getrandbits(bits)
        v = -v if (lo < 0 and rng.random() < 0.5) else v
        return min(max(v, lo), hi)
    return rng.randint(lo, hi)


def rand_float(rng) -> float:
    r = rng.random()
    if r < 0.3:
        return struct.unpack("<d", struct.pack("<Q", rng.getrandbits(64)))[0]
    if r < 0.6:
        return float(rand_int(rng)) if abs(rand_int(rng)) < 2 ** 1000 else 1.0
    if r < 0.8:
        return rng.choice(boundary_floats())
    return rng.uniform(-1000, 1000)


def show(v) -> str:
    """Operand for messages (replay files keep the exact value)."""
    r = repr(v)
    if isinstance(v, int) and not isinstance(v, bool) and len(r) > 40:
        return "%s…%s(%d digits)" % (r[:10], r[-4:], len(r.lstrip("-")))
    return r


def show_args(args) -> str:
    return "(" + ", ".join(show(a) for a in args) + ")"


def enc_arg(v):
    if isinstance(v, float):
        return {"f": "nan" if v != v else v.hex()}
    return v


def values_for(t: str, B: list[int], F: list[float]) -> list:
    if t == "int":
        return B
    if t == "bool":
        return [False, True]
    if t == "float":
        return F
    lo, hi = RANGES[t]
    return sorted({v for v in B if lo <= v <= hi} | {lo, lo + 1, hi - 1, hi})


def rand_for(t: str, rng):
    if t == "int":
        return rand_int(rng)
    if t == "bool":
        return rng.random() < 0.5
    if t == "float":
        return rand_float(rng)
    return rand_in(rng, *RANGES[t])


def too_large(fn: gen.Fn, args: list) -> bool:
    """Operands whose exact result would be astronomically large (memory), not a semantic exclusion."""
    if fn.op == "<<":
        b = args[1] if len(args) > 1 else fn.const
        return isinstance(b, int) and not isinstance(b, bool) and b > 300
    if fn.op == "**":
        a, b = args[0], args[1]
        if isinstance(a, float) or isinstance(b, float):
            if isinstance(b, int) and abs(b) > 2 ** 70:
                return False
            return False
        return abs(int(b)) > 64 and abs(int(a)) > 1
    return False


PYOP = {"+": lambda a, b: a + b, "-": lambda a, b: a - b, "*": lambda a, b: a * b, "//": lambda a, b: a // b,
        "%": lambda a, b: a % b, "&": lambda a, b: a & b, "|": lambda a, b: a | b, "^": lambda a, b: a ^ b,
        "<<": lambda a, b: a << b, ">>": lambda a, b: a >> b}


def norm_cases(ctx: Ctx, fn: gen.Fn, B: list[int]) -> list[tuple[gen.Fn, list, str]]:
    """(operands…, expected result): the compiled code compares its own result with the expected value."""
    rng = ctx.rng
    out = []
    n = ctx.pick(700, 6000)
    if fn.op in PYOP:
        pairs = [(rng.choice(B), rng.choice(B)) for _ in range(n)] + [(rand_int(rng), rand_int(rng)) for _ in range(n // 2)]
        for a, b in pairs:
            if fn.op == "<<" and b > 300:
                continue
            try:
                c = PYOP[fn.op](a, b)
            except (ZeroDivisionError, ValueError, OverflowError):
                continue
            out.append((fn, [a, b, c], "boundary"))
    else:
        vals = values_for(fn.params[0], B, []) + [rand_for(fn.params[0], rng) for _ in range(ctx.pick(100, 2000))]
        for a in vals:
            if fn.op == "conv" and not in_range(a, fn.ftype):
                continue
            c = {"neg": -a, "inv": ~a, "back": a, "conv": a}[fn.op]
            out.append((fn, [a, c], "boundary"))
    return out


UNOP = {"neg": lambda a: -a, "inv": lambda a: ~a, "pos": lambda a: +a, "conv": lambda a: a, "back": lambda a: a,
        "unbox": lambda a: a, "float": lambda a: float(a), "abs": lambda a: abs(a)}


def magic_targets(fn: gen.Fn, magic: dict[str, object]) -> list[list]:
    """Operand tuples (in the operand types' ranges) on which the *exact* result of `fn` equals the error value of its
    result type — the value a C function returns together with a pending exception (`RPrimitive.c_undefined`, read by
    translate/cfast.py).  For the native types that value is also an ordinary result ("overlapping"); code that tests
    it without asking `PyErr_Occurred()` (a primitive registered ERR_MAGIC instead of ERR_MAGIC_OVERLAPPING, a wrong
    `is_error` test in the lowering) fails exactly on these operands and nowhere else."""
    M = magic.get(fn.ret)
    if M is None:
        return []
    ptypes = fn.params

    def ok(v, t: str) -> bool:
        if t == "float":
            return isinstance(v, float)
        if t == "bool":
            return isinstance(v, bool)
        if not isinstance(v, int) or isinstance(v, bool):
            return False
        return t == "int" or in_range(v, t)

    def coerce(v, t: str):
        return float(v) if t == "float" else v

    out: list[list] = []
    isf = isinstance(M, float)
    Mi = int(M)
    if len(ptypes) == 1 and fn.const is None:
        f = UNOP.get(fn.op)
        if f is None:
            return []
        for a in (Mi, -Mi, ~Mi, Mi + 1, Mi - 1):
            a = coerce(a, ptypes[0])
            try:
                if ok(a, ptypes[0]) and f(a) == M:
                    out.append([a])
            except (OverflowError, ValueError, ZeroDivisionError):
                pass
        return out
    op = PYOP.get(fn.op) if not isf and fn.op != "/" else {"+": lambda a, b: a + b, "-": lambda a, b: a - b, "*": lambda a, b: a * b,
                                                          "/": lambda a, b: a / b, "//": lambda a, b: a // b, "%": lambda a, b: a % b,
                                                          "**": lambda a, b: a ** b}.get(fn.op)
    if op is None:
        return []
    t2 = ptypes[1] if len(ptypes) > 1 else (fn.ftype or "int")
    # second operands: small numbers, values around ±M, the ends of the type's range, powers of two
    bs = {1, -1, 2, -2, 3, -3, 7, -7, 8, 16, 100, -100, 200, -200, Mi, -Mi, Mi - 1, Mi + 1, -Mi - 1, -Mi + 1, 2 * Mi, -2 * Mi,
          0, 4, 5, 255, 256, -256, 1000, -1000}
    if t2 in RANGES:
        lo, hi = RANGES[t2]
        bs |= {lo, lo + 1, hi, hi - 1}
    if fn.const is not None:
        bs = {fn.const}
    for b in sorted(bs):
        cands = set()
        if fn.op == "+":
            cands = {Mi - b}
        elif fn.op == "-":
            cands = {Mi + b}
        elif fn.op == "^":
            cands = {Mi ^ b}
        elif fn.op in ("&", "|"):
            cands = {Mi, Mi | b if fn.op == "&" else Mi & b}
        elif fn.op == "*":
            cands = {Mi // b} if b and Mi % b == 0 else set()
        elif fn.op in ("//", "/"):
            cands = {Mi * b, Mi * b + (abs(b) - 1) * (1 if b > 0 else -1), Mi * b + (1 if b > 0 else -1)} if b else set()
        elif fn.op == "%":
            cands = {Mi + q * b for q in (0, 1, -1, 2, 5, -7, 163)} if b else set()
        elif fn.op == "<<":
            cands = {Mi >> b} if 0 <= b < 64 and Mi % (1 << b) == 0 else set()
        elif fn.op == ">>":
            cands = {Mi << b, (Mi << b) + (1 << b) - 1} if 0 <= b < 62 else set()
        elif fn.op == "**":
            cands = {Mi} if b == 1 else set()
        for a in cands:
            aa, bb = coerce(a, ptypes[0]), coerce(b, t2)
            if not ok(aa, ptypes[0]) or not ok(bb, t2):
                continue
            try:
                if op(aa, bb) != M:
                    continue
            except (OverflowError, ValueError, ZeroDivisionError):
                continue
            out.append([aa] if fn.const is not None else [aa, bb])
    out.sort(key=lambda xs: (max(abs(x) for x in xs), sum(abs(x) for x in xs)))   # small operands first (a crashing
    return out                                                                    # function is dropped after 3 crashes)


def error_magic(inv: dict | None) -> dict[str, object]:
    """Result type -> error value, from the regenerated `cUndefined` table (never hard-coded)."""
    out: dict[str, object] = {}
    for t, text in (inv or {}).get("tables", {}).get("c_undefined", []):
        try:
            out[t] = float(text) if t == "float" else int(text)
        except ValueError:
            pass            # `int`: CPY_INT_TAG is not the word of any short int; `bool`: 2 is not a bool
    out.pop("int", None)
    return out


def iter_cases(ctx: Ctx, fns: list[gen.Fn], magic: dict[str, object] | None = None):
    """Generator of (function, operands, stream).  Quick ≈ 4·10^5 cases, thorough ≈ 8·10^6 (× 2 opt levels)."""
    rng = ctx.rng
    B, F = boundary_ints(), boundary_floats()
    full_cap = ctx.pick(6000, 10 ** 9)
    sample_n = ctx.pick(500, 4000)
    nrand = {"int": ctx.pick(1500, 80000), "fixed": ctx.pick(400, 20000), "float": ctx.pick(600, 25000),
             "mixedfloat": ctx.pick(150, 8000), "mixed": ctx.pick(150, 8000), "const": ctx.pick(60, 2000),
             "fixedconst": ctx.pick(60, 2000), "conv": ctx.pick(200, 12000), "convfixed": ctx.pick(60, 2000),
             "bool": 0}
    # the known-finding witnesses come first, so the classes stay visible whatever else happens
    byname = {f.name: f for f in fns}
    yield (byname["tdiv_int"], [2 ** 53 + 1, 3], "witness")
    yield (byname["eq_int_float"], [2 ** 53 + 1, 2.0 ** 53], "witness")
    yield (byname["lt_float_int"], [1.5, 10 ** 400], "witness")
    for name, args in REPLAYS:          # model counterexamples of translated helpers, replayed on the real code
        if name in byname:
            yield (byname[name], args, "model-counterexample")
    for fn in fns:                      # operands whose exact result is the result type's (overlapping) error value
        if fn.group != "norm":
            for args in magic_targets(fn, magic or {}):
                yield (fn, args, "error-magic")
    for fn in fns:
        if fn.group == "norm":
            yield from norm_cases(ctx, fn, B)
            continue
        if fn.group == "unbox":
            lo, hi = RANGES[fn.ftype]
            for a in sorted(set(B) | {lo - 1, lo, lo + 1, hi - 1, hi, hi + 1, 2 * lo, 2 * hi + 1}):
                yield (fn, [a], "boundary")
            for _ in range(ctx.pick(100, 3000)):
                yield (fn, [rand_int(rng)], "random")
            continue
        vs = [values_for(t, B, F) for t in fn.params]
        total = 1
        for v in vs:
            total *= len(v)
        light = fn.group in ("mixedfloat", "mixed") or bool(fn.stmts)
        if len(vs) == 1:
            combos = [[a] for a in vs[0]]
        elif total <= full_cap and not light:
            combos = [[a, b] for a in vs[0] for b in vs[1]]
        else:
            combos = [[rng.choice(vs[0]), rng.choice(vs[1])] for _ in range(sample_n)]
        for c in combos:
            yield (fn, c, "boundary")
        for _ in range(nrand.get(fn.group, 0)):
            yield (fn, [rand_for(t, rng) for t in fn.params], "random")


# ------------------------------------------------------------------------------- building the harness
def build_harness(ctx: Ctx, opt: str, src: str) -> str:
    d = os.path.join(ctx.tmp, f"build_O{opt}")
    os.makedirs(d, exist_ok=True)
    with open(os.path.join(d, "c15h.py"), "w") as f:
        f.write(src)
    env = repo_env({"MYPYC_OPT_LEVEL": opt})
    env.pop("PYTHONDONTWRITEBYTECODE", None)
    try:
        p = subprocess.run([PY, "-m", "mypyc", "c15h.py"], cwd=d, env=env, capture_output=True, text=True, timeout=1500)
    except subprocess.TimeoutExpired:
        raise ToolFailure(f"mypyc compile of the harness (opt {opt}) timed out")
    if p.returncode != 0 or not any(x.endswith(".so") for x in os.listdir(d)):
        tail = (p.stdout + p.stderr)[-3000:]
        raise ToolFailure(f"mypyc could not compile the C15 harness module at opt level {opt}:\n{tail}")
    return d


def run_worker(ctx: Ctx, d: str, jobs: list[tuple[int, str, list]], tag: str) -> dict[int, tuple[str, str]]:
    """Run the jobs in a worker subprocess; a crash of the compiled code is recorded as `crash SIG -` for
    that job and the worker is restarted after it."""
    res: dict[int, tuple[str, str]] = {}
    pending = jobs
    crashes = 0
    crashed_fns: dict[str, int] = {}
    rnd = 0
    while pending:
        rnd += 1
        jf = os.path.join(d, f"jobs_{tag}_{rnd}.jsonl")
        of = os.path.join(d, f"out_{tag}_{rnd}.txt")
        with open(jf, "w") as f:
            for idx, name, args in pending:
                f.write(json.dumps([idx, name, [enc_arg(a) for a in args]]) + "\n")
        env = repo_env()
        try:
            p = subprocess.run([PY, os.path.join(HERE, "worker.py"), jf, of], cwd=d, env=env, capture_output=True,
                               text=True, timeout=3600)
        except subprocess.TimeoutExpired:
            raise ToolFailure("C15 worker timed out")
        done = -1
        crashed_idx = None
        if os.path.exists(of):
            with open(of) as f:
                for line in f:
                    parts = line.rstrip("\n").split("\t")
                    idx = int(parts[0])
                    if len(parts) == 3:
                        res[idx] = (parts[1][2:], parts[2][2:])
                        done = idx
                    else:
                        crashed_idx = idx
                        res[idx] = (parts[1][2:], "crash signal%d -" % (-p.returncode if p.returncode < 0 else p.returncode))
        if p.returncode == 0:
            break
        if crashed_idx is None:
            raise ToolFailure(f"C15 worker failed (rc {p.returncode}) outside a compiled call:\n{p.stderr[-2000:]}")
        crashes += 1
        pos = next(i for i, j in enumerate(pending) if j[0] == crashed_idx)
        name = pending[pos][1]
        crashed_fns[name] = crashed_fns.get(name, 0) + 1
        pending = pending[pos + 1:]
        if crashed_fns[name] >= 3:      # stop driving a function that keeps crashing
            for j in pending:
                if j[1] == name:
                    res[j[0]] = ("skipped - -", "skipped - -")
            pending = [j for j in pending if j[1] != name]
        if crashes > 60:
            raise ToolFailure("C15 worker: too many crashes of the compiled harness")
    return res


# ---------------------------------------------------------------------------------------- the oracle
def in_range(v: int, t: str) -> bool:
    lo, hi = RANGES[t]
    return lo <= v <= hi


def judge(fn: gen.Fn, args: list, ri: str, rc: str) -> tuple[str, str]:
    """Compare compiled (rc) with interpreted (ri) *inside the domain the property fixes*.
    -> ("same" | "excluded" | "DIFF", reason)."""
    g = fn.group
    if rc.startswith("crash"):
        crashed = True
    else:
        crashed = False
    ki, ti, vi = ri.split(" ", 2)
    kc = rc.split(" ", 2)[0]
    if g == "norm":
        return ("same", "") if ri == rc else ("DIFF", "result-not-normalised-or-wrong")
    if g in ("int", "bool", "const"):
        if fn.op == "**" and isinstance(args[1], int) and args[1] < 0:
            return "excluded", "negative-exponent (result is a float; the annotated return type rejects it)"
        return ("same", "") if ri == rc else ("DIFF", "value")
    if g in ("float", "mixedfloat"):
        if ti == "complex":
            return "excluded", "complex-result"
        return ("same", "") if ri == rc else ("DIFF", "value")
    t = fn.ftype
    if g == "unbox":
        a = int(args[0])
        if in_range(a, t):
            return ("same", "") if rc == "ok int %d" % a else ("DIFF", "unboxing-of-in-range-argument")
        if crashed:
            return "DIFF", "crash"
        return ("same", "") if kc == "exc" else ("DIFF", "out-of-range-argument-not-rejected")
    if g == "conv":
        if fn.op == "conv":
            a = int(args[0])
            if in_range(a, t):
                return ("same", "") if rc == "ok int %d" % a else ("DIFF", "conversion-of-in-range-value")
            if crashed:
                return "DIFF", "crash"
            return ("same", "") if kc == "exc" else ("DIFF", "out-of-range-conversion-not-rejected")
        return ("same", "") if ri == rc else ("DIFF", "value")
    if g == "convfixed":
        if in_range(int(args[0]), t):
            return ("same", "") if ri == rc else ("DIFF", "value")
        return "excluded", "narrowing conversion between native ints truncates (documented)"
    # fixed, fixedconst, mixed
    for a, pt in zip(args, fn.params):
        if pt == "int" and not in_range(a, t):
            if crashed:
                return "DIFF", "crash"
            return ("same", "") if kc == "exc" else ("DIFF", "out-of-range-operand-not-rejected")
    b = args[1] if len(args) > 1 else fn.const
    if fn.op in ("<<", ">>") and (b < 0 or b >= WIDTH[t]):
        return "excluded", "shift count negative or >= width"
    if ki == "exc":
        return ("same", "") if ri == rc else ("DIFF", "exception")
    if fn.ret in ("bool", "float", "int"):
        return ("same", "") if ri == rc else ("DIFF", "value")
    exact = int(vi)
    if in_range(exact, t):
        return ("same", "") if ri == rc else ("DIFF", "value")
    if t == "u8" and fn.op in ("+", "-", "*") and len(fn.params) == 2:
        return ("same", "") if rc == "ok int %d" % (exact % 256) else ("DIFF", "u8-wrap")
    return "excluded", "exact result does not fit the type"


def known_class(fn: gen.Fn, args: list, ri: str, rc: str) -> dict:
    """Machine-checkable description of a difference (the `observed` dict of ctx.report)."""
    obs = {"class": "compiled-differs-from-cpython", "function": fn.name, "op": fn.op, "group": fn.group}
    ints = [a for a in args if isinstance(a, int) and not isinstance(a, bool)]
    if fn.op == "/" and fn.group in ("int", "const") and ri.startswith("ok float") and rc.startswith("ok float") \
            and all(TAG_MIN <= a <= TAG_MAX for a in ints) and any(abs(a) > 2 ** 53 for a in ints):
        obs = {"class": "int-truediv-double-rounding", "c_function": "CPyTagged_TrueDivide",
               "operands": "both short, one beyond 2**53"}
    elif fn.group == "mixedfloat" and ints:
        a = ints[0]
        if rc.startswith("exc OverflowError") and ri.startswith("ok bool") and abs(a) >= 2 ** 1024 - 2 ** 970 and fn.ret == "bool":
            obs = {"class": "int-float-comparison-converts-int", "effect": "OverflowError", "operand": "abs(int) beyond the double range"}
        elif fn.ret == "bool" and abs(a) > 2 ** 53 and ri.startswith("ok bool") and rc.startswith("ok bool"):
            obs = {"class": "int-float-comparison-converts-int", "effect": "rounded", "operand": "abs(int) > 2**53"}
    return obs


# ------------------------------------------------------------------------------------- the Lean model
PY_SPEC = {
    "CPyTagged_Add": lambda a, b: a + b, "CPyTagged_Subtract": lambda a, b: a - b,
    "CPyTagged_Multiply": lambda a, b: a * b, "CPyTagged_FloorDivide": lambda a, b: a // b,
    "CPyTagged_Remainder": lambda a, b: a % b, "CPyTagged_And": lambda a, b: a & b,
    "CPyTagged_Or": lambda a, b: a | b, "CPyTagged_Xor": lambda a, b: a ^ b,
    "CPyTagged_Rshift": lambda a, b: a >> b, "CPyTagged_Lshift": lambda a, b: a << b,
    "CPyTagged_Negate": lambda a: -a, "CPyTagged_Invert": lambda a: ~a,
    "CPyTagged_IsEq": lambda a, b: a == b, "CPyTagged_IsNe": lambda a, b: a != b,
    "CPyTagged_IsLt": lambda a, b: a < b, "CPyTagged_IsLe": lambda a, b: a <= b,
    "CPyTagged_IsGt": lambda a, b: a > b, "CPyTagged_IsGe": lambda a, b: a >= b,
}
FW_DIV = {("//", "i64"): "CPyInt64_Divide", ("%", "i64"): "CPyInt64_Remainder",
          ("//", "i32"): "CPyInt32_Divide", ("%", "i32"): "CPyInt32_Remainder",
          ("//", "i16"): "CPyInt16_Divide", ("%", "i16"): "CPyInt16_Remainder"}


def tag_word(v: int, k: int) -> int:
    """Tagged word of a Python int: short if it fits, else a (fake, distinct) heap pointer with the tag bit."""
    if TAG_MIN <= v <= TAG_MAX:
        return (2 * v) % M64
    return (0x7F0000000000 + 16 * k) | 1


def untag(w: int) -> int:
    assert w % 2 == 0
    return (w - M64 if w >= 2 ** 63 else w) // 2


def signed(w: int, bits: int) -> int:
    return w - 2 ** bits if w >= 2 ** (bits - 1) else w


OPNAME = {"+": "add", "-": "sub", "*": "mul", "&": "and", "|": "or", "^": "xor", "<<": "shl", ">>": "shr"}
CMP = {"<", "<=", ">", ">=", "==", "!="}


CMP_INLINE = {"<": "CPyTagged_IsLt", "<=": "CPyTagged_IsLe", ">": "CPyTagged_IsGt", ">=": "CPyTagged_IsGe",
              "==": "CPyTagged_IsEq", "!=": "CPyTagged_IsNe"}


def model_lines(fn: gen.Fn, args: list, tables: dict) -> list[tuple[str, str]]:
    one = model_line(fn, args, tables)
    out = [one] if one is not None else []
    if one is not None and one[1] == "M:cmp":
        # the header's inline comparison functions are not what compiled comparisons use, but they are
        # translated and proved: keep them tied to the same observations
        out.append(("F %s %d %d" % (CMP_INLINE[fn.op], tag_word(args[0], 0), tag_word(args[1], 1)), CMP_INLINE[fn.op]))
    return out


def model_line(fn: gen.Fn, args: list, tables: dict) -> tuple[str, str] | None:
    """(driver line, kind) for a case the Lean side decides, else None.  kind = a translated C function
    (`F` lines, Gen/CFast.lean) or `M:<what>` (hand model of the Python-side lowering, Model/FixedWidth.lean)."""
    g, t = fn.group, fn.ftype
    if g == "int" and all(p == "int" for p in fn.params) and not fn.stmts and fn.op in CMP:
        return "M cmp %s %d %d" % (fn.op, tag_word(args[0], 0), tag_word(args[1], 1)), "M:cmp"
    if g == "int" and fn.op == "/" and fn.params == ["int", "int"] and args[1] != 0 and max(abs(args[0]), abs(args[1])) < 2 ** 900:
        return "M tdiv %d %d %d %d" % (args[0] < 0, abs(args[0]), args[1] < 0, abs(args[1])), "M:tdiv"
    if g == "int" and fn.op == "float" and abs(args[0]) < 2 ** 900:
        return "M i2f %d %d" % (args[0] < 0, abs(args[0])), "M:i2f"
    if g == "mixedfloat" and fn.op in CMP | {"+", "-", "*"}:
        a = args[0] if fn.params[0] == "int" else args[1]
        if abs(a) < 2 ** 900:
            return "M i2f %d %d" % (a < 0, abs(a)), "M:i2fop"
        return None
    if g == "int" and len(fn.params) >= 1 and all(p == "int" for p in fn.params):
        if len(fn.params) == 2:
            c = tables["binary"].get(fn.op + ("=" if fn.stmts else ""))
        else:
            c = tables["unary"].get({"neg": "-", "inv": "~"}.get(fn.op, ""))
        if c in PY_SPEC:
            ws = [tag_word(a, i) for i, a in enumerate(args)]
            return "F %s %s" % (c, " ".join(map(str, ws))), c
        return None
    if g in ("fixed", "fixedconst") and all(p == t for p in fn.params):
        w = WIDTH[t]
        sg = 0 if t == "u8" else 1
        m = 2 ** w
        a = args[0] % m
        b = (args[1] if len(args) > 1 else fn.const)
        if g == "fixed" and (fn.op, t) in FW_DIV and len(fn.params) == 2:
            return "F %s %d %d" % (FW_DIV[(fn.op, t)], a, b % m), FW_DIV[(fn.op, t)]
        if fn.op in ("//", "%") and t == "u8" and b is not None:
            return "M %s %d %d" % ("u8div" if fn.op == "//" else "u8mod", a, b % m), "M:res"
        if g == "fixedconst" and fn.op in ("//", "%") and b not in (0, -1):
            return "M %s %d %d %d" % ("idiv" if fn.op == "//" else "imod", w, a, b % m), "M:val"
        if fn.op in ("<<", ">>") and not (0 <= b < w):
            return None            # outside the domain (and C leaves it undefined)
        if fn.op in OPNAME and b is not None and fn.ret == t:
            return "M op %d %d %s %d %d" % (w, sg, OPNAME[fn.op], a, b % m), "M:val"
        if fn.op == "neg":
            return "M neg %d %d" % (w, a), "M:val"
        if fn.op == "inv":
            return "M inv %d %d" % (w, a), "M:val"
        return None
    if g == "conv" and fn.op == "conv" and fn.params == ["int"]:
        src = tag_word(args[0], 0)
        if t == "i64":
            return "M toI64 %d" % src, "M:res"
        return "M toNarrow %d %d %d" % (WIDTH[t], 0 if t == "u8" else 1, src), "M:res"
    if g == "conv" and fn.op == "back":
        w = WIDTH[t]
        if t == "i64":
            return "M i64ToInt %d" % (args[0] % 2 ** 64), "M:tagged"
        return "M narrowToInt %d %d %d" % (w, 0 if t == "u8" else 1, args[0] % 2 ** w), "M:tagged"
    return None


def fw_value(word: int, t: str) -> int:
    return word if t == "u8" else signed(word, WIDTH[t])


def check_model(fn: gen.Fn, args: list, kind: str, out: str) -> tuple[str | None, str | None]:
    """-> (problem with the model's answer w.r.t. Python's exact result or None,
           the compiled result the model predicts (worker format; `exc * -` = some exception) or None when it
           makes no prediction)."""
    body, _, ub = out.rpartition(" ub=")
    if ub != "0":
        return "model executes an undefined C operation (ub=1)", None
    parts = body.split(" ")
    if parts[0].startswith("bad") or parts[0] == "unknown-function":
        return "driver: " + body, None
    t = fn.ftype
    if kind == "M:tdiv":
        import math

        def val(neg: str, m: str, e: str) -> float:
            v = math.ldexp(int(m), int(e) - 1200)
            return -v if neg == "1" else v
        c, pv = val(*parts[2:5]), val(*parts[6:9])
        exact = args[0] / args[1]
        prob = None if pv.hex() == exact.hex() else "model of CPython's true division gives %s, CPython %s" % (pv.hex(), exact.hex())
        short = all(TAG_MIN <= a <= TAG_MAX for a in args)
        return prob, "ok float %s" % (c.hex() if short else pv.hex())
    if kind in ("M:i2f", "M:i2fop"):
        d = float(int(parts[2])) * (-1.0 if parts[1] == "1" else 1.0)      # exact: the model's value is a binary64 value
        if int(d) != int(parts[2]) * (-1 if parts[1] == "1" else 1):
            return "model of (double)int returns %s, not a binary64 value" % parts[2], None
        if kind == "M:i2f":
            exact = float(args[0])
            return (None if exact.hex() == d.hex() else "model converts %d to %r, CPython to %r" % (args[0], d, exact)), "ok float %s" % d.hex()
        xs = [d if pt == "int" else a for a, pt in zip(args, fn.params)]
        try:
            r = PYOPF[fn.op](*xs)
        except (OverflowError, ZeroDivisionError) as e:
            return None, "exc %s -" % type(e).__name__
        if isinstance(r, bool):
            return None, "ok bool %s" % r
        return None, "ok float %s" % ("nan" if r != r else r.hex())
    if kind == "M:cmp":
        if parts[0] == "slow":
            return None, None
        exact = PY_SPEC_CMP[fn.op](*args)
        got = parts[1] == "1"
        return (None if got == exact else "model of compare_tagged returns %r, Python computes %r" % (got, exact)), "ok bool %s" % got
    if kind == "M:val":
        return None, "ok int %d" % fw_value(int(parts[1]), t)
    if kind == "M:tagged":
        if parts[0] == "slow":
            return None, None
        w = int(parts[1])
        if w % 2:
            return "model returns a word with the tag bit set", None
        got = untag(w)
        return (None if got == args[0] else "model converts %d to %d" % (args[0], got)), "ok int %d" % got
    if kind == "M:res":
        if parts[0] == "slow":
            return None, None
        if parts[0] == "raise":
            if fn.op == "conv":
                return (None if not in_range(args[0], t) else "model rejects the in-range value %d" % args[0]), "exc * -"
            return None, "exc %s -" % parts[1]
        v = fw_value(int(parts[1]), t)
        if fn.op == "conv" and v != args[0]:
            return "model converts %d to %d" % (args[0], v), "ok int %d" % v
        return None, "ok int %d" % v
    cfunc = kind
    if cfunc.startswith("CPyInt"):
        w = WIDTH[t]
        try:
            exact: object = (args[0] // args[1]) if fn.op == "//" else (args[0] % args[1])
        except ZeroDivisionError:
            exact = "ZeroDivisionError"
        if parts[0] == "raise":
            if exact == "ZeroDivisionError":
                return (None if parts[1] == "ZeroDivisionError" else "model raises %s" % parts[1]), "exc %s -" % parts[1]
            if isinstance(exact, int) and in_range(exact, t):
                return "model raises %s although the exact result %d fits" % (parts[1], exact), "exc %s -" % parts[1]
            return None, "exc %s -" % parts[1]
        if parts[0] == "fast":
            v = signed(int(parts[1]), w)
            if exact == "ZeroDivisionError":
                return "model returns %d for a zero divisor" % v, "ok int %d" % v
            if isinstance(exact, int) and in_range(exact, t) and v != exact:
                return "model returns %d, exact result %d" % (v, exact), "ok int %d" % v
            return None, "ok int %d" % v
        return "unexpected model output %r" % out, None
    all_short = all(TAG_MIN <= a <= TAG_MAX for a in args)
    if cfunc in ("CPyTagged_IsEq", "CPyTagged_IsNe"):
        all_short = TAG_MIN <= args[0] <= TAG_MAX      # only the left tag is tested (a long word never equals a short one)
    if parts[0] == "slow":
        return None, None          # trusted slow path: no prediction
    if parts[0] != "fast":
        return "unexpected model output %r" % out, None
    if not all_short:
        return "model takes the fast path with a long operand", None
    try:
        exact = PY_SPEC[cfunc](*args)
    except (ZeroDivisionError, ValueError) as e:
        return "model stays inline although Python raises %s" % type(e).__name__, None
    if isinstance(exact, bool):
        got: object = parts[1] == "1"
        pred = "ok bool %s" % got
    else:
        w = int(parts[1])
        if w % 2:
            return "model returns a word with the tag bit set on the fast path", None
        got = untag(w)
        pred = "ok int %d" % got
    if got != exact:
        return "model fast path returns %r, Python computes %r" % (got, exact), pred
    return None, pred


PYOPF = {"<": lambda a, b: a < b, "<=": lambda a, b: a <= b, ">": lambda a, b: a > b, ">=": lambda a, b: a >= b,
         "==": lambda a, b: a == b, "!=": lambda a, b: a != b, "+": lambda a, b: a + b, "-": lambda a, b: a - b,
         "*": lambda a, b: a * b}
PY_SPEC_CMP = {"<": lambda a, b: a < b, "<=": lambda a, b: a <= b, ">": lambda a, b: a > b,
               ">=": lambda a, b: a >= b, "==": lambda a, b: a == b, "!=": lambda a, b: a != b}


def s64(w: int) -> int:
    return signed(w % M64, 64)


HELPER_SPEC = {      # translated helper functions that no harness operation reaches on its own: word(s) -> expected `val`
    "CPyTagged_TooBig": lambda v: int(not (TAG_MIN <= s64(v) <= TAG_MAX)),
    "CPyTagged_TooBigInt64": lambda v: int(not (TAG_MIN <= s64(v) <= TAG_MAX)),
    "CPyTagged_CheckLong": lambda v: v & 1,
    "CPyTagged_CheckShort": lambda v: 1 - (v & 1),
    "CPyTagged_ShortAsSsize_t": lambda v: (s64(v) >> 1) % M64,
    "CPyTagged_IsNegative": lambda v: int(s64(v) < 0),
    "CPyTagged_ShortFromSsize_t": lambda v: (2 * v) % M64,
    "CPyTagged_IsAddOverflow": lambda l, r: int(not (-2 ** 63 <= s64(l) + s64(r) < 2 ** 63)),
    "CPyTagged_IsSubtractOverflow": lambda l, r: int(not (-2 ** 63 <= s64(l) - s64(r) < 2 ** 63)),
}


HELPER_REPLAY = {     # how a model counterexample of a helper is replayed on the compiled harness
    "CPyTagged_IsAddOverflow": lambda l, r: [("add_int", [s64(l) >> 1, s64(r) >> 1])] if (l | r) & 1 == 0 else [],
    "CPyTagged_IsSubtractOverflow": lambda l, r: [("sub_int", [s64(l) >> 1, s64(r) >> 1])] if (l | r) & 1 == 0 else [],
    "CPyTagged_TooBig": lambda v: [("back_i64", [s64(v)]), ("norm_back_i64", [s64(v), s64(v)])],
    "CPyTagged_TooBigInt64": lambda v: [("back_i64", [s64(v)]), ("norm_back_i64", [s64(v), s64(v)])],
    "CPyTagged_ShortAsSsize_t": lambda v: [("conv_i64", [s64(v) >> 1])] if v & 1 == 0 else [],
}
REPLAYS: list[tuple[str, list]] = []


def helper_search(ctx: Ctx, inv: dict) -> list[str]:
    """Evaluate the translated helper functions on boundary words in the model; report contradictions with
    their specification (model counterexamples for the replay of a broken obligation)."""
    words = sorted({(2 * v) % M64 for v in boundary_ints() if TAG_MIN <= v <= TAG_MAX} |
                   {v % M64 for v in boundary_ints() if -2 ** 63 <= v < 2 ** 63} | {1, 3, M64 - 1})
    have = {f["name"] for f in inv["functions"]}
    lines, meta = [], []
    for name, spec in HELPER_SPEC.items():
        if name not in have:
            continue
        if name.startswith("CPyTagged_Is") and name.endswith("Overflow"):
            for l in words[::3]:
                for r in words[::3]:
                    res = (l + r) % M64 if "Add" in name else (l - r) % M64
                    lines.append(f"F {name} {res} {l} {r}")
                    meta.append((name, (l, r), spec(l, r)))
        else:
            for v in words:
                lines.append(f"F {name} {v}")
                meta.append((name, (v,), spec(v)))
    outs = ctx.lean_driver("Driver/C15.lean", lines)
    bad = []
    for (name, args, want), o in zip(meta, outs):
        ctx.dist("model_helper_checks", name)
        if o != f"val {want} ub=0":
            bad.append(f"{name}{tuple(s64(a) for a in args)} = `{o}` in the model, specification says {want}")
            if name in HELPER_REPLAY and len(REPLAYS) < 400:
                REPLAYS.extend(HELPER_REPLAY[name](*args))
    return bad


SPEC_OPS = {"and": lambda a, b: a & b, "or": lambda a, b: a | b, "xor": lambda a, b: a ^ b,
            "fdiv": lambda a, b: a // b, "fmod": lambda a, b: a % b, "shl": lambda a, b: a << b, "shr": lambda a, b: a >> b}


def spec_validation(ctx: Ctx) -> list[str]:
    """The specification side of the theorems (Tagged.pyAnd/pyOr/pyXor/pyShl/pyShr, Int.fdiv/fmod) evaluated by the
    driver on boundary and random integers must be what CPython computes."""
    rng = ctx.rng
    B = boundary_ints()
    pairs = [(a, b) for a in B[::2] for b in B[::3]] + [(rand_int(rng), rand_int(rng)) for _ in range(ctx.pick(1500, 20000))]
    lines, want = [], []
    for op, f in SPEC_OPS.items():
        for a, b in pairs:
            if op in ("fdiv", "fmod") and b == 0:
                continue
            if op in ("shl", "shr"):
                b = abs(b) % 200
            lines.append("S %s %d %d %d %d" % (op, a < 0, abs(a), b < 0, abs(b)))
            want.append((op, a, b, f(a, b)))
    outs = ctx.lean_driver("Driver/C15.lean", lines)
    bad = []
    for (op, a, b, w), o in zip(want, outs):
        ctx.dist("specification_checks", op)
        if o != "val %d %d" % (w < 0, abs(w)):
            bad.append(f"specification `{op}`({a}, {b}) evaluates to `{o}`, CPython computes {w}")
    ctx.count("traces_validated_against_impl", len(lines))
    return bad


def failing_theorems(log: str) -> list[str]:
    """Names of the theorems whose proofs failed, from lake's `error: <file>:<line>:<col>` lines."""
    import re
    out: list[str] = []
    for m in re.finditer(r"error: ([\w/.]+\.lean):(\d+):\d+", log):
        path, line = os.path.join(LEAN, m.group(1)), int(m.group(2))
        name = "?"
        try:
            src = open(path).read().split("\n")
            for ln in range(min(line, len(src)) - 1, -1, -1):
                mm = re.match(r"\s*(?:private\s+)?(?:theorem|def|example)\s*([\w.']*)", src[ln])
                if mm:
                    name = mm.group(1) or "example"
                    break
        except OSError:
            pass
        item = f"{name} ({m.group(1)}:{line})"
        if item not in out:
            out.append(item)
    return out


# --------------------------------------------------------------------------------------------- main
def load_tables(inv: dict) -> dict:
    t = inv["tables"]
    return {"binary": {op: c for op, c, _ in t["binary"]}, "unary": {op: c for op, c, _ in t["unary"]}}


def main(ctx: Ctx) -> None:
    from translate import cfast
    REPLAYS.clear()
    ctx.level = "proof"
    ctx.coverage["rule"] = (
        "a case = (harness function, operand tuple, opt level); boundary cases: full products of the boundary set "
        "(0, ±1, ±2^k and neighbours for k in 7,8,15,16,31,32,62,63,64, mixed short/long) per operation × type, plus "
        "random operands of mixed magnitude; non-trivial = inside the property's domain (not excluded); distinct by "
        "(function, operands).")
    fns = gen.functions()
    src = gen.source(fns)
    _ = ctx.tmp                # create the scratch directory before the build threads race for it
    ex = ThreadPoolExecutor(max_workers=2)
    builds = {opt: ex.submit(build_harness, ctx, opt, src) for opt in ("0", "3")}

    # 1. translator + theorems
    from translate import irops
    translated = True
    try:
        cfast.main()
        inv = json.load(open(cfast.OUT_JSON))
    except cfast.Unsupported as e:
        translated = False
        ctx.broken_ties.append(f"translate/cfast.py rejects the current sources (fail closed): {e}")
        inv = None          # the generated definitions on disk are stale: no model evaluation, search on the real code only
    if translated:
        try:
            irops.main()
            irinv = json.load(open(irops.OUT_JSON))
            ctx.coverage["ir_functions_translated"] = len(irinv["functions"])
            ctx.coverage["ir_functions_not_translated"] = len(irinv["skipped"])
        except cfast.Unsupported as e:
            translated = False
            inv = None
            ctx.broken_ties.append(f"translate/irops.py rejects the IR of the harness functions (fail closed): {e}")
    proved = False
    if translated:
        proved = ctx.prove("MypyVerif.Props.C15", MODEL_FILES)
        if not proved:
            ctx.broken_ties.append("proof obligations that no longer check: " + ", ".join(failing_theorems(getattr(ctx, "build_log", ""))[:20]))
        ctx.coverage["translated_c_functions"] = [f["name"] for f in inv["functions"]]
        ctx.coverage["not_translated"] = inv["skipped"]
    ctx.trusted(
        "translate/cfast.py: C11 integer promotions / usual arithmetic conversions on LP64, signed `>>` arithmetic, "
        "signed overflow wraps (-fno-strict-overflow); self-test on every run (fixed snippet -> literal Lean, 9 mutations, "
        "9 rejected constructs); translate/irops.py self-test (4 fixed functions -> literal Lean, 4 mutants must differ)",
        "out-of-line slow paths of int_ops.c (CPyTagged_Add_ …): trusted to compute CPython's result (Tagged.slowSpec); "
        "exercised by the compiled harness on long operands",
        "gcc's translation of the C subset (exercised by the compiled-harness correspondence at -O0 and -O3)",
        "CPython 3.12 as the oracle; float arithmetic / comparison / pow / mod: correspondence only (no Lean model); "
        "int -> double conversion and int / int: Model/FloatConv.lean, validated against both CPython and the compiled code",
        "translate/irops.py: semantics of the IR subset as emitted by mypyc/codegen/emitfunc.py (C types of registers, "
        "signed casts); opaque runtime calls (CPyTagged_IsLt_, CPyLong_AsInt64, CPyTagged_FromInt64) follow their success edge",
        "hand model of mypyc/lower/int_ops.py and the fixed-width part of ll_builder.py (Model/FixedWidth.lean): tied to the "
        "regenerated IR by the `ir_*` theorems and to the compiled code by the correspondence")
    ctx.assume("boxed (long) tagged ints are normalised: a heap int never holds a value that fits 63 bits "
               "(Tagged.Valuation.normalised; observed through the `norm_*` harness functions)",
               "the out-of-line functions meet Tagged.slowSpec (they call CPython's PyNumber_* / RichCompare)")

    # 2. cases, three evaluators — processed in chunks so that memory stays bounded in the thorough tier
    tables = load_tables(inv) if inv else {"binary": {}, "unary": {}}
    st = State()
    helper_bad: list[str] = []
    if inv:
        try:
            helper_bad = helper_search(ctx, inv)
        except ToolFailure as e:
            if proved:
                raise
            st.model_ok = False
            ctx.broken_ties.append("Lean driver cannot evaluate the regenerated definitions: " + str(e)[:500])
    spec_bad = spec_validation(ctx) if inv else []
    for b in spec_bad[:3]:
        ctx.violation("the specification the theorems are stated against is not CPython's operator: " + b,
                      {"broken": "Model/Tagged.lean specification vs CPython", "detail": b}, found_input=False)
    if helper_bad:
        ctx.broken_ties.append("model counterexamples (translated helper vs its specification): " + "; ".join(helper_bad[:6])
                               + f" — {len(REPLAYS)} operand tuples derived from them are replayed on the compiled harness "
                                 "(stream `model-counterexample`)")
    dirs = {opt: f.result() for opt, f in builds.items()}
    chunk: list[tuple[gen.Fn, list, str]] = []
    nchunk = 0
    magic = error_magic(inv) or error_magic(json.load(open(cfast.OUT_JSON)) if os.path.exists(cfast.OUT_JSON) else None)
    ctx.coverage["error_magic_values"] = {k: str(v) for k, v in magic.items()}
    for case in iter_cases(ctx, fns, magic):
        chunk.append(case)
        if len(chunk) >= CHUNK:
            nchunk += 1
            process_chunk(ctx, chunk, nchunk, dirs, tables, inv, proved, st)
            chunk = []
    if chunk:
        nchunk += 1
        process_chunk(ctx, chunk, nchunk, dirs, tables, inv, proved, st)

    # 3. verdicts
    nshape: dict[str, int] = {}
    nreports = 0
    for (shape, fname), g in sorted(st.groups.items(), key=lambda kv: size_of(kv[1]["best"])):
        nshape[shape] = nshape.get(shape, 0) + 1
        if nshape[shape] > 3 or nreports >= 8:
            continue
        nreports += 1
        d = g["best"]                # the smallest operands on which this function fails
        fn, args = d["fn"], d["args"]
        ctx.report(d["obs"], f"{fn.name}{show_args(args)} (`{fn.expr}`, opt level {d['opt']}): compiled gives "
                   f"`{d['rc']}`, CPython gives `{d['ri']}` [{d['why']}]; {g['n']} failing case(s) of this function"
                   + (f"; Lean model: {d['mprob']}" if d["mprob"] else "")
                   + ("; the Lean model predicts the compiled value" if d["mpred"] == d["rc"] else ""),
                   {"function": fn.name, "expr": fn.expr, "args": [enc_arg(a) for a in args], "opt": d["opt"],
                    "compiled": d["rc"], "cpython": d["ri"], "model": d["mo"], "why": d["why"],
                    "failing_cases_of_this_function": g["n"]})
    for m in sorted(st.model_only, key=size_of)[:3]:
        fn, args = m["fn"], m["args"]
        ctx.violation(f"correspondence broken: Lean model ({m['mo'][0]}) on {fn.name}{show_args(args)}: {m['what']}",
                      {"broken": "Lean model (Gen/CFast.lean or Model/FixedWidth.lean) vs compiled harness", "function": fn.name,
                       "args": [enc_arg(a) for a in args], "opt": m["opt"], "model": m["mo"], "compiled": m["rc"]},
                      found_input=False)
    ctx.count("traces_validated_against_impl", st.nlines * len(dirs))
    ctx.count("disagreements_checked", st.ndiff + st.model_problems)
    ctx.coverage["cases_compiled_vs_cpython"] = st.njobs * len(dirs)
    ctx.coverage["cases_with_model_prediction"] = st.nmodel
    ctx.coverage["excluded_too_large_to_evaluate"] = st.excluded_large
    ctx.coverage["differences_by_class"] = st.reported
    ctx.coverage["harness_functions"] = len(fns)
    ctx.coverage["chunks"] = nchunk
    ctx.coverage["broken_ties"] = list(ctx.broken_ties)
    if (not proved or not st.model_ok or helper_bad) and not ctx.violations:
        ctx.violation("the Lean development for C15 no longer checks against the current sources and no operand pair was "
                      "found on which compiled code and CPython differ",
                      {"broken": ctx.broken_ties, "searched_cases": st.njobs * len(dirs)}, found_input=False)


CHUNK = 250000


class State:
    def __init__(self) -> None:
        self.groups: dict[tuple[str, str], dict] = {}     # (difference shape, function) -> {"best": smallest diff, "n": count}
        self.model_only: list[dict] = []
        self.reported: dict[str, int] = {}
        self.model_problems = 0
        self.ndiff = 0
        self.njobs = 0
        self.nlines = 0
        self.nmodel = 0
        self.excluded_large = 0
        self.model_ok = True


def size_of(d: dict) -> tuple:
    from fractions import Fraction
    mags = [abs(int(a)) if isinstance(a, int) else (abs(Fraction(a)) if a == a and abs(a) != float("inf") else 10 ** 400)
            for a in d["args"]]
    return (max(mags) if mags else 0, sum(mags), d["opt"])


def process_chunk(ctx: Ctx, cases: list[tuple[gen.Fn, list, str]], nchunk: int, dirs: dict[str, str], tables: dict,
                  inv: dict | None, proved: bool, st: State) -> None:
    model_idx: list[tuple[int, str]] = []
    lines: list[str] = []
    jobs: list[tuple[int, str, list]] = []
    for i, (fn, args, _) in enumerate(cases):
        if too_large(fn, args):
            st.excluded_large += 1
            continue
        jobs.append((i, fn.name, args))
        if inv and st.model_ok:
            for ml in model_lines(fn, args, tables):
                lines.append(ml[0])
                model_idx.append((i, ml[1]))
    model_out: dict[int, list[tuple[str, str]]] = {}
    if lines:
        try:
            outs = ctx.lean_driver("Driver/C15.lean", lines)
            if len(outs) != len(lines):
                raise ToolFailure("driver returned %d lines for %d cases" % (len(outs), len(lines)))
            for (i, c), o in zip(model_idx, outs):
                model_out.setdefault(i, []).append((c, o))
        except ToolFailure as e:
            if proved:
                raise
            st.model_ok = False
            ctx.broken_ties.append("Lean driver cannot evaluate the regenerated definitions: " + str(e)[:500])
    with ThreadPoolExecutor(max_workers=2) as ex2:
        futs = {opt: ex2.submit(run_worker, ctx, dirs[opt], jobs, f"O{opt}_{nchunk}") for opt in dirs}
        results = {opt: f.result() for opt, f in futs.items()}
    st.njobs += len(jobs)
    st.nlines += len(lines)
    st.nmodel += len(model_out)
    for i, name, args in jobs:
        fn = cases[i][0]
        stream = cases[i][2]
        mo = None
        mprob, mpred = (None, None)
        for cand in model_out.get(i, []):
            p1, p2 = check_model(fn, args, cand[0], cand[1])
            if mo is None or (p1 and not mprob):
                mo, mprob, mpred = cand, p1, p2
        if mprob:
            st.model_problems += 1
        anydiff = False
        ckey = name + ":" + hashlib.blake2b(repr(args).encode(), digest_size=7).hexdigest()
        for opt, res in results.items():
            ri, rc = res.get(i, ("missing - -", "missing - -"))
            if ri.startswith("skipped"):
                continue
            verdict, why = judge(fn, args, ri, rc)
            ctx.case(ckey + opt, nontrivial=verdict != "excluded")
            if opt == "3":
                ctx.dist("group", fn.group)
                ctx.dist("operator", fn.op)
                ctx.dist("stream", stream)
                ctx.dist("interpreter_outcome", ri.split(" ")[0] + ":" + ri.split(" ")[1])
                if verdict == "excluded":
                    ctx.dist("excluded", why)
                ints = [a for a in args if isinstance(a, int) and not isinstance(a, bool)]
                if fn.group == "int" and len(ints) == 2:
                    ctx.dist("tagged_operand_repr", "/".join("short" if TAG_MIN <= a <= TAG_MAX else "long" for a in ints))
            if verdict == "DIFF":
                anydiff = True
                st.ndiff += 1
                obs = known_class(fn, args, ri, rc)
                d = {"fn": fn, "args": args, "opt": opt, "ri": ri, "rc": rc, "why": why, "mo": mo, "mprob": mprob,
                     "mpred": mpred, "obs": obs}
                shape = json.dumps({k: v for k, v in obs.items() if k != "function"}, sort_keys=True)
                g = st.groups.setdefault((shape, fn.name), {"best": d, "n": 0})
                g["n"] += 1
                if size_of(d) < size_of(g["best"]):
                    g["best"] = d
                key = obs["class"] + ("/" + obs["effect"] if "effect" in obs else "") + ":" + fn.name
                st.reported[key] = st.reported.get(key, 0) + 1
            elif mpred is not None and verdict == "same" and not mprob and \
                    not (mpred == rc or (mpred == "exc * -" and rc.startswith("exc "))):
                if len(st.model_only) < 200:
                    st.model_only.append({"fn": fn, "args": args, "opt": opt, "mo": mo, "rc": rc,
                                          "what": f"predicts `{mpred}`, the compiled code (= CPython) gives `{rc}`"})
        if mprob and not anydiff and len(st.model_only) < 200:
            st.model_only.append({"fn": fn, "args": args, "opt": "-", "mo": mo, "rc": None,
                                  "what": f"{mprob}; not reproduced by the compiled code"})
    if nchunk == 1 and jobs:
        j = jobs[len(jobs) // 3]
        ctx.sample({"case": [j[1], [repr(a) for a in j[2]]], "result": results["3"].get(j[0])})
        if lines:
            ctx.sample({"model_line": lines[len(lines) // 2], "model_out": model_out.get(model_idx[len(lines) // 2][0])})
    # job / output files of this chunk are not needed any more
    for d in dirs.values():
        for f in os.listdir(d):
            if f.startswith(("jobs_", "out_")):
                os.unlink(os.path.join(d, f))


def replay(ctx: Ctx, path: str) -> int:
    body = json.load(open(path))
    det = body["replay"].get("detail", body["replay"])
    if "function" not in det or "args" not in det:
        print(json.dumps(body, indent=1))
        return 0
    fns = gen.functions()
    fn = next(f for f in fns if f.name == det["function"])
    args = [float.fromhex(a["f"]) if isinstance(a, dict) and a["f"] != "nan" else (float("nan") if isinstance(a, dict) else a)
            for a in det["args"]]
    opts = [det["opt"]] if "opt" in det else ["0", "3"]
    rc = 0
    for opt in opts:
        d = build_harness(ctx, opt, gen.source(fns))
        res = run_worker(ctx, d, [(0, fn.name, args)], "replay")
        ri, rcm = res[0]
        verdict, why = judge(fn, args, ri, rcm)
        print(f"{fn.name}{show_args(args)} `{fn.expr}` opt={opt}: compiled `{rcm}`  CPython `{ri}`  -> {verdict} {why}")
        if verdict == "DIFF":
            rc = 1
    return rc
