"""Source of the one-operation harness module for C15 (compiled with mypyc; the *same* source is also
executed by the interpreter as the oracle — with `i64 = i32 = i16 = u8 = int`, which is what
`mypy_extensions` provides at run time).

`functions()` returns the catalogue: one entry per function with its name, operand types, the operator,
the kind of domain rule that applies (see `run.py:in_domain`), and — for `int` operations that map to a
translated C fast path — the name of that C function.
"""
from __future__ import annotations

from dataclasses import dataclass, field

BINOPS = {"add": "+", "sub": "-", "mul": "*", "fdiv": "//", "mod": "%", "and_": "&", "or_": "|", "xor": "^",
          "lsh": "<<", "rsh": ">>"}
CMPOPS = {"lt": "<", "le": "<=", "gt": ">", "ge": ">=", "eq": "==", "ne": "!="}
FIXED = ["i64", "i32", "i16", "u8"]
RANGES = {"i64": (-2 ** 63, 2 ** 63 - 1), "i32": (-2 ** 31, 2 ** 31 - 1), "i16": (-2 ** 15, 2 ** 15 - 1), "u8": (0, 255)}


@dataclass
class Fn:
    name: str
    params: list[str]          # operand types: int bool float i64 i32 i16 u8
    ret: str
    expr: str                  # Python expression over a, b
    op: str                    # operator text ("+", "conv", "neg", …)
    group: str                 # int | bool | float | fixed | conv | mixed | const
    ftype: str = ""            # the fixed-width type involved, if any
    const: int | None = None   # literal operand, if any
    stmts: list[str] = field(default_factory=list)   # optional statements before `return expr`


def functions() -> list[Fn]:
    out: list[Fn] = []

    def add(*a, **k):
        out.append(Fn(*a, **k))

    # ---- int ----------------------------------------------------------------------------------------
    for n, o in BINOPS.items():
        add(f"{n}_int", ["int", "int"], "int", f"a {o} b", o, "int")
    add("pow__int", ["int", "int"], "int", "a ** b", "**", "int")
    add("tdiv_int", ["int", "int"], "float", "a / b", "/", "int")
    for n, o in CMPOPS.items():
        add(f"{n}_int", ["int", "int"], "bool", f"a {o} b", o, "int")
    add("neg_int", ["int"], "int", "-a", "neg", "int")
    add("inv_int", ["int"], "int", "~a", "inv", "int")
    add("pos_int", ["int"], "int", "+a", "pos", "int")
    add("abs_int", ["int"], "int", "abs(a)", "abs", "int")
    add("not_int", ["int"], "bool", "not a", "not", "int")
    add("truth_int", ["int"], "bool", "bool(a)", "bool", "int")
    add("tofloat_int", ["int"], "float", "float(a)", "float", "int")
    # augmented assignment goes through separately registered primitives ("+=" …)
    for n, o in (("iadd", "+="), ("isub", "-="), ("imul", "*="), ("ifdiv", "//="), ("imod", "%="),
                 ("iand", "&="), ("ior", "|="), ("ixor", "^="), ("ilsh", "<<="), ("irsh", ">>=")):
        add(f"{n}_int", ["int", "int"], "int", "a", o[:-1], "int", stmts=[f"a {o} b"])
    # literal operands (short-int literals take the `quick` path of compare_tagged; big literals are boxed)
    for c in (0, 1, 3, -3, 255, 2 ** 31, 2 ** 62 - 1, 2 ** 62, -2 ** 62, 2 ** 64):
        cn = f"m{-c}" if c < 0 else str(c)
        for n, o in (("add", "+"), ("sub", "-"), ("mul", "*"), ("and_", "&"), ("xor", "^")):
            add(f"{n}_int_c{cn}", ["int"], "int", f"a {o} {c}", o, "const", const=c)
        add(f"rsub_int_c{cn}", ["int"], "int", f"{c} - a", "-", "const", const=c)
        for n, o in CMPOPS.items():
            add(f"{n}_int_c{cn}", ["int"], "bool", f"a {o} {c}", o, "const", const=c)
        add(f"req_int_c{cn}", ["int"], "bool", f"{c} == a", "==", "const", const=c)
        if c != 0:
            add(f"fdiv_int_c{cn}", ["int"], "int", f"a // {c}", "//", "const", const=c)
            add(f"mod_int_c{cn}", ["int"], "int", f"a % {c}", "%", "const", const=c)
        if 0 <= c <= 255:
            add(f"lsh_int_c{cn}", ["int"], "int", f"a << {c}", "<<", "const", const=c)
            add(f"rsh_int_c{cn}", ["int"], "int", f"a >> {c}", ">>", "const", const=c)

    # results must be *normalised* tagged ints (a boxed value that would fit a short int breaks `==`, which
    # tests tags first): compare the result with the expected value inside compiled code
    for n, o in BINOPS.items():
        add(f"norm_{n}_int", ["int", "int", "int"], "bool", f"(a {o} b) == c", o, "norm")
    add("norm_neg_int", ["int", "int"], "bool", "(-a) == b", "neg", "norm")
    add("norm_inv_int", ["int", "int"], "bool", "(~a) == b", "inv", "norm")
    for t in FIXED:
        add(f"norm_back_{t}", [t, "int"], "bool", "int(a) == b", "back", "norm", ftype=t)
        add(f"norm_conv_{t}", ["int", "int"], "bool", f"int({t}(a)) == b", "conv", "norm", ftype=t)

    # ---- bool ---------------------------------------------------------------------------------------
    for n, o in BINOPS.items():
        ret = "bool" if n in ("and_", "or_", "xor") else "int"
        add(f"{n}_bool", ["bool", "bool"], ret, f"a {o} b", o, "bool")
    add("pow__bool", ["bool", "bool"], "int", "a ** b", "**", "bool")
    add("tdiv_bool", ["bool", "bool"], "float", "a / b", "/", "bool")
    for n, o in CMPOPS.items():
        add(f"{n}_bool", ["bool", "bool"], "bool", f"a {o} b", o, "bool")
    add("neg_bool", ["bool"], "int", "-a", "neg", "bool")
    add("inv_bool", ["bool"], "int", "~a", "inv", "bool")
    add("pos_bool", ["bool"], "int", "+a", "pos", "bool")
    add("not_bool", ["bool"], "bool", "not a", "not", "bool")
    add("toint_bool", ["bool"], "int", "int(a)", "int", "bool")
    add("tofloat_bool", ["bool"], "float", "float(a)", "float", "bool")
    for n, o in (("add", "+"), ("mul", "*"), ("and_", "&"), ("lt", "<"), ("eq", "==")):
        r = "bool" if n in ("lt", "eq") else "int"
        add(f"{n}_bool_int", ["bool", "int"], r, f"a {o} b", o, "bool")
        add(f"{n}_int_bool", ["int", "bool"], r, f"a {o} b", o, "bool")

    # ---- float --------------------------------------------------------------------------------------
    for n, o in (("add", "+"), ("sub", "-"), ("mul", "*"), ("tdiv", "/"), ("fdiv", "//"), ("mod", "%"), ("pow_", "**")):
        add(f"{n}_float", ["float", "float"], "float", f"a {o} b", o, "float")
    for n, o in CMPOPS.items():
        add(f"{n}_float", ["float", "float"], "bool", f"a {o} b", o, "float")
    add("neg_float", ["float"], "float", "-a", "neg", "float")
    add("pos_float", ["float"], "float", "+a", "pos", "float")
    add("abs_float", ["float"], "float", "abs(a)", "abs", "float")
    add("toint_float", ["float"], "int", "int(a)", "int", "float")
    add("not_float", ["float"], "bool", "not a", "not", "float")
    add("truth_float", ["float"], "bool", "bool(a)", "bool", "float")
    # int operand converted to float
    for n, o in (("add", "+"), ("sub", "-"), ("mul", "*"), ("tdiv", "/"), ("fdiv", "//"), ("mod", "%"), ("pow_", "**")):
        add(f"{n}_int_float", ["int", "float"], "float", f"a {o} b", o, "mixedfloat")
        add(f"{n}_float_int", ["float", "int"], "float", f"a {o} b", o, "mixedfloat")
    for n, o in CMPOPS.items():
        add(f"{n}_int_float", ["int", "float"], "bool", f"a {o} b", o, "mixedfloat")
        add(f"{n}_float_int", ["float", "int"], "bool", f"a {o} b", o, "mixedfloat")

    # ---- fixed width --------------------------------------------------------------------------------
    for t in FIXED:
        for n, o in BINOPS.items():
            add(f"{n}_{t}", [t, t], t, f"a {o} b", o, "fixed", ftype=t)
        for n, o in CMPOPS.items():
            add(f"{n}_{t}", [t, t], "bool", f"a {o} b", o, "fixed", ftype=t)
        add(f"neg_{t}", [t], t, "-a", "neg", "fixed", ftype=t)
        add(f"inv_{t}", [t], t, "~a", "inv", "fixed", ftype=t)
        add(f"pos_{t}", [t], t, "+a", "pos", "fixed", ftype=t)
        add(f"not_{t}", [t], "bool", "not a", "not", "fixed", ftype=t)
        # argument unboxing done by the wrapper (CPyLong_AsInt64/32/16/UInt8): driven with out-of-range ints too
        add(f"unbox_{t}", [t], t, "a", "unbox", "unbox", ftype=t)
        add(f"conv_{t}", ["int"], t, f"{t}(a)", "conv", "conv", ftype=t)
        add(f"back_{t}", [t], "int", "int(a)", "back", "conv", ftype=t)
        add(f"tofloat_{t}", [t], "float", "float(a)", "float", "conv", ftype=t)
        add(f"frombool_{t}", ["bool"], t, f"{t}(a)", "conv", "conv", ftype=t)
        # implicit conversion of an `int` operand
        for n, o in (("add", "+"), ("fdiv", "//"), ("mod", "%"), ("lt", "<"), ("eq", "==")):
            r = "bool" if n in ("lt", "eq") else t
            add(f"{n}_{t}_int", [t, "int"], r, f"a {o} b", o, "mixed", ftype=t)
            add(f"{n}_int_{t}", ["int", t], r, f"a {o} b", o, "mixed", ftype=t)
        # literal divisors: inline_fixed_width_divide / inline_fixed_width_mod
        lo, hi = RANGES[t]
        # -200 / 250: literal divisors large enough for a remainder equal to the error value (-113 / 239)
        for c in (1, 2, 3, 7, 100, 250, -2, -3, -7, -200):
            if not (lo <= c <= hi):
                continue
            cn = f"m{-c}" if c < 0 else str(c)
            add(f"fdiv_{t}_c{cn}", [t], t, f"a // {c}", "//", "fixedconst", ftype=t, const=c)
            add(f"mod_{t}_c{cn}", [t], t, f"a % {c}", "%", "fixedconst", ftype=t, const=c)
            add(f"mul_{t}_c{cn}", [t], t, f"a * {c}", "*", "fixedconst", ftype=t, const=c)
            add(f"lt_{t}_c{cn}", [t], "bool", f"a < {c}", "<", "fixedconst", ftype=t, const=c)
        # conversions between fixed-width types
        for u in FIXED:
            if u != t:
                add(f"conv_{t}_to_{u}", [t], u, f"{u}(a)", "conv", "convfixed", ftype=u)
    return out


def source(fns: list[Fn] | None = None) -> str:
    fns = functions() if fns is None else fns
    lines = ["from mypy_extensions import i64, i32, i16, u8", ""]
    for f in fns:
        names = ["a", "b", "c"][: len(f.params)]
        sig = ", ".join(f"{n}: {t}" for n, t in zip(names, f.params))
        lines.append(f"def {f.name}({sig}) -> {f.ret}:")
        for s in f.stmts:
            lines.append(f"    {s}")
        lines.append(f"    return {f.expr}")
        lines.append("")
    return "\n".join(lines)


if __name__ == "__main__":
    print(source())
