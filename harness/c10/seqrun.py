"""Child: several mypy runs one after the other inside ONE interpreter (API reuse); prints the outputs as JSON."""
import json
import os
import sys

from mypy import api

jobs = json.load(open(sys.argv[1]))
res = []
for j in jobs:
    os.chdir(j["cwd"])
    out, err, status = api.run(j["args"])
    res.append({"stdout": out, "stderr": err, "status": status})
json.dump(res, open(sys.argv[2], "w"))
