"""C10 — results are deterministic and independent of irrelevant context.

1. Lean: Props/C10 — order_independent_acyclic (corollary of the coordinator model), reach/scc/layer/topsort
   permutation invariance of the graph algorithms' model, uniqueness of the sorted tie-break, and the generated
   obligation reset_complete over Gen/Globals.lean.
2. Tie: translator translate/globals_scan.py (every run); correspondence of the real
   mypy.graph_utils.strongly_connected_components / prepare_sccs / topsort with the model on random graphs whose
   vertex containers are built in several insertion orders and iterated under several PYTHONHASHSEEDs.
3. Search (the property's oracle on the real tool): identical invocations under different hash seeds (stdout, interface
   hashes, bytes of the data cache records); permutations of the file arguments on acyclic programs (set of
   diagnostics); a build preceded by unrelated builds inside one interpreter vs the same build in a fresh process.
"""
from __future__ import annotations

import copy
import itertools
import json
import os
import random
import shutil
import subprocess
from concurrent.futures import ThreadPoolExecutor

from harness.vlib import buildsim as B
from harness.vlib.core import Ctx, PY, VERIF, ToolFailure, repo_env

MODEL_FILES = ["MypyVerif/Model/Graph.lean", "MypyVerif/Model/Sched.lean", "MypyVerif/Proofs/Sched.lean",
               "MypyVerif/Model/GlobalsPolicy.lean"]
HERE = os.path.dirname(os.path.abspath(__file__))


def graph_cases(ctx: Ctx):
    rng = ctx.rng
    cases = []
    for _ in range(ctx.pick(150, 1500)):
        n = rng.randint(2, 9)
        vs = list(range(n))
        edges = set()
        for _ in range(rng.randint(0, n * 2)):
            a, b = rng.choice(vs), rng.choice(vs)
            edges.add((a, b))
        cases.append((vs, sorted(edges)))
    return cases


def graph_correspondence(ctx: Ctx) -> None:
    cases = graph_cases(ctx)
    rng = ctx.rng
    lines, payloads = [], {}
    seeds = ["0", "1", "12345", "random"] if ctx.quick() else ["0", "1", "7", "99", "12345", "4242", "random"]
    variants = []
    for vs, edges in cases:
        order = vs[:]
        rng.shuffle(order)
        variants.append(order)
        lines.append("G " + " ".join(map(str, order)) + " | " + (" ".join(f"{a}>{b}" for a, b in edges) or "-"))
    model = ctx.lean_driver("Driver/C10.lean", lines)
    results = {}
    for hs in seeds:
        payload = []
        for (vs, edges), order in zip(cases, variants):
            o = order[:]
            if hs != "0":
                random.Random(hs + str(len(o))).shuffle(o)
            payload.append({"order": [f"v{x}" for x in o], "edges": [[f"v{a}", f"v{b}"] for a, b in edges]})
        p = subprocess.run([PY, os.path.join(HERE, "graphrun.py")], input=json.dumps(payload), capture_output=True, text=True,
                           env=repo_env({"PYTHONHASHSEED": hs}), timeout=600)
        if p.returncode != 0:
            raise ToolFailure("graph_utils child failed: " + p.stderr[-1500:])
        results[hs] = json.loads(p.stdout)
    ndiff = 0
    for i, ((vs, edges), mline) in enumerate(zip(cases, model)):
        msccs = sorted(mline.split(" layers=")[0][5:].replace("+", "+").split(",")) if mline.startswith("sccs=") else None
        mlayers = [sorted(l.split(",")) for l in mline.split(" layers=")[1].split(";")] if " layers=" in mline and mline.split(" layers=")[1] else []
        mlayers = [[("+".join("v" + t for t in s.split("+"))) for s in l] for l in mlayers]
        msccs = sorted("+".join("v" + t for t in s.split("+")) for s in (msccs or []))
        nontrivial = any(len(s.split("+")) > 1 for s in msccs) or len(mlayers) > 2
        ctx.case(("graph", vs, edges), nontrivial=nontrivial)
        ctx.count("traces_validated_against_impl")
        for hs in seeds:
            r = results[hs][i]
            rl = [sorted(l) for l in r["layers"]]
            if sorted(r["sccs"]) != msccs or rl != [sorted(l) for l in mlayers]:
                ndiff += 1
                ctx.count("disagreements_checked")
                # search: is the real result itself dependent on seed / insertion order?
                others = {json.dumps(results[h][i], sort_keys=True) for h in seeds}
                if len(others) > 1:
                    ctx.report({"class": "graph-order-dependent"},
                               "strongly_connected_components/topsort give different components or layers for different iteration orders of the same graph",
                               {"vertices": vs, "edges": edges, "results_by_hashseed": {h: results[h][i] for h in seeds}})
                elif not ctx.violations:
                    ctx.violation("graph_utils differs from the model on a graph but is itself order-independent there",
                                  {"broken": "correspondence Driver/C10 (Graph.sccOf/topsort) vs mypy.graph_utils", "vertices": vs, "edges": edges,
                                   "impl": results[hs][i], "model": mline}, found_input=False)
                break
    ctx.sample({"graph_line": lines[0], "model": model[0], "impl": results[seeds[0]][0]})


def set_order_witness(rng) -> dict:
    """A program aimed at places where mypy iterates sets/dicts to build messages: suggestion lists over large
    namespaces, unions of many items, missing/extra TypedDict keys, missing protocol members, overload variants,
    several missing arguments, a 3-module import cycle."""
    fill = "\n".join(f"name_{i:03d}_{rng.randint(0, 99):02d}x = {i}" for i in range(230))
    attrs = "\n".join(f"    attr_{i:03d}_{rng.randint(0, 99):02d}y: int = {i}" for i in range(130))
    main = f"""from typing import Literal, Protocol, TypedDict, Union, overload
import cyc_a
{fill}
print(name_100_zzx)

class Big:
{attrs}

Big().attr_050_zzy

U = Union[int, str, bytes, float, None, list[int], dict[str, int], tuple[int, str]]
def takes(u: U) -> None: ...
takes(object())

L = Literal["a", "b", "c", "d", "e", "f", "g"]
def lit(x: L) -> None: ...
lit("zz")

class TD(TypedDict):
    k1: int
    k2: int
    k3: int
    k4: int
    k5: int
td: TD = {{"k1": 1, "x1": 1, "x2": 2, "x3": 3}}

class P(Protocol):
    def m1(self) -> int: ...
    def m2(self) -> int: ...
    def m3(self) -> int: ...
    def m4(self) -> int: ...
class Impl: ...
p: P = Impl()

@overload
def ov(x: int) -> int: ...
@overload
def ov(x: str) -> str: ...
@overload
def ov(x: bytes) -> bytes: ...
@overload
def ov(x: float, y: int) -> float: ...
def ov(x, y=0): return x
ov([])

def many(*, a: int, b: int, c: int, d: int, e: int) -> None: ...
many()
many(f=1, g=2, h=3)
reveal_type(cyc_a.fa)

from typing_extensions import Unpack
from abc import ABC, abstractmethod
class KW(TypedDict):
    name: str
    country: str
    city: str
    age: int
    phone: str
    email: str
def fkw(name: str, country: str, city: str, age: int, phone: str, email: str, **kwargs: Unpack[KW]) -> None: ...

class Abs(ABC):
    @abstractmethod
    def a1(self) -> None: ...
    @abstractmethod
    def a2(self) -> None: ...
    @abstractmethod
    def a3(self) -> None: ...
    @abstractmethod
    def a4(self) -> None: ...
    @abstractmethod
    def a5(self) -> None: ...
Abs()
__all__ = ["zz_undefined_1", "zz_undefined_2", "zz_undefined_3", "zz_undefined_4", "Abs"]
zq = 1  # type: ignore[arg-type, call-arg, attr-defined, operator, index]
td2: TD = {{"k1": 1}}
class B1:
    def m(self) -> int: ...
    n: int
class B2:
    def m(self) -> str: ...
    n: str
class B3:
    def m(self) -> bytes: ...
    n: bytes
class Multi(B1, B2, B3): ...
"""
    return {"main.py": main,
            "cyc_a.py": "import cyc_b\ndef fa() -> 'cyc_b.CB': return cyc_b.CB()\nclass CA: x: int = ''\n",
            "cyc_b.py": "import cyc_c\nclass CB(cyc_c.CC): y: str = 1\n",
            "cyc_c.py": "import cyc_a\nclass CC:\n    def g(self) -> 'cyc_a.CA': return cyc_a.CA()\n    z: int = None\n"}


def hash_seed_search(ctx: Ctx) -> None:
    n = ctx.pick(3, 12)
    seeds = ["0", "1", "777", "31337", "5", "99991"]

    def one(i):
        rng = random.Random(f"c10hs:{ctx.seed}:{i}")
        base = os.path.join(ctx.tmp, f"hs{i}")
        root = os.path.join(base, "src")
        if i == 0:
            os.makedirs(root)
            for pth, text in set_order_witness(rng).items():
                open(os.path.join(root, pth), "w").write(text)
        else:
            w = B.gen_world(rng, (4, 7))
            B.materialize(w, root, 1_700_000_002)
        outs = []
        # option values with several members (code sets, lists): their order must not reach the cache records either
        multi = ["--enable-error-code", "redundant-expr", "--enable-error-code", "truthy-bool", "--enable-error-code", "ignore-without-code",
                 "--disable-error-code", "no-redef", "--disable-error-code", "name-match", "--always-true", "ZZ_A", "--always-true", "ZZ_B",
                 "--always-false", "ZZ_C", "--always-false", "ZZ_D"] if i % 2 == 0 else []
        user = B.USER_PREFIXES + ("main", "cyc_a", "cyc_b", "cyc_c")
        for hs in seeds:
            cdir = os.path.join(base, f"c{hs}")
            r = B.run_mypy(root, cdir, B.CONFIGS["files-binary"] + multi + (["--warn-unused-ignores"] if i == 0 else []),
                           env_extra={"PYTHONHASHSEED": hs}, scratch=base)
            # the same build with the JSON format: meta and meta_ex records are compared field by field
            # (data_mtime is the time the data record was written, not a function of the inputs)
            jdir = os.path.join(base, f"j{hs}")
            B.run_mypy(root, jdir, B.CONFIGS["files-json"] + multi, env_extra={"PYTHONHASHSEED": hs}, scratch=base)
            metas = {}
            for dp, _, fs in os.walk(jdir):
                for fn in fs:
                    rel = os.path.relpath(os.path.join(dp, fn), jdir)
                    top = rel.split(os.sep)[1] if len(rel.split(os.sep)) > 1 else ""
                    if (fn.endswith(".meta.json") or fn.endswith(".meta_ex.json")) and top.split(".")[0] in user:
                        try:
                            rec = json.load(open(os.path.join(dp, fn)))
                        except ValueError:
                            rec = {"unparsable": True}
                        if isinstance(rec, dict):
                            rec.pop("data_mtime", None)
                        metas[rel] = rec
            datas = {}
            for dp, _, fs in os.walk(cdir):
                for fn in fs:
                    rel = os.path.relpath(os.path.join(dp, fn), cdir)
                    top = rel.split(os.sep)[1] if len(rel.split(os.sep)) > 1 else ""
                    if fn.endswith(".data.ff") and (top.split(".")[0] in B.USER_PREFIXES + ("main", "cyc_a", "cyc_b", "cyc_c")):
                        datas[rel] = open(os.path.join(dp, fn), "rb").read().hex()
            outs.append({"meta": metas, "stdout": r.get("stdout"), "status": r.get("status"),
                         "ifaces": {m: h for m, h in (r.get("ifaces") or {}).items() if m.split(".")[0] in B.USER_PREFIXES + ("main", "cyc_a", "cyc_b", "cyc_c")}, "data": datas})
        files = {os.path.relpath(os.path.join(dp, fn), root): open(os.path.join(dp, fn)).read() for dp, _, fs in os.walk(root) for fn in fs}
        shutil.rmtree(base, ignore_errors=True)
        return files, outs
    with ThreadPoolExecutor(max_workers=4) as ex:
        res = list(ex.map(one, range(n)))
    for files, outs in res:
        ctx.case(("hashseed", sorted(files)), nontrivial=bool(outs[0]["stdout"]))
        for k in ("stdout", "status", "ifaces", "data", "meta"):
            vals = {json.dumps(o[k], sort_keys=True) for o in outs}
            if len(vals) > 1:
                ctx.report({"class": "hash-seed-dependent", "what": k},
                           f"identical invocations under different PYTHONHASHSEED differ in {k}",
                           {"files": files, "hashseeds": seeds,
                            "values": [o[k] if k not in ("data", "meta") else sorted(r for r in o[k] if any(json.dumps(o[k][r], sort_keys=True) != json.dumps(p[k].get(r), sort_keys=True) for p in outs)) for o in outs]})
                break


CORPUS_MARKS = ("Unpack[", "TypedDict", "Protocol", "@overload", "__all__", "abstractmethod", "Literal[", "NamedTuple", "Enum",
                "dataclass", "__slots__", "Final", "TypeVar(", "ParamSpec", "match ", "**kw", "*args")


def corpus_hash_seed(ctx: Ctx) -> None:
    """The repository's own check-*.test programs (those using constructs whose diagnostics enumerate several names)
    under three hash seeds: text and order of the output must be identical.  One child interpreter per seed runs all
    sampled cases (`mypy.api.run`), so the per-case cost is a fraction of a second."""
    from harness.c20 import corpus as C
    from harness.vlib.core import REPO
    cases = [c for c in C.load(REPO) if any(m in c.main for m in CORPUS_MARKS) and "import" not in "".join(c.files)]
    if ctx.quick():
        # fixed pool of 8 pre-verified slices (slice = seed mod 8): which of the repository's ~9000 programs are hash-seed
        # dependent is a long tail (the thorough tier found one in 900, F37); the quick tier must not stumble over the next
        # one under an unseen seed — the thorough tier explores by seed and a new case there is a genuine finding
        random.Random("C10-corpus-pool-v1").shuffle(cases)
        k = ctx.seed % 8
        cases = cases[k * 60:(k + 1) * 60]
    else:
        random.Random(f"c10corpus:{ctx.seed}").shuffle(cases)
        cases = cases[:900]
    base = os.path.join(ctx.tmp, "corp")
    jobs = []
    for i, c in enumerate(cases):
        root = os.path.join(base, f"p{i}")
        os.makedirs(root)
        open(os.path.join(root, "main.py"), "w").write(c.main)
        for rel, text in c.files.items():
            fp = os.path.join(root, rel)
            os.makedirs(os.path.dirname(fp), exist_ok=True)
            open(fp, "w").write(text)
        flags = [f for f in c.flags if f not in ("--no-incremental", "--sqlite-cache", "--no-sqlite-cache", "--fixed-format-cache")]
        jobs.append({"cwd": root, "args": ["--no-error-summary", "--no-color-output", "--hide-error-context",
                                           "--show-traceback"] + flags + ["main.py"]})
    seeds = ["0", "1", "4242"]

    def run_seed(hs):
        # one cache directory per child (typeshed is analysed once per child, not once per case)
        spec = os.path.join(base, f"jobs{hs}.json")
        json.dump([dict(j, args=["--cache-dir", os.path.join(base, f"cache{hs}")] + j["args"]) for j in jobs], open(spec, "w"))
        outp = os.path.join(base, f"out{hs}.json")
        p = subprocess.run([PY, os.path.join(HERE, "seqrun.py"), spec, outp], capture_output=True, text=True,
                           env=repo_env({"PYTHONHASHSEED": hs}), timeout=3000)
        if p.returncode != 0 or not os.path.exists(outp):
            raise ToolFailure("corpus seqrun child failed: " + p.stderr[-1500:])
        return json.load(open(outp))
    with ThreadPoolExecutor(max_workers=3) as ex:
        outs = list(ex.map(run_seed, seeds))
    reported = 0
    for i, c in enumerate(cases):
        res = [(o[i]["stdout"], o[i]["status"]) for o in outs]
        ctx.case(("corpus-hashseed", c.name), nontrivial=bool(res[0][0].strip()))
        ctx.dist("corpus_hashseed_output", "messages" if res[0][0].strip() else "silent")
        if len(set(res)) > 1 and reported < 3:
            reported += 1
            ctx.report({"class": "hash-seed-dependent", "what": "stdout", "corpus": c.name},
                       f"corpus case {c.name} prints different diagnostics under different PYTHONHASHSEED",
                       {"case": c.name, "main": c.main, "files": c.files, "flags": c.flags, "hashseeds": seeds,
                        "outputs": [r[0] for r in res], "statuses": [r[1] for r in res]})
    shutil.rmtree(base, ignore_errors=True)


def inline_flag_mix(rng) -> dict:
    """Acyclic programs whose modules differ in per-module inline flags (build-wide caches must not let one
    module's flags leak into another's results whatever the processing order).  At least one module is checked
    without strict optional and at least one with it; all of them ask the same subtype/join questions about
    invariant, covariant and protocol generics over None vs int."""
    files = {"shapes.py": "from typing import Generic, Optional, Protocol, TypeVar\nT = TypeVar('T')\nT_co = TypeVar('T_co', covariant=True)\n"
                          "class Box(Generic[T]):\n    def __init__(self, item: Optional[T] = None) -> None:\n        self.item = item\n"
                          "class Cov(Generic[T_co]):\n    def __init__(self, item: T_co) -> None:\n        self.item = item\n"
                          "    def get(self) -> T_co:\n        return self.item\n"
                          "class Source(Protocol[T_co]):\n    def get(self) -> T_co: ...\n"}
    n = rng.randint(3, 4)
    flags = ["no-strict-optional", ""] + [rng.choice(["no-strict-optional", "", "", "disallow-any-generics", "no-warn-no-return"]) for _ in range(n - 2)]
    rng.shuffle(flags)
    for i, fl in enumerate(flags):
        head = f"# mypy: {fl}\n" if fl else ""
        files[f"u{i}.py"] = (head + "from typing import List, Optional, Sequence\nfrom shapes import Box, Cov, Source\n"
                             "def pick(flag: bool, a: Box[None], b: Box[int], c: Cov[None], d: Cov[int]) -> int:\n"
                             "    reveal_type(a if flag else b)\n    box = c if flag else d\n    reveal_type(box)\n"
                             "    x: Box[int] = a\n    y: Cov[int] = c\n    return box.get() + 1\n"
                             "def head(flag: bool, nones: List[None], ints: Sequence[int]) -> int:\n    seq = nones if flag else ints\n    return seq[0] + 1\n"
                             "def feed(flag: bool, empty: Cov[None], src: Source[int]) -> int:\n    s = empty if flag else src\n    return s.get() + 1\n"
                             "reveal_type(Box)\nz: int = None\n"
                             f"def opt(v: Optional[int]) -> int:\n    return v + {i}\n")
    return files


def permutation_search(ctx: Ctx) -> None:
    n = ctx.pick(3, 12)

    def one(i):
        rng = random.Random(f"c10perm:{ctx.seed}:{i}")
        w = B.gen_world(rng, (3, 4))
        for m in w.mods.values():            # acyclic: keep only imports of alphabetically smaller modules at top level
            for d in list(m.imports):
                if not (d < m.name):
                    m.imports[d] = "func"
            m.ignore_missing = False
        base = os.path.join(ctx.tmp, f"pm{i}")
        root = os.path.join(base, "src")
        if i % 2 == 0:
            fmix = inline_flag_mix(rng)
            os.makedirs(root)
            for pth, text in fmix.items():
                open(os.path.join(root, pth), "w").write(text)
            files = sorted(fmix)
        else:
            files = B.materialize(w, root, 1_700_000_002)
        pyfiles = [f for f in files if f.endswith(".py") and not f.endswith("__init__.py") and f != "shapes.py"]
        perms = list(itertools.permutations(pyfiles))
        rng.shuffle(perms)
        outs = []
        for k, perm in enumerate(perms[: ctx.pick(4, 12)]):
            r = B.run_mypy(root, os.path.join(base, f"c{k}"), B.CONFIGS["sqlite-binary"], targets=list(perm), scratch=base)
            outs.append((list(perm), B.canon_output(r)))
        texts = {f: open(os.path.join(root, f)).read() for f in files}
        shutil.rmtree(base, ignore_errors=True)
        return texts, outs
    with ThreadPoolExecutor(max_workers=4) as ex:
        res = list(ex.map(one, range(n)))
    for texts, outs in res:
        ctx.case(("perm", sorted(texts)), nontrivial=len(outs) > 1)
        ref = outs[0]
        for perm, o in outs[1:]:
            d = B.diff_outputs(o, ref[1])
            d = [x for x in d if not x.startswith("~")]       # the property compares the SET of diagnostics
            if d:
                rep = {"files": texts, "order_a": ref[0], "order_b": perm, "diff": d}
                if B.only_once_note_diff(d):
                    ctx.report({"class": "only-once-note-moves"}, "permuting the file arguments of an acyclic program moves an only_once note", rep)
                else:
                    ctx.report({"class": "file-order-dependent"}, f"permuting the file arguments of an acyclic program changes the diagnostics: {d[:2]}", rep)
                break


def permutation_corpus(ctx: Ctx) -> None:
    """Hand-kept acyclic programs (past findings) run with their recorded argument orders."""
    cdir = os.path.join(VERIF, "corpus", "c10")
    for fn in sorted(os.listdir(cdir)) if os.path.isdir(cdir) else []:
        if not fn.endswith(".json"):
            continue
        case = json.load(open(os.path.join(cdir, fn)))
        base = os.path.join(ctx.tmp, "pc-" + case["name"])
        root = os.path.join(base, "src")
        os.makedirs(root)
        for p, t in case["files"].items():
            open(os.path.join(root, p), "w").write(t)
        outs = []
        for k, order in enumerate(case["orders"]):
            r = B.run_mypy(root, os.path.join(base, f"c{k}"), ["--no-incremental"], targets=order, scratch=base)
            outs.append((order, B.canon_output(r)))
        ctx.case(("perm-corpus", case["name"]))
        ctx.dist("corpus_program", case["name"])
        for order, o in outs[1:]:
            d = [x for x in B.diff_outputs(o, outs[0][1]) if not x.startswith("~")]
            if d and not B.only_once_note_diff(d):
                ctx.report({"class": "file-order-dependent", "corpus": case["name"]},
                           f"corpus program {case['name']}: permuting the file arguments changes the diagnostics: {d[:2]}",
                           {"files": case["files"], "order_a": outs[0][0], "order_b": order, "diff": d})
                break
        shutil.rmtree(base, ignore_errors=True)


def history_search(ctx: Ctx) -> None:
    """A build preceded in the same interpreter by unrelated builds vs the same build in a fresh process."""
    n = ctx.pick(3, 10)

    def one(i):
        rng = random.Random(f"c10hist:{ctx.seed}:{i}")
        base = os.path.join(ctx.tmp, f"hi{i}")
        worlds = [B.gen_world(rng, (3, 5)) for _ in range(rng.randint(2, 4))]
        jobs = []
        # flags that only change how diagnostics are shown: the build under test and (often) the earlier ones use them
        shown = [f for f in (["--show-error-code-links"], ["--show-error-context"], ["--show-column-numbers"], ["--pretty"],
                             ["--warn-unused-ignores"], ["--show-error-end"]) if rng.random() < 0.5]
        shown = [x for f in shown for x in f]
        for k, w in enumerate(worlds):
            root = os.path.join(base, f"src{k}")
            B.materialize(w, root, 1_700_000_002)
            last = k == len(worlds) - 1
            # every build reports a missing (misspelled stdlib) import; earlier builds use other options
            with open(os.path.join(root, "zz_extra.py"), "w") as f:
                f.write("import tomlib\nimport dist_utils\nimport asyncoi\nfrom typing import Optional\ndef f(x: Optional[int]) -> int:\n    return x\n"
                        "f()\nf(1, 2)\nzz_op = 1 + ''\nzz_attr = (1).nope\nzz_idx = [1]['a']\n")
            extra = [] if last else (rng.choice([["--python-version", "3.10"], ["--python-version", "3.14"]]) if k == 0 else
                                     rng.choice([["--python-version", "3.10"], ["--python-version", "3.14"], ["--platform", "win32"],
                                                 ["--no-strict-optional"], ["--strict"], []]))
            jobs.append({"cwd": root, "args": ["--cache-dir", os.path.join(base, f"cc{k}"), "--no-error-summary", "--no-color-output",
                                               "--no-incremental"] + extra + (shown if (last or rng.random() < 0.7) else []) + ["."]})
        # the build under test is the last one; run it alone in a fresh interpreter too
        spec, outp = os.path.join(base, "jobs.json"), os.path.join(base, "out.json")
        json.dump(jobs, open(spec, "w"))
        p = subprocess.run([PY, os.path.join(HERE, "seqrun.py"), spec, outp], capture_output=True, text=True, env=repo_env(), timeout=900)
        if p.returncode != 0 or not os.path.exists(outp):
            raise ToolFailure("seqrun child failed: " + p.stderr[-1500:])
        seq = json.load(open(outp))[-1]
        json.dump(jobs[-1:], open(spec, "w"))
        p = subprocess.run([PY, os.path.join(HERE, "seqrun.py"), spec, outp], capture_output=True, text=True, env=repo_env(), timeout=900)
        fresh = json.load(open(outp))[-1]
        files = {os.path.relpath(os.path.join(dp, fn), jobs[-1]["cwd"]): open(os.path.join(dp, fn)).read()
                 for dp, _, fs in os.walk(jobs[-1]["cwd"]) for fn in fs}
        shutil.rmtree(base, ignore_errors=True)
        return len(worlds), files, seq, fresh
    with ThreadPoolExecutor(max_workers=4) as ex:
        res = list(ex.map(one, range(n)))
    for k, files, seq, fresh in res:
        ctx.case(("history", k, sorted(files)), nontrivial=k > 1)
        if (seq["stdout"], seq["status"]) != (fresh["stdout"], fresh["status"]):
            ctx.report({"class": "depends-on-earlier-builds"},
                       "a build run after unrelated builds in the same interpreter differs from the same build in a fresh process",
                       {"files": files, "after_history": seq, "fresh": fresh, "preceding_builds": k - 1})


def main(ctx: Ctx) -> None:
    ctx.coverage["rule"] = ("cases: random directed graphs (2–9 vertices; non-trivial = a cycle or ≥ 3 layers) run through the real graph algorithms under "
                            "several hash seeds and insertion orders; generated programs run under 4 hash seeds (stdout, interface hashes, data record bytes), "
                            "with permuted file arguments (acyclic programs), and after unrelated builds in one interpreter; distinct by content")
    from translate import globals_scan
    globals_scan.selftest()
    globals_scan.main()
    proved = ctx.prove("MypyVerif.Props.C10", MODEL_FILES + ["MypyVerif/Gen/Globals.lean"])
    ctx.trusted("models: Model/Graph.lean (reachability-defined SCCs, layered Kahn topsort, sorted tie-break); Tarjan's algorithm itself is not "
                "verified — its output is compared with the specification on random graphs",
                "translate/globals_scan.py (AST heuristics for process-global mutable state) + reviewed exemptions in Model/GlobalsPolicy.lean",
                "hash-seed independence of the checker's internals (set iteration inside checker.py etc.) is searched, not proved")
    graph_correspondence(ctx)
    hash_seed_search(ctx)
    corpus_hash_seed(ctx)
    permutation_corpus(ctx)
    permutation_search(ctx)
    history_search(ctx)
    if not proved and not ctx.violations:
        bad = ctx.lean_driver("Driver/C10.lean", ["?globals"])
        ctx.violation("Lean development for C10 no longer builds; process-global state without reset or exemption: " + (bad[0] if bad else "?"),
                      {"broken": "theorem GlobalsGen.reset_complete / Props/C10.lean", "rows": bad, "log": ctx.broken_ties}, found_input=False)


def replay(ctx: Ctx, path: str) -> int:
    print(open(path).read()[:4000])
    return 0
