"""Child: run the real graph_utils functions on graphs given as JSON (stdin) and print canonical results.
Vertices are strings (so that set/dict iteration depends on PYTHONHASHSEED); `order` is the insertion order."""
import json
import sys

from mypy.graph_utils import prepare_sccs, strongly_connected_components, topsort

out = []
for g in json.load(sys.stdin):
    vertices = set()
    edges = {}
    for v in g["order"]:
        vertices.add(v)
        edges[v] = []
    for a, b in g["edges"]:
        edges[a].append(b)
    sccs = [set(s) for s in strongly_connected_components(vertices, edges)]
    data = prepare_sccs(sccs, edges)
    layers = []
    for ready in topsort(data):
        layers.append(sorted("+".join(sorted(s, key=lambda x: int(x[1:]))) for s in ready))
    out.append({"sccs": sorted("+".join(sorted(s, key=lambda x: int(x[1:]))) for s in sccs), "layers": layers})
json.dump(out, sys.stdout)
