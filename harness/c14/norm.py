"""The normalisation slice: generators and the real-code side of the correspondence
(signatures, `# type: ignore[...]` tags, `# mypy:` comments, the position clamp of Errors.report)."""
from __future__ import annotations

import json
from typing import Any

NAMES = ["a", "b", "c", "d", "x", "y", "self", "cls", "other", "_", "__", "___", "__x", "__y", "__z__", "__init__",
         "_p", "__q_", "__r__s", "é", "__ü", "名", "arg1", "kw", "args", "kwargs", "__a__", "____", "__1", "x__"]
FUNC_NAMES = ["f", "g", "method", "__add__", "__radd__", "__iadd__", "__eq__", "__lt__", "__getitem__", "__setitem__",
              "__contains__", "__init__", "__call__", "__new__", "__init_subclass__", "__enter__", "__exit__",
              "__getattr__", "__neg__", "__hash__", "__foo__", "__private", "__post_init__", "__class_getitem__",
              "__mul__", "__await__", "__aenter__", "__get__", "__set_name__"]
FORMS = ["def", "async", "method", "lambda", "decorated", "nested"]


def gen_signature(rng, malformed: bool = False) -> dict:
    """A random `ast.arguments` shape.  Default expressions are the integer literals 1000+i / 2000+j."""
    pool = list(NAMES)
    rng.shuffle(pool)
    npos = rng.choice([0, 0, 0, 1, 2, 3])
    nargs = rng.choice([0, 1, 1, 2, 3, 4])
    nkw = rng.choice([0, 0, 1, 2, 3])
    take = lambda k: [pool.pop() for _ in range(k)]
    sig: dict[str, Any] = {
        "posonly": take(npos), "args": take(nargs),
        "vararg": pool.pop() if rng.random() < 0.4 else None,
        "kwonly": take(nkw), "kwarg": pool.pop() if rng.random() < 0.4 else None,
    }
    n = npos + nargs
    k = rng.choice([0, 0, 1, 2, n, rng.randint(0, n)])
    k = min(k, n)
    sig["defaults"] = [1000 + i for i in range(k)]
    sig["kwdefaults"] = [(2000 + j if rng.random() < 0.5 else None) for j in range(nkw)]
    sig["form"] = rng.choice(FORMS)
    sig["fname"] = rng.choice(FUNC_NAMES) if sig["form"] != "lambda" else "<lambda>"
    sig["annotate"] = rng.random() < 0.5 and sig["form"] != "lambda"
    sig["pos_only_special"] = True
    sig["malformed"] = None
    if malformed:
        kind = rng.choice(["dup", "dup", "default-gap", "bare-star-last", "two-star", "slash-first", "star-after-kwarg"])
        sig["malformed"] = kind
        if kind == "dup":
            allnames = sig["posonly"] + sig["args"] + ([sig["vararg"]] if sig["vararg"] else []) + sig["kwonly"] + \
                ([sig["kwarg"]] if sig["kwarg"] else [])
            if len(allnames) >= 1:
                src_name = rng.choice(allnames)
                where = rng.choice(["args", "kwonly", "kwarg", "vararg"])
                if where == "args":
                    sig["args"].append(src_name)
                    if sig["defaults"]:
                        sig["defaults"].append(1000 + len(sig["defaults"]))
                elif where == "kwonly":
                    sig["kwonly"].append(src_name); sig["kwdefaults"].append(None)
                elif where == "kwarg":
                    sig["kwarg"] = src_name
                else:
                    sig["vararg"] = src_name
            else:
                sig["args"] = ["a", "a"]
    return sig


def render_params(sig: dict) -> str:
    n = len(sig["posonly"]) + len(sig["args"])
    k = len(sig["defaults"])
    parts = []
    ann = sig["annotate"]
    for i, name in enumerate(sig["posonly"] + sig["args"]):
        p = name + (": int" if ann and name not in ("self", "cls") else "")
        if i >= n - k:
            p += (" = " if ann and name not in ("self", "cls") else "=") + str(sig["defaults"][i - (n - k)])
        parts.append(p)
        if sig["posonly"] and i == len(sig["posonly"]) - 1:
            parts.append("/")
    if sig["vararg"] is not None:
        parts.append("*" + sig["vararg"] + (": int" if ann else ""))
    elif sig["kwonly"]:
        parts.append("*")
    for name, d in zip(sig["kwonly"], sig["kwdefaults"]):
        p = name + (": int" if ann else "")
        if d is not None:
            p += (" = " if ann else "=") + str(d)
        parts.append(p)
    if sig["kwarg"] is not None:
        parts.append("**" + sig["kwarg"] + (": int" if ann else ""))
    m = sig.get("malformed")
    if m == "default-gap":
        parts = ["zz=1", "yy"] + parts
    elif m == "bare-star-last":
        parts = [p for p in parts if not p.startswith("*")] + ["*"]
    elif m == "two-star":
        parts = parts + ["*s1", "*s2"]
    elif m == "slash-first":
        parts = ["/"] + parts
    elif m == "star-after-kwarg":
        parts = parts + ["**k1", "*s1"]
    return ", ".join(parts)


def render_function(sig: dict) -> tuple[str, int]:
    """-> (source, index of the function among the FuncDef/LambdaExpr nodes to inspect)"""
    ps = render_params(sig)
    ret = " -> None" if sig["annotate"] else ""
    f = sig["form"]
    name = sig["fname"]
    if f == "def":
        return f"def {name}({ps}){ret}: pass\n", 0
    if f == "async":
        return f"async def {name}({ps}){ret}: pass\n", 0
    if f == "method":
        return f"class K:\n    def {name}({ps}){ret}:\n        pass\n", 0
    if f == "decorated":
        return f"import functools\n@functools.wraps\ndef {name}(\n    {ps}\n){ret}: pass\n", 0
    if f == "nested":
        return f"def outer():\n    def {name}({ps}){ret}: pass\n", 1
    return f"L = lambda {ps}: 0\n", 0


def model_line(sig: dict, special: bool, native: bool) -> str:
    return json.dumps(["args", sig["posonly"], sig["args"], sig["vararg"], sig["kwonly"], sig["kwdefaults"],
                       sig["kwarg"], sig["defaults"], special, native])


def _fixed(posonly=(), args=(), vararg=None, kwonly=(), kwdefaults=(), kwarg=None, defaults=(), form="def", fname="f",
           annotate=False):
    return {"posonly": list(posonly), "args": list(args), "vararg": vararg, "kwonly": list(kwonly),
            "kwdefaults": list(kwdefaults), "kwarg": kwarg, "defaults": list(defaults), "form": form, "fname": fname,
            "annotate": annotate, "pos_only_special": True, "malformed": None}


FIXED_SIGNATURES = [
    _fixed(),
    _fixed(posonly=["a", "b"], args=["c"], vararg="d", kwonly=["e", "f"], kwdefaults=[None, 2001], kwarg="g", defaults=[1000, 1001]),
    _fixed(args=["a", "b", "c"], defaults=[1000, 1001, 1002], annotate=True),
    _fixed(kwonly=["__y"], kwdefaults=[None], annotate=True),                 # the witness of not_parsers_agree_posonly
    _fixed(vararg="__a", kwarg="__k", annotate=True),
    _fixed(args=["__x", "__y__", "y"], form="method", fname="__init__"),
    _fixed(args=["self", "other"], form="method", fname="__add__", annotate=True),
    _fixed(args=["self", "other"], form="method", fname="__add__") | {"pos_only_special": False},
    _fixed(args=["a", "a"]) | {"malformed": "dup"},
    _fixed(args=["a"], kwarg="a", form="lambda", fname="<lambda>") | {"malformed": "dup"},
    _fixed(posonly=["__p"], args=["q"], defaults=[1000], form="lambda", fname="<lambda>"),
]


# ------------------------------------------------------------------------------------------------ real side
def _options(native: bool, ver=(3, 12), **kw):
    from mypy.options import Options
    o = Options()
    o.native_parser = native
    o.python_version = ver
    o.incremental = False
    for k, v in kw.items():
        setattr(o, k, v)
    return o


import contextlib
import os


@contextlib.contextmanager
def quiet_stderr():
    """fd-level: a Rust panic in the native front end writes its message to fd 2 directly."""
    import sys
    sys.stderr.flush()
    saved = os.dup(2)
    dn = os.open(os.devnull, os.O_WRONLY)
    try:
        os.dup2(dn, 2)
        yield
    finally:
        sys.stderr.flush()
        os.dup2(saved, 2)
        os.close(saved)
        os.close(dn)


def parse_file(src: str, native: bool, ver=(3, 12), **kw):
    with quiet_stderr():
        return _parse_file(src, native, ver, **kw)


def _parse_file(src: str, native: bool, ver=(3, 12), **kw):
    """-> (tree | None, messages, blocked, crash | None) via mypy.parse.parse(eager=True)"""
    from mypy import parse as mparse
    from mypy.errors import Errors
    o = _options(native, ver, **kw)
    e = Errors(o)
    e.set_file("main.py", "__main__", o)
    try:
        t = mparse.parse(src, "main.py", "__main__", e, o, eager=True)
    except BaseException as ex:  # incl. pyo3 PanicException
        if isinstance(ex, KeyboardInterrupt):
            raise
        return None, [], False, type(ex).__name__ + ": " + str(ex)[:160]
    msgs = e.new_messages() if e.is_errors() else []
    return t, msgs, e.is_blockers(), None


def funcs_of(tree) -> list:
    """FuncDef / LambdaExpr nodes in source order (pre-order)."""
    from mypy.nodes import (AssignmentStmt, ClassDef, Decorator, FuncDef, LambdaExpr, OverloadedFuncDef)
    out: list = []

    def walk(defs):
        for d in defs:
            if isinstance(d, Decorator):
                d = d.func
            if isinstance(d, OverloadedFuncDef):
                walk(d.items)
                continue
            if isinstance(d, FuncDef):
                out.append(d)
                walk(d.body.body)
            elif isinstance(d, ClassDef):
                walk(d.defs.body)
            elif isinstance(d, AssignmentStmt) and isinstance(d.rvalue, LambdaExpr):
                out.append(d.rvalue)
    walk(tree.defs)
    return out


def real_args(node) -> dict:
    from mypy.nodes import FuncDef, IntExpr
    args = []
    for a in node.arguments:
        ini = a.initializer
        args.append([a.variable.name, int(a.kind.value), bool(a.pos_only),
                     (ini.value if isinstance(ini, IntExpr) else -1) if ini is not None else None])
    names = None
    if isinstance(node, FuncDef) and node.type is not None:
        names = list(node.type.arg_names)
        kinds = [int(k.value) for k in node.type.arg_kinds]
        if kinds != [a[1] for a in args]:
            names = ["<callable kinds differ>"] + names
    # FuncItem.arg_names is computed from Argument.pos_only when the FuncDef / LambdaExpr is *constructed*
    item_names = list(getattr(node, "arg_names", None) or []) if hasattr(node, "arg_names") else None
    return {"args": args, "names": names, "item_names": item_names}


def is_special(fname: str) -> bool:
    from mypy.sharedparse import special_function_elide_names
    return special_function_elide_names(fname)


# ------------------------------------------------------------------------------------------------ tags
SP = [" ", "  ", "\t", "", "", "\x0c", "\u00a0", "\u2003", "\u3000", "\x1f"]
CODE = ["a", "attr-defined", "misc", "arg-type", "x y", "a-b", "", " ", "é", "no_untyped_def", "1", "a.b", "*"]


FIXED_TAGS = [None, "", " ", "[a]", " [a, b]", "[a,b] # c", "[ a ,, b ] #", "# x", " # type: ignore[x]", "#[a]", "[", "[a", "a]", "]",
              "[a]]", "[[a]]", "[a][b]", "[a] b", "[a#b]", "[#]", "[]", "[,]", "[a],", "-[a]", "(a)", " x", "[a]\n", "[a]#c\n",
              "[a]#c\nd", "[a]\n\n", "\n[a]", "[a\n]", "\u00a0[a]\u3000", "[\u2003a\x1f,b]", "_x", ";", "[a] [b] # c"]


def gen_tag(rng, for_comment: bool, ascii_only: bool = False) -> str | None:
    """A `# type: ignore` tag: mostly the documented grammar, plus a malformed stream.
    for_comment: the tag must survive CPython's tokenizer as the tail of one physical line (no newline, and
    the first character must not continue the word `ignore`)."""
    r = rng.random()
    spaces = [x for x in SP if all(ord(ch) < 128 and ch not in "\x0c\x1f" for ch in x)] if ascii_only else SP
    sp = lambda: rng.choice(spaces)
    if r < 0.08 and not for_comment:
        return None
    if r < 0.16:
        return rng.choice(["", " ", "  \t"] + ([] if ascii_only else ["\u00a0"]))
    if r < 0.24:
        return sp() + "#" + rng.choice(["", " comment", " type: ignore[x]", "[a]"])
    if r < 0.74:
        n = rng.choice([0, 1, 1, 1, 2, 3])
        body = ",".join(sp() + rng.choice(CODE) + sp() for _ in range(n))
        tail = rng.choice(["", "", sp(), sp() + "#", sp() + "# why", sp() + "# [x]", sp() + "#]"])
        return sp() + "[" + body + "]" + tail
    # malformed stream
    bad = rng.choice(["[", "[a", "[a]]", "[a] b", "a]", "[a]#\nb", "[a]\n", "[a] \n", "[a]#x\n", "[a]\n\n", "[[a]]",
                      "[a#b]", "[a][b]", "[a],", "x", "[a] [b] # c", "]", "[#]", "[]", "[,]", "[ , a,, ]", "[a\n]",
                      "\n[a]", "[a] # x\n# y", "-[a]", "[a]\x0c", "(a)", "[a]\u00a0#"])
    if for_comment:
        bad = bad.replace("\n", " ")
        if bad[:1].isalnum() or bad[:1] == "_" or (bad[:1] and ord(bad[0]) >= 128):
            bad = " " + bad
    if ascii_only:
        bad = "".join(ch if ord(ch) < 128 and ch not in "\x0c\x1f" else " " for ch in bad)
    return bad


def real_tag(tag: str | None):
    from mypy.fastparse import parse_type_ignore_tag
    return parse_type_ignore_tag(tag)


def real_comment_ignores(tag: str, native: bool, prefix: str = "x = 1 # type: ignore"):
    """Parse `x = 1 # type: ignore<tag>` -> (ignored_lines, messages, blocked, crash)"""
    src = prefix + tag + "\n"
    t, msgs, blocked, crash = parse_file(src, native)
    if t is None:
        return None, msgs, blocked, crash
    return {int(k): list(v) for k, v in t.ignored_lines.items()}, msgs, blocked, crash


# ------------------------------------------------------------------------------------------------ # mypy:
CFG_LINES = ["# mypy: disallow-untyped-defs", "# mypy: ", "# mypy:", "#mypy: x", " # mypy: indented", "# mypy: a, b=c",
             "x = 1  # mypy: trailing", "# mypy:  two-spaces", "# Mypy: no", "# mypy: é", "", "x = 1", "'''", "# mypy: in-string?",
             "# mypy: no-warn-no-return", "def f(): pass", "\t# mypy: tab", "# mypy: ignore-errors", "#  mypy: x",
             "# mypy: strict-optional # c", "if 1:", "    # mypy: deep", "# type: ignore", "# mypy: \\"]


FIXED_CFG = ["", "# mypy: a", "# mypy: a\n", "x\n# mypy: b\n# mypy: c", "# mypy:", "# mypy: ", " # mypy: a", "#mypy: a",
             "# mypy: a\n\n\n# mypy: b", "\x27\x27\x27\n# mypy: in-string\n\x27\x27\x27\n", "x = 1  # mypy: trailing\n"]


def gen_cfg_source(rng) -> str:
    n = rng.randint(0, 7)
    lines = [rng.choice(CFG_LINES) for _ in range(n)]
    s = "\n".join(lines)
    if rng.random() < 0.7:
        s += "\n"
    return s


def real_cfg(source: str):
    from mypy.util import get_mypy_comments
    return [[int(a), b] for a, b in get_mypy_comments(source)]


def native_cfg(source: str):
    """mypy_comments as collected by the native front end (FileRawData.mypy_comments)"""
    from mypy.nativeparse import native_parse
    o = _options(True)
    try:
        with quiet_stderr():
            tree, _, _ = native_parse("main.py", o, source)
    except BaseException as ex:
        if isinstance(ex, KeyboardInterrupt):
            raise
        return "crash: " + type(ex).__name__
    return [[int(a), b] for a, b in tree.raw_data.mypy_comments]


# ------------------------------------------------------------------------------------------------ clamp
def real_clamp(line, col, el, ecol):
    from mypy.errors import Errors
    from mypy.options import Options
    o = Options()
    e = Errors(o)
    e.set_file("m.py", "m", o)
    info = e.report(line, col, "msg", end_line=el, end_column=ecol)
    return [info.line, info.column, info.end_line, info.end_column]
