"""C14 — both parsers mean the same thing and report valid positions.

Level: **partial** (by design, DESIGN.md §4 C14).
1. Lean (Props/C14): the position clamp of `Errors.report` (end ≥ start for *every* call), and the
   normalisation slice both front ends must implement — parameter lists (`transform_args`), `pos_only`,
   special methods, `arg_names`, `check_param_names`, the `# type: ignore[...]` tag grammar, `# mypy:` comments.
2. Tie (correspondence, every run): generated signatures / tags / comment blocks / clamp arguments go through
   the model driver *and* through the real code — `mypy.fastparse` (default front end) and
   `mypy.nativeparse` over `ast_serialize` (native front end), each compared with the model, so the two agree
   with each other on the slice by transitivity (where they do not, the model says exactly how: see
   `parsers_agree_iff`).
3. Search (differential, **testing** — not proof): corpus programs (test-data/unit/check-*.test without type
   comments), generated programs, and their single-token corruptions, target versions 3.9–3.14: diagnostics with
   `--show-column-numbers --show-error-end` under both front ends must be equal, blocking status equal, every
   position inside the source text.  The default front end is the executable reference; the oracle is the
   diagnostics, never an AST dump.
"""
from __future__ import annotations

import json
import os
import sys
import time

from harness.vlib.core import Ctx, ToolFailure

from . import classify, corpus, diffwork, families, gen, norm, pool

MODEL_FILES = ["MypyVerif/Model/ParseNorm.lean", "MypyVerif/Model/ErrPos.lean", "MypyVerif/Proofs/ParseNorm.lean"]
DRIVER = "Driver/C14.lean"
VERSIONS = [(3, 9), (3, 10), (3, 11), (3, 12), (3, 13), (3, 14)]


def model(ctx: Ctx, lines: list[str]) -> list:
    if not lines:
        return []
    out = ctx.lean_driver(DRIVER, lines)
    if len(out) != len(lines):
        raise ToolFailure("driver returned %d lines for %d cases" % (len(out), len(lines)))
    res = []
    for l in out:
        if l.startswith("bad-json") or l == '"bad-op"':
            raise ToolFailure("driver rejected a line: " + l)
        res.append(json.loads(l))
    return res


# ================================================================================ (a) the position clamp
def tie_clamp(ctx: Ctx) -> None:
    rng = ctx.rng
    vals = [None, -1, 0, 1, 2, 5, 80]
    cases = []
    for line in (1, 3, 7):
        for c in vals:
            for el in (None, 0, 1, 2, 3, 4, 7, 9):
                for ec in vals:
                    cases.append([line, c, el, ec])
    for _ in range(ctx.pick(300, 3000)):
        cases.append([rng.randint(-1, 50), rng.choice([None, rng.randint(-1, 120)]),
                      rng.choice([None, rng.randint(-2, 60)]), rng.choice([None, rng.randint(-2, 130)])])
    mod = model(ctx, [json.dumps(["pos"] + c) for c in cases])
    bad = None
    for c, m in zip(cases, mod):
        real = norm.real_clamp(*c)
        ctx.case(("pos", c), nontrivial=c[2] is not None or c[3] is not None)
        ctx.dist("clamp_args", "end_line<line" if (c[2] is not None and c[2] < c[0]) else
                 "end_col<=col" if (c[1] is not None and c[3] is not None and c[3] <= c[1]) else "none" if c[3] is None else "ok")
        ctx.count("traces_validated_against_impl")
        if real != m and bad is None:
            bad = (c, real, m)
    if bad:
        c, real, m = bad
        ctx.count("disagreements_checked")
        # search: the property's own clause on the real function
        line, col, el, ec = real
        if el < line or (el == line and col >= 0 and ec <= col):
            ctx.report({"class": "reported-end-before-start", "where": "Errors.report"},
                       "Errors.report%r stored line=%s column=%s end_line=%s end_column=%s: the end precedes the start"
                       % (tuple(c), line, col, el, ec), {"clamp_args": c, "impl": real, "model": m})
        else:
            ctx.violation("position clamp correspondence broken (ErrPos.clamp ≠ Errors.report) for %r: impl %r, model %r; "
                          "the stored span is still ordered" % (c, real, m),
                          {"broken": "correspondence Driver/C14 `pos` vs mypy.errors.Errors.report (theorems "
                                     "ParseNorm.report_end_ge_start / report_same_line_end_col no longer speak about the code)",
                           "clamp_args": c, "impl": real, "model": m}, found_input=False)


# ================================================================================ (b) signatures
def _fmt_args(a):
    return [[x[0], x[1], bool(x[2]), x[3]] for x in a]


def tie_signatures(ctx: Ctx) -> None:
    rng = ctx.rng
    n = ctx.pick(500, 4000)
    sigs = []
    for i in range(n):
        s = norm.gen_signature(rng, malformed=(i % 6 == 5))
        if i % 11 == 7:
            s["pos_only_special"] = False
        sigs.append(s)
    # fixed shapes that must always be exercised
    for fixed in norm.FIXED_SIGNATURES:
        sigs.append(dict(fixed))
    lines = []
    for s in sigs:
        special = norm.is_special(s["fname"])
        lines.append(norm.model_line(s, special and s["pos_only_special"], False))
        lines.append(norm.model_line(s, special, True))
    mod = model(ctx, lines)
    kinds = model(ctx, [json.dumps(["kind", i]) for i in range(8)])
    from mypy.nodes import ARG_KINDS
    for i, k in enumerate(kinds):
        real = int(ARG_KINDS[i].value) if i < len(ARG_KINDS) else None
        ctx.case(("kind", i))
        if real != k:
            ctx.violation("ARG_KINDS[%d] is %r, the model's table says %r" % (i, real, k),
                          {"broken": "correspondence Driver/C14 `kind` vs mypy.nodes.ARG_KINDS (theorem kind_index_roundtrip)",
                           "index": i}, found_input=False)
    reported: set[str] = set()
    for idx, s in enumerate(sigs):
        m_def, m_nat = mod[2 * idx], mod[2 * idx + 1]
        src, fidx = norm.render_function(s)
        ctx.case(("sig", src, s["pos_only_special"]))
        ctx.dist("signature_form", s["form"])
        ctx.dist("signature_stream", s["malformed"] or "well-formed")
        ctx.dist("signature_special_method", str(norm.is_special(s["fname"])))
        ctx.sample({"signature": src, "model_default": m_def["args"], "model_native": m_nat["args"]}, limit=2)
        obs = {}
        for native in (False, True):
            flags = {} if s["pos_only_special"] else {"pos_only_special_methods": False}
            tree, msgs, blocked, crash = norm.parse_file(src, native, **flags)
            if crash:
                obs[native] = ("crash", crash)
            elif blocked:
                obs[native] = ("blocked", msgs)
            else:
                fs = norm.funcs_of(tree)
                if fidx >= len(fs):
                    obs[native] = ("nofunc", msgs)
                else:
                    obs[native] = ("ok", norm.real_args(fs[fidx]), msgs)
            ctx.count("traces_validated_against_impl")
        classify.signature_case(ctx, s, src, m_def, m_nat, obs, reported)


# ================================================================================ (c) type: ignore tags
def tie_tags(ctx: Ctx) -> None:
    rng = ctx.rng
    # function level: parse_type_ignore_tag itself, incl. newlines and exotic white space
    tags = [norm.gen_tag(rng, False) for _ in range(ctx.pick(1500, 12000))] + list(norm.FIXED_TAGS)
    mod = model(ctx, [json.dumps(["tag", t]) for t in tags])
    bad = None
    for t, m in zip(tags, mod):
        real = norm.real_tag(t)
        ctx.case(("tag", t), nontrivial=bool(t))
        ctx.dist("tag_function_level", "invalid" if m is None else "bare" if m == [] else "codes")
        ctx.count("traces_validated_against_impl")
        if real != m and bad is None:
            bad = (t, real, m)
    if bad:
        classify.tag_function_diff(ctx, *bad)
    # white space table (str.isspace == \s) against the model's isSpace
    import re
    sp = [i for i in range(0x110000) if chr(i).isspace()]
    probe = sorted(set(sp + [i + 1 for i in sp] + [i - 1 for i in sp if i > 0] + list(range(0, 300)) +
                       [rng.randrange(0x110000) for _ in range(200)]))
    probe = [i for i in probe if not 0xD800 <= i <= 0xDFFF]
    msp = model(ctx, [json.dumps(["space", probe])])[0]
    for i, b in zip(probe, msp):
        ctx.case(("space", i), nontrivial=b)
        real = chr(i).isspace()
        if real != b or bool(re.match(r"\s", chr(i))) != b:
            ctx.violation("white-space table: U+%04X is %s for Python, %s in the model" % (i, real, b),
                          {"broken": "correspondence Driver/C14 `space` vs str.isspace / re \\s", "codepoint": i},
                          found_input=False)
            break
    # end to end: `x = 1 # type: ignore<tag>` through each front end
    tags = [norm.gen_tag(rng, True, ascii_only=True) for _ in range(ctx.pick(500, 4000))] + \
        [t for t in norm.FIXED_TAGS if t is not None and "\n" not in t and all(ord(ch) < 128 for ch in t)
         and not t[:1].isalnum() and t[:1] != "_"]
    mod = model(ctx, [json.dumps(["tag", t]) for t in tags])
    reported: set[str] = set()
    for t, m in zip(tags, mod):
        ctx.case(("tag-e2e", t))
        obs = {}
        for native in (False, True):
            obs[native] = norm.real_comment_ignores(t, native)
            ctx.count("traces_validated_against_impl")
        ctx.dist("tag_end_to_end", "invalid" if m is None else "bare" if m == [] else "codes")
        classify.tag_e2e_case(ctx, t, m, obs, reported)


# ================================================================================ (d) `# mypy:` comments
def tie_cfg(ctx: Ctx) -> None:
    rng = ctx.rng
    srcs = [norm.gen_cfg_source(rng) for _ in range(ctx.pick(400, 3000))] + list(norm.FIXED_CFG)
    mod = model(ctx, [json.dumps(["cfg", s]) for s in srcs])
    reported: set[str] = set()
    for s, m in zip(srcs, mod):
        ctx.case(("cfg", s), nontrivial="# mypy:" in s)
        ctx.dist("inline_config_comments", str(min(len(m), 4)))
        real = norm.real_cfg(s)
        nat = norm.native_cfg(s)
        ctx.count("traces_validated_against_impl", 2)
        classify.cfg_case(ctx, s, m, real, nat, reported)


# ================================================================================ (d') module-level ignore
def tie_module_ignore(ctx: Ctx) -> None:
    """The rule of translate_stmt_list (a `# type: ignore` before the first statement — decorator-aware — ignores
    the module): model vs both front ends on the type-ignore placement family."""
    rng = ctx.rng
    cases = []
    for i in range(ctx.pick(250, 2500)):
        src, desc = families.gen_ignore_placement(rng, invalid_tags=(i % 5 == 4))
        inp = families.module_ignore_input(src)
        if inp is not None:
            cases.append((src, desc, inp))
    for src in families.FIXED_PLACEMENT:
        cases.append((src, {"kind": "fixed"}, families.module_ignore_input(src)))
    lines = [json.dumps(["modign", inp[0], inp[1][0] if inp[1] else None, inp[1][1] if inp[1] else None]) for _, _, inp in cases]
    mod = model(ctx, lines)
    reported: set[str] = set()
    for (src, desc, inp), m in zip(cases, mod):
        ctx.case(("modign", src), nontrivial=bool(inp[0]))
        ctx.dist("ignore_placement_first_statement", desc.get("kind", "?"))
        ctx.dist("ignore_placement_model", "whole-module" if m["whole"] else "line-level" if m["ignores"] else "none")
        obs = {native: families.real_module_ignore(src, native) for native in (False, True)}
        ctx.count("traces_validated_against_impl", 2)
        classify.module_ignore_case(ctx, src, desc, m, obs, reported)


# ================================================================================ (d'') skipped lines
def tie_skipped(ctx: Ctx) -> None:
    """Lines of statically unreachable blocks: the model's inclusive range [line, end_line] vs the default front end's
    `skipped_lines` (SemanticAnalyzerPreAnalysis.visit_block), and vs the native front end, which delivers no
    `ignored_lines` entry on such lines (ignored − skipped must be the same set for both)."""
    rng = ctx.rng
    cases = []
    for _ in range(ctx.pick(120, 1500)):
        ver = rng.choice(VERSIONS)
        src, desc = families.gen_static_reachability(rng, ver)
        o = families.real_skipped(src, ver)
        if o is not None:
            cases.append((src, ver, o))
    mod = model(ctx, [json.dumps(["skip", o["blocks"]]) for _, _, o in cases])
    reported = False
    for (src, ver, o), m in zip(cases, mod):
        want = sorted(set(m))
        ctx.case(("skip", src, ver), nontrivial=bool(o["blocks"]))
        ctx.dist("unreachable_blocks_per_program", str(min(len(o["blocks"]), 6)))
        ctx.count("traces_validated_against_impl", 2)
        eff_d = [l for l in o["ignored"] if l not in o["skipped"]]
        eff_n = None if o["native_ignored"] is None else [l for l in o["native_ignored"] if l not in o["native_skipped"]]
        if o["skipped"] == want and eff_n == [l for l in o["ignored"] if l not in want]:
            continue
        ctx.count("disagreements_checked")
        if reported:
            continue
        reported = True
        detail = {"source": src, "version": list(ver), "flags": {"warn_unused_ignores": True}, "observed": o, "model_skipped": want}
        # search: the property's oracle — diagnostics of the two front ends with --warn-unused-ignores
        d, n = classify._diag_pair(ctx, src, {"warn_unused_ignores": True}, ver)
        if d != n:
            od = [x for x in d[1] if x not in n[1]]
            on = [x for x in n[1] if x not in d[1]]
            ctx.report({"class": "skipped-lines-of-unreachable-block-differ-between-front-ends"},
                       "unreachable blocks %r: the default front end skips lines %r (the rule: every line of [line, end_line], %r), its "
                       "effective ignores are %r, the native front end's %r; diagnostics differ: only default %r, only native %r"
                       % (o["blocks"], o["skipped"], want, eff_d, eff_n, od[:3], on[:3]), detail)
        else:
            ctx.violation("skipped-lines correspondence broken for blocks %r: default skipped %r, model %r, effective ignores default %r native %r"
                          % (o["blocks"], o["skipped"], want, eff_d, eff_n),
                          {"broken": "correspondence Driver/C14 `skip` vs semanal_pass1.SemanticAnalyzerPreAnalysis.visit_block "
                                     "(theorem skipped_lines_inclusive)", **detail}, found_input=False)


# ================================================================================ (e) the differential search
POOL_SLICES = 8
POOL_TAG = "C14-fixed-pool-v1"      # corpus / generated part; changing the generator, the corruptor or this tag changes the pool: re-verify every slice
FAMILY_TAG = "C14-fixed-pool-v2"    # the targeted families (type-ignore placement, elided parameter names) added in v2
REACH_TAG = "C14-fixed-pool-v3"     # the static-reachability family added in v3
POOL_VERSION = "v3"


def programs(ctx: Ctx):
    """(key, source, version, origin) tasks.

    quick: a FIXED pool (corpus order, target versions, corruptions and generated programs all derived from
    POOL_TAG, never from VERIF_SEED), cut into POOL_SLICES slices; the run takes slice VERIF_SEED % POOL_SLICES.
    Every slice has been verified on the unchanged tree (all differences classified), so the quick differential
    cannot wander into the unclassified long tail of the two front ends' differences; VERIF_SEED still drives
    the correspondence streams.  thorough (or VERIF_C14_EXPLORE=1): seed-driven exploration — a new class of
    difference found there is a genuine finding.
    """
    import random
    explore = (not ctx.quick()) or bool(os.environ.get("VERIF_C14_EXPLORE"))
    cases = corpus.corpus_cases()
    if not cases:
        raise ToolFailure("no corpus cases found under test-data/unit")
    tasks = []
    skip = gen.PREAMBLE.count("\n")
    if explore:
        rng = ctx.rng
        rng.shuffle(cases)
        n_corpus = ctx.pick(150, len(cases))
        n_gen = ctx.pick(45, 800)
        k_corrupt = ctx.pick(2, 1)
        for name, src in cases[:n_corpus]:
            vers = [rng.choice(VERSIONS)] if ctx.quick() else rng.sample(VERSIONS, 2)
            for ver in vers:
                tasks.append(((name, "base", ver), src, ver, "corpus"))
            ver = rng.choice(vers)
            for kind, new in corpus.corrupt(src, rng, k_corrupt):
                tasks.append(((name, kind, ver), new, ver, "corpus-corrupted"))
        for i in range(n_gen):
            ver = rng.choice(VERSIONS)
            src, feats = gen.gen_program(rng, ver)
            for f in feats:
                ctx.dist("generated_features", f)
            tasks.append((("gen-%d" % i, "base", ver), src, ver, "generated"))
            for kind, new in corpus.corrupt(src, rng, 2, skip_lines=skip):
                tasks.append((("gen-%d" % i, kind, ver), new, ver, "generated-corrupted"))
        ctx.coverage["differential_pool"] = "seed-driven exploration"
    else:
        sl = ctx.seed % POOL_SLICES
        random.Random(POOL_TAG).shuffle(cases)
        n_corpus, n_gen = 150, 45
        for name, src in cases[sl * n_corpus:(sl + 1) * n_corpus]:
            r = random.Random("%s:%s" % (POOL_TAG, name))
            ver = r.choice(VERSIONS)
            tasks.append(((name, "base", ver), src, ver, "corpus"))
            for kind, new in corpus.corrupt(src, r, 2):
                tasks.append(((name, kind, ver), new, ver, "corpus-corrupted"))
        for i in range(n_gen):
            r = random.Random("%s:gen:%d:%d" % (POOL_TAG, sl, i))
            ver = r.choice(VERSIONS)
            src, feats = gen.gen_program(r, ver)
            for f in feats:
                ctx.dist("generated_features", f)
            tasks.append((("gen-%d-%d" % (sl, i), "base", ver), src, ver, "generated"))
            for kind, new in corpus.corrupt(src, r, 2, skip_lines=skip):
                tasks.append((("gen-%d-%d" % (sl, i), kind, ver), new, ver, "generated-corrupted"))
        ctx.coverage["differential_pool"] = "fixed pool %s (corpus/generated part: %s; families: %s), slice %d of %d (VERIF_SEED %% %d)" \
            % (POOL_VERSION, POOL_TAG, FAMILY_TAG + " + " + REACH_TAG, sl, POOL_SLICES, POOL_SLICES)
    # the two targeted families (valid programs; fixed per slice in the quick tier, seed-driven otherwise)
    import random as _random
    n_fam = (14, 10) if not explore else ctx.pick((14, 10), (400, 300))
    for i in range(26 if (not explore or ctx.quick()) else 600):
        r = ctx.rng if explore else _random.Random("%s:reach:%d:%d" % (REACH_TAG, ctx.seed % POOL_SLICES, i))
        ver = r.choice(VERSIONS)
        src, desc = families.gen_static_reachability(r, ver)
        for pos in desc["positions"]:
            ctx.dist("family_static_reachability_position", pos)
        tasks.append((("reach-%d" % i, "family", ver), src, ver, "family:static-reachability"))
    for i in range(n_fam[0]):
        r = ctx.rng if explore else _random.Random("%s:placement:%d:%d" % (FAMILY_TAG, ctx.seed % POOL_SLICES, i))
        ver = r.choice(VERSIONS)
        src, desc = families.gen_ignore_placement(r)
        ctx.dist("family_ignore_placement", desc["kind"])
        tasks.append((("placement-%d" % i, "family", ver), src, ver, "family:type-ignore-placement"))
    for i in range(n_fam[1]):
        r = ctx.rng if explore else _random.Random("%s:elided:%d:%d" % (FAMILY_TAG, ctx.seed % POOL_SLICES, i))
        ver = r.choice(VERSIONS)
        src, desc = families.gen_elided_names(r)
        for u in desc["uses"]:
            ctx.dist("family_elided_names_use", u)
        tasks.append((("elided-%d" % i, "family", ver), src, ver, "family:elided-parameter-names"))
    for name, src, vers in classify.PROBES:
        for ver in vers:
            tasks.append(((name, "probe", ver), src, ver, "probe"))
    return tasks


def warm_caches(ctx: Ctx) -> str:
    """One incremental cache per (front end, target version) with typeshed's core in it; copied per worker."""
    base = os.path.join(ctx.tmp, "cache")
    os.makedirs(base, exist_ok=True)
    t0 = time.time()
    warm = pool.run_tasks("warm", [(base, n, v) for n in (False, True) for v in VERSIONS], base, chunk=1)
    for native, ver, st, msgs in warm:
        if st != "ok" or msgs:
            raise ToolFailure("could not warm the cache for %s %s: %s %s" % ("native" if native else "default", ver, st, msgs[:3]))
    ctx.coverage["warm_s"] = round(time.time() - t0, 1)
    return base


def differential(ctx: Ctx, base: str) -> None:
    t0 = time.time()
    tasks = programs(ctx)
    work = [(i, src, ver, None) for i, (key, src, ver, origin) in enumerate(tasks)]
    res = pool.run_tasks("run_pair", work, base, died=lambda t: (t[0], ("died", []), ("died", [])))
    st = classify.Stats()
    for (key, src, ver, origin), (i, d, n) in zip(tasks, res):
        ctx.case(("prog", src, ver), nontrivial=True)
        ctx.dist("program_origin", origin)
        ctx.dist("target_version", "%d.%d" % tuple(ver))
        ctx.dist("corruption", key[1])
        ctx.count("traces_validated_against_impl")
        classify.program_case(ctx, st, key, src, tuple(ver), origin, d, n)
    st.finish(ctx)
    nskip = sum(st.skipped.values())
    if nskip > max(5, len(tasks) // 20):
        raise ToolFailure("too many programs could not be compared (timeouts / dead workers): %r" % dict(st.skipped))
    ctx.coverage["differential_s"] = round(time.time() - t0, 1)


def main(ctx: Ctx) -> None:
    ctx.level = "partial"
    ctx.coverage["rule"] = (
        "tie: generated signatures (6 syntactic forms, special methods, __x names, a malformed stream), `type: ignore` tags "
        "(function level incl. newlines / exotic white space; end to end through both front ends), `# mypy:` comment blocks, "
        "clamp argument grid — a case is non-trivial when it exercises the normalisation (distinct by content). "
        "search: corpus programs + generated programs + single-token corruptions × target versions, both front ends; "
        "a program is one case per (source, version).")
    proved = ctx.prove("MypyVerif.Props.C14", MODEL_FILES)
    ctx.trusted(
        "PARTIAL BY DESIGN: Lean proves only the position clamp of Errors.report and the normalisation slice "
        "(parameter lists, pos_only, arg_names, duplicate check, `type: ignore` tag grammar, `# mypy:` collection); "
        "parser equivalence on whole programs and 'position inside the file' are SEARCHED (differential testing with the "
        "default front end as executable reference), not proved — there is no model of Python's grammar",
        "models: fastparse.ASTConverter.transform_args/make_argument/do_func_def (argument part), sharedparse.argument_elide_name, "
        "nodes.check_param_names, nodes.ARG_KINDS, fastparse.parse_type_ignore_tag, util.get_mypy_comments, errors.Errors.report (clamp)",
        "the native front end's writer (ast_serialize, Rust) is outside /repo: its behaviour on the slice is *observed* through "
        "mypy.nativeparse and compared with the model (transformArgsNative is the observed variant)",
        "CPython's ast / tokenizer (which comments are `type: ignore` comments, what `ast.arguments` looks like: Arguments.WF)",
        "correspondence + differential harness harness/c14 (in-process mypy.parse.parse / mypy.build.build)")
    ctx.assume("ast.arguments nodes satisfy len(defaults) ≤ len(posonlyargs)+len(args) and len(kw_defaults) = len(kwonlyargs) (Arguments.WF)",
               "the differential compares a (program, version) pair only through printed diagnostics and blocking status; "
               "for two blocked runs only the status is compared (the two front ends word syntax errors differently)",
               "columns are compared with the line length in UTF-8 bytes or characters, whichever is larger (the property does not fix the unit)")
    base = warm_caches(ctx)
    tie_clamp(ctx)
    tie_signatures(ctx)
    tie_tags(ctx)
    tie_cfg(ctx)
    tie_module_ignore(ctx)
    tie_skipped(ctx)
    differential(ctx, base)
    if not proved and not ctx.violations:
        ctx.violation("Lean development for C14 no longer builds", {"broken": ctx.broken_ties}, found_input=False)


def replay(ctx: Ctx, path: str) -> int:
    body = json.load(open(path))
    det = body["replay"].get("detail", body["replay"])
    if "source" in det and "version" in det:
        base = os.path.join(ctx.tmp, "cache")
        os.makedirs(base, exist_ok=True)
        diffwork.init_worker(base)
        ver = tuple(det["version"])
        for native in (False, True):
            with norm.quiet_stderr():
                st, msgs = diffwork.build_one(det["source"], native, ver, os.path.join(base, diffwork.cfg_name(native, ver)), det.get("flags"))
            print("native" if native else "default", st)
            for m in msgs:
                print("   ", m)
    elif "signature_source" in det:
        for native in (False, True):
            tree, msgs, blocked, crash = norm.parse_file(det["signature_source"], native, **det.get("flags", {}))
            print("native" if native else "default", "blocked" if blocked else crash or "ok", msgs)
            if tree is not None and not blocked:
                for f in norm.funcs_of(tree):
                    print("   ", norm.real_args(f))
    elif "tag" in det:
        print("parse_type_ignore_tag ->", norm.real_tag(det["tag"]))
        for native in (False, True):
            print("native" if native else "default", norm.real_comment_ignores(det["tag"], native))
    elif "placement_source" in det:
        print("model input (host ast):", families.module_ignore_input(det["placement_source"]))
        for native in (False, True):
            print("native" if native else "default", families.real_module_ignore(det["placement_source"], native))
    elif "cfg_source" in det:
        print("get_mypy_comments ->", norm.real_cfg(det["cfg_source"]), " native ->", norm.native_cfg(det["cfg_source"]))
    elif "clamp_args" in det:
        print("Errors.report ->", norm.real_clamp(*det["clamp_args"]))
    else:
        print(json.dumps(det, indent=1))
    return 0
