"""Worker side of the C14 differential: one program, one target version, both parsers, in-process builds.

Runs inside a pool of forked processes.  Every (parser, version) configuration has its own incremental cache
(typeshed is parsed once per configuration in `warm`, the warmed directory is copied per worker so that no two
processes ever write the same cache directory).  The program itself is a text source and is never cached.
"""
from __future__ import annotations

import os
import shutil
import signal
import sys

_STATE: dict = {"base": None, "copied": set()}
WARM_SRC = ("import typing, collections, abc, enum, dataclasses, types, functools, contextlib, os, sys, re\n"
            "import typing_extensions, mypy_extensions, collections.abc, itertools, operator, io, builtins\n")
TIMEOUT_S = 120          # one program, one front end (a cold import of a big stdlib package on a loaded machine is slow)
WARM_TIMEOUT_S = 900


class _Timeout(BaseException):
    pass


def _alarm(signum, frame):
    raise _Timeout()


def cfg_name(native: bool, ver: tuple[int, int]) -> str:
    return "%s_%d_%d" % ("nat" if native else "def", ver[0], ver[1])


def build_one(src: str, native: bool, ver: tuple[int, int], cache_dir: str, flags: dict | None = None,
              timeout: int = TIMEOUT_S):
    """-> (status, messages).  status: ok | blocker | crash | timeout"""
    from mypy import build
    from mypy.errors import CompileError
    from mypy.modulefinder import BuildSource
    from mypy.options import Options

    o = Options()
    o.native_parser = native
    o.incremental = True
    o.cache_dir = cache_dir
    o.show_column_numbers = True
    o.show_error_end = True
    o.python_version = tuple(ver)
    o.show_traceback = True
    o.error_summary = False
    no_dedup = False
    for k, v in (flags or {}).items():
        if k == "__no_dedup__":
            no_dedup = bool(v)
        else:
            setattr(o, k, v)
    import mypy.errors as _errors
    saved_dedup = _errors.Errors.remove_duplicates
    if no_dedup:
        # observation below Errors.remove_duplicates (used only to attribute a difference, never as the oracle)
        _errors.Errors.remove_duplicates = lambda self, errors: errors  # type: ignore[method-assign]
    msgs: list[str] = []
    old = signal.signal(signal.SIGALRM, _alarm)
    signal.alarm(timeout)
    try:
        try:
            build.build([BuildSource("main.py", "__main__", src)], o,
                        flush_errors=lambda f, m, s: msgs.extend(m))
            return ("ok", msgs)
        except CompileError as e:
            return ("blocker", msgs or list(e.messages))
        except _Timeout:
            return ("timeout", [])
        except RecursionError:
            return ("crash", ["RecursionError"])
        except Exception as e:  # an internal error is C20's subject; here the case is skipped and counted
            return ("crash", [type(e).__name__ + ": " + str(e)[:200]])
        except SystemExit as e:
            return ("crash", ["SystemExit %r" % (e.code,)])
        except BaseException as e:  # pyo3_runtime.PanicException (a Rust panic in ast_serialize) is a BaseException
            if isinstance(e, KeyboardInterrupt):
                raise
            return ("crash", [type(e).__name__ + ": " + str(e)[:200]])
    finally:
        signal.alarm(0)
        signal.signal(signal.SIGALRM, old)
        _errors.Errors.remove_duplicates = saved_dedup  # type: ignore[method-assign]


def warm(args):
    base, native, ver = args
    d = os.path.join(base, "master", cfg_name(native, ver))
    os.makedirs(d, exist_ok=True)
    st, msgs = build_one(WARM_SRC, native, ver, d, timeout=WARM_TIMEOUT_S)
    return (native, ver, st, msgs)


def init_worker(base: str) -> None:
    _STATE["base"] = base
    _STATE["copied"] = set()
    sys.setrecursionlimit(max(sys.getrecursionlimit(), 3000))


def _cache_for(native: bool, ver: tuple[int, int]) -> str:
    base = _STATE["base"]
    name = cfg_name(native, ver)
    mine = os.path.join(base, "w%d" % os.getpid(), name)
    if name not in _STATE["copied"]:
        master = os.path.join(base, "master", name)
        if os.path.isdir(master) and not os.path.isdir(mine):
            shutil.copytree(master, mine)
        else:
            os.makedirs(mine, exist_ok=True)
        _STATE["copied"].add(name)
    return mine


def run_pair(task):
    """task = (key, src, ver, flags) -> (key, default_result, native_result)"""
    key, src, ver, flags = task
    ver = tuple(ver)
    d = build_one(src, False, ver, _cache_for(False, ver), flags)
    n = build_one(src, True, ver, _cache_for(True, ver), flags)
    return (key, d, n)


def run_single(task):
    """task = (key, src, ver, native, flags) -> (key, result)"""
    key, src, ver, native, flags = task
    ver = tuple(ver)
    return (key, build_one(src, native, ver, _cache_for(native, ver), flags))
