"""Two targeted program families for the C14 differential (both in the fixed pool and in the exploration).

* type-ignore placement — a `# type: ignore` / `# type: ignore[code]` comment on every physical line of the FIRST
  statement of a module (and just before / after it), for each statement kind, with diagnostics elsewhere in the
  file: the module-level-ignore rule (`translate_stmt_list` / `get_lineno`: a decorated definition starts at its
  first decorator) decides whether *everything* vanishes.
* elided parameter names — special methods whose parameter names are elided (`special_function_elide_names`)
  used where the names are observable: explicit keyword calls, reveal_type of the method, protocol / override
  compatibility, callable assignment.
"""
from __future__ import annotations

# ------------------------------------------------------------------------------------ type-ignore placement
FIRST_STATEMENTS = {
    # kind: physical lines of the first statement (valid on their own)
    "decorated-def-1": ["@deco", "def first(x: int) -> int:", "    return x + 1"],
    "decorated-def-2": ["@deco", "@deco_arg(1)", "def first(x: int) -> int:", "    return x + 1"],
    "decorated-def-undefined": ["@undefined_decorator", "def first(x: int) -> int:", "    return x + 1"],
    "decorated-async-def": ["@deco", "async def first(x: int) -> int:", "    return x + 1"],
    "decorated-class-1": ["@deco", "class First:", "    attr: int = ''"],
    "decorated-class-2": ["@undefined_decorator", "@deco", "class First(", "    object,", "):", "    attr: int = 0"],
    "decorator-multi-line": ["@deco_arg(", "    1,", ")", "def first(x: int) -> int:", "    return x"],
    "plain-def": ["def first(x: int) -> int:", "    return x + ''"],
    "plain-class": ["class First:", "    attr: int = ''"],
    "multi-line-call": ["print(", "    1 + '',", "    2,", ")"],
    "multi-line-import": ["from typing import (", "    List,", "    Dict,", ")"],
    "import": ["import os"],
    "docstring-then-def": ['"""Module docstring."""', "def first(x: int) -> int:", "    return x + ''"],
    "multi-line-docstring": ['"""Module', "docstring.", '"""'],
    "assignment": ["x0: int = ''"],
    "multi-line-assignment": ["x0: int = (", "    ''", ")"],
    "if": ["if undefined_name:", "    x0: int = ''"],
    "expression": ["undefined_name"],
    "with": ["with open(1 + '') as fh:", "    pass"],
    "future-import": ["from __future__ import annotations"],
}
PRELUDES = [[], [], [], [""], ["", ""], ["# a comment"], ["#!/usr/bin/env python"], ["# -*- coding: utf-8 -*-", ""], ["# mypy: warn-unreachable"]]
TAGS = ["", "", "[misc]", "[name-defined]", "[assignment, operator]", "  # why", "[operator]  # why"]
TAIL = """\
def deco(f):
    return f
def deco_arg(n):
    return deco
def second(y: str) -> int:
    return y
second(1)
reveal_type(second)
"""
HEAD_DEFS = ""      # decorators are defined *after* their use on purpose (the first statement must be first)


FIXED_PLACEMENT = [
    "@undefined_decorator  # type: ignore[name-defined]\ndef first(x: int) -> int:\n    return x + 1\n\ndef second(y: str) -> int:\n    return y\nfirst('a')\n",
    "@deco  # type: ignore\nclass First: pass\nx: int = ''\n",
    "@d1\n@d2  # type: ignore[misc]\nasync def first() -> None: ...\nx: int = ''\n",
    "# type: ignore\n@deco\ndef first() -> None: ...\nx: int = ''\n",
    "# type: ignore[misc]\nx: int = ''\n",
    "\n\n# type: ignore\n\nimport os\nx: int = ''\n",
    "x: int = ''  # type: ignore\n",
    "# type: ignore\n",
    "",
    "def first(  # type: ignore\n    x: int,\n) -> None: ...\nx: int = ''\n",
]


def gen_ignore_placement(rng, invalid_tags: bool = False) -> tuple[str, dict]:
    """-> (source, description).  One or two ignore comments around / inside the first statement."""
    kind = rng.choice(sorted(FIRST_STATEMENTS))
    stmt = list(FIRST_STATEMENTS[kind])
    prelude = list(rng.choice(PRELUDES))
    tags = TAGS + (["[", "[a][b]", " x"] if invalid_tags else [])
    where = []
    n = rng.choice([1, 1, 1, 2])
    slots = ["before", "before-blank", "after"] + ["line-%d" % i for i in range(len(stmt))]
    rng.shuffle(slots)
    lines_before: list[str] = []
    after: list[str] = []
    in_string = kind == "multi-line-docstring"
    for slot in slots[:n]:
        tag = rng.choice(tags)
        c = "# type: ignore" + tag
        if slot == "before":
            lines_before.append(c)
        elif slot == "before-blank":
            lines_before += [c, ""]
        elif slot == "after":
            after.append(c)
        else:
            i = int(slot.split("-")[1])
            if in_string and i < len(stmt) - 1:
                i = len(stmt) - 1        # a comment inside the string would be text
            stmt[i] = stmt[i] + "  " + c
        where.append(slot + ":" + tag)
    src = "\n".join(prelude + lines_before + stmt + after) + "\n" + TAIL
    return src, {"kind": kind, "where": where, "prelude": len(prelude)}


def module_ignore_input(src: str):
    """What the model needs, from the host `ast` (the default front end's own input): the `type: ignore` comments
    [(line, tag)] and the first statement (lineno, first decorator line | None); None if the host cannot parse."""
    import ast
    import warnings
    try:
        with warnings.catch_warnings():
            warnings.simplefilter("ignore")
            tree = ast.parse(src, type_comments=True)
    except (SyntaxError, ValueError):
        return None
    tags = [[ti.lineno, ti.tag] for ti in tree.type_ignores]
    first = None
    if tree.body:
        s = tree.body[0]
        deco = None
        if isinstance(s, (ast.FunctionDef, ast.AsyncFunctionDef, ast.ClassDef)) and s.decorator_list:
            deco = s.decorator_list[0].lineno
        first = (s.lineno, deco)
    return tags, first


def real_module_ignore(src: str, native: bool) -> dict:
    """What a front end makes of it: is the whole module ignored, `ignored_lines`, messages."""
    from mypy.nodes import Block

    from . import norm
    tree, msgs, blocked, crash = norm.parse_file(src, native)
    if tree is None or blocked:
        return {"crash": crash, "blocked": blocked, "msgs": msgs}
    if native:
        # the native writer delivers an empty module when the whole file is ignored
        inp = module_ignore_input(src)
        whole = len(tree.defs) == 0 and inp is not None and inp[1] is not None
    else:
        whole = len(tree.defs) == 1 and isinstance(tree.defs[0], Block) and bool(tree.defs[0].is_unreachable)
    return {"whole": whole, "ignores": {int(k): list(v) for k, v in tree.ignored_lines.items()}, "msgs": sorted(msgs),
            "crash": None, "blocked": False}


def expected_messages(m: dict) -> list[str]:
    out = ['main.py:%d: error: Invalid "type: ignore" comment  [syntax]' % l for l in m["invalid"]]
    if m["err"] is not None:
        out.append('main.py:%d: error: Type ignore with error code is not supported for modules; use `# mypy: '
                   'disable-error-code="%s"`  [syntax]' % (m["err"][0], ", ".join(m["err"][1])))
    return sorted(out)


# ------------------------------------------------------------------------------------ elided parameter names
def special_method_names() -> list[str]:
    from mypy.sharedparse import MAGIC_METHODS_POS_ARGS_ONLY
    return sorted(MAGIC_METHODS_POS_ARGS_ONLY)


BINARY_LIKE = ["__add__", "__radd__", "__sub__", "__mul__", "__lt__", "__le__", "__eq__", "__ne__", "__gt__", "__ge__",
               "__getitem__", "__contains__", "__and__", "__or__", "__xor__", "__matmul__", "__floordiv__", "__truediv__",
               "__mod__", "__lshift__", "__rshift__", "__pow__", "__iadd__", "__imul__", "__getattr__", "__delitem__",
               "__delattr__", "__divmod__"]
NOT_ELIDED = ["__init__", "__call__", "__new__", "__init_subclass__", "scale", "__post_init__", "__exit__"]


def gen_elided_names(rng) -> tuple[str, dict]:
    """A class with special methods and uses where their parameter names are observable."""
    special = set(special_method_names())
    pool = [m for m in BINARY_LIKE if m in special]
    ms = rng.sample(pool, rng.choice([1, 2, 3]))
    plain = rng.sample(NOT_ELIDED, rng.choice([1, 2]))
    pname = rng.choice(["other", "rhs", "key", "value", "x"])
    ann = rng.random() < 0.8
    L = ["from typing import Any, Callable, Protocol", "", "class Money:"]
    t = lambda a: (": " + a) if ann else ""
    r = lambda a: (" -> " + a) if ann else ""
    for m in ms:
        ret = "bool" if m in ("__lt__", "__le__", "__eq__", "__ne__", "__gt__", "__ge__", "__contains__") else \
            "None" if m in ("__delitem__", "__delattr__") else "int"
        arg_t = "object" if m in ("__eq__", "__ne__") else "str" if m in ("__getattr__", "__delattr__") else "int"
        body = "return True" if ret == "bool" else "return None" if ret == "None" else "return 1"
        L += ["    def %s(self, %s%s)%s:" % (m, pname, t(arg_t), r(ret)), "        " + body]
    for m in plain:
        if m == "__new__":
            L += ["    def __new__(cls, %s%s = 0)%s:" % (pname, t("int"), r('"Money"')), "        return object.__new__(cls)"]
        elif m == "__init_subclass__":
            L += ["    def __init_subclass__(cls, %s%s = 0)%s:" % (pname, t("int"), r("None")), "        pass"]
        elif m == "__exit__":
            L += ["    def __exit__(self, *%s%s)%s:" % (pname, t("object"), r("None")), "        pass"]
        else:
            L += ["    def %s(self, %s%s = 0)%s:" % (m, pname, t("int"), r("None" if m != "scale" else "int")),
                  "        return None" if m != "scale" else "        return 2"]
    L += ["", "m = Money()"]
    uses = []
    for m in ms:
        k = rng.choice(["keyword-call", "reveal-class", "reveal-instance", "callable-assign", "keyword-call", "unbound-keyword"])
        arg = "'a'" if m in ("__getattr__", "__delattr__") else "1"
        if k == "keyword-call":
            L.append("m.%s(%s=%s)" % (m, pname, arg))
        elif k == "unbound-keyword":
            L.append("Money.%s(m, %s=%s)" % (m, pname, arg))
        elif k == "reveal-class":
            L.append("reveal_type(Money.%s)" % m)
        elif k == "reveal-instance":
            L.append("reveal_type(m.%s)" % m)
        else:
            L.append("f_%s: Callable[[Money, Any], Any] = Money.%s" % (m.strip("_"), m))
        uses.append(k)
    if "scale" in plain:
        L.append("m.scale(%s=2)" % pname)
        L.append("m.scale(%s='2')" % pname)
    if rng.random() < 0.6:
        m = ms[0]
        other = "zzz" if pname != "zzz" else "yyy"
        L += ["", "class HasOp(Protocol):", "    def %s(self, %s: Any) -> Any: ..." % (m, other), "p: HasOp = m", "reveal_type(p.%s)" % m,
              "p.%s(%s=1)" % (m, other)]
        uses.append("protocol")
    if rng.random() < 0.6:
        m = ms[-1]
        L += ["", "class Sub(Money):", "    def %s(self, renamed: Any) -> Any:" % m, "        return 1", "Sub().%s(renamed=1)" % m,
              "reveal_type(Sub.%s)" % m]
        uses.append("override")
    return "\n".join(L) + "\n", {"methods": ms, "plain": plain, "uses": uses, "annotated": ann}


# ------------------------------------------------------------------------------------ static reachability
GUARD_POSITIONS = ["module", "function", "async-function", "class", "method", "try-body", "except", "try-else", "finally",
                   "with", "for-body", "for-else", "while-body", "while-else", "match-case", "nested-if", "elif", "if-else"]


def _guard(rng, ver):
    """(condition text, truth for the checker at target `ver` on platform linux)"""
    minor = ver[1]
    k = rng.choice(["ge", "ge", "lt", "ge-far", "lt-far", "platform", "platform-ne", "tc", "not-tc", "mypy", "not-mypy", "ge-paren", "and"])
    if k in ("ge", "lt", "ge-paren"):
        n = rng.choice([minor - 1, minor, minor + 1])
        if k == "ge":
            return "sys.version_info >= (3, %d)" % n, minor >= n
        if k == "ge-paren":
            return "(sys.version_info >= (3, %d))" % n, minor >= n
        return "sys.version_info < (3, %d)" % n, minor < n
    if k == "ge-far":
        return "sys.version_info >= (3, 99)", False
    if k == "lt-far":
        return "sys.version_info < (3, 99)", True
    if k == "platform":
        p = rng.choice(["win32", "plan9", "darwin"])
        return 'sys.platform == "%s"' % p, False
    if k == "platform-ne":
        return 'sys.platform != "win32"', True
    if k == "tc":
        return "TYPE_CHECKING", True
    if k == "not-tc":
        return "not TYPE_CHECKING", False
    if k == "mypy":
        return "MYPY", True
    if k == "not-mypy":
        return "not MYPY", False
    return 'sys.version_info >= (3, 99) and sys.platform == "win32"', False


def _payload(rng, uid: int, ignores: bool) -> list[str]:
    """1–3 physical lines with something the checker would complain about, optionally with ignore comments on the
    first / middle / LAST line"""
    cand = [
        ("import nonexistent_mod_%d" % uid, "import-not-found"),
        ("from nonexistent_pkg_%d import thing_%d" % (uid, uid), "import-not-found"),
        ("v%d: int = ''" % uid, "assignment"),
        ("sys.argv.nope_%d" % uid, "attr-defined"),
        ("undefined_name_%d" % uid, "name-defined"),
        ("w%d = 1 + ''" % uid, "operator"),
    ]
    n = rng.choice([1, 2, 3])
    picks = [rng.choice(cand) for _ in range(n)]
    out = []
    for i, (text, code) in enumerate(picks):
        where = "last" if i == n - 1 else "first" if i == 0 else "middle"
        if ignores and rng.random() < (0.7 if where == "last" else 0.45):
            tag = rng.choice(["[%s]" % code, "[%s]" % code, "", "[misc]"])
            text += "  # type: ignore" + tag
        out.append(text)
    return out


def gen_static_reachability(rng, ver) -> tuple[str, dict]:
    uid = [0]
    used = []

    def guarded(ind: str, depth: int = 0) -> list[str]:
        uid[0] += 1
        cond, truth = _guard(rng, ver)
        ignores = rng.random() < 0.75
        body = [ind + "    " + l for l in _payload(rng, uid[0], ignores)]
        out = [ind + "if " + cond + ":"] + body
        shape = rng.choice(["plain", "plain", "else", "elif"])
        if shape == "else":
            uid[0] += 1
            out += [ind + "else:"] + [ind + "    " + l for l in _payload(rng, uid[0], ignores)]
        elif shape == "elif":
            uid[0] += 1
            c2, _ = _guard(rng, ver)
            out += [ind + "elif " + c2 + ":"] + [ind + "    " + l for l in _payload(rng, uid[0], ignores)]
            if rng.random() < 0.5:
                uid[0] += 1
                out += [ind + "else:"] + [ind + "    " + l for l in _payload(rng, uid[0], ignores)]
        return out

    def place(pos: str) -> list[str]:
        g = guarded
        if pos == "module":
            return g("")
        if pos == "function":
            return ["def fn_%d() -> None:" % uid[0]] + g("    ") + ["    release()"]
        if pos == "async-function":
            return ["async def afn_%d() -> None:" % uid[0]] + g("    ")
        if pos == "class":
            return ["class K_%d:" % uid[0]] + g("    ") + ["    attr: int = 0"]
        if pos == "method":
            return ["class M_%d:" % uid[0], "    def meth(self) -> None:"] + g("        ")
        if pos == "try-body":
            return ["try:"] + g("    ") + ["except OSError:", "    pass"]
        if pos == "except":
            return ["try:", "    release()", "except OSError:"] + g("    ")
        if pos == "try-else":
            return ["try:", "    release()", "except OSError:", "    pass", "else:"] + g("    ")
        if pos == "finally":
            return ["try:", "    release()", "finally:"] + g("    ") + ["    release()"]
        if pos == "with":
            return ["with open('f') as fh_%d:" % uid[0]] + g("    ")
        if pos == "for-body":
            return ["for it_%d in range(3):" % uid[0]] + g("    ")
        if pos == "for-else":
            return ["for it_%d in range(3):" % uid[0], "    pass", "else:"] + g("    ")
        if pos == "while-body":
            return ["while release():"] + g("    ") + ["    break"]
        if pos == "while-else":
            return ["while release():", "    pass", "else:"] + g("    ")
        if pos == "match-case":
            return ["match sys.argv:", "    case []:"] + g("        ") + ["    case _:", "        pass"]
        if pos == "nested-if":
            return ["if release():"] + g("    ")
        if pos == "elif":
            return ["if release():", "    pass", "elif release():"] + g("    ")
        return ["if release():", "    pass", "else:"] + g("    ")

    L = []
    if rng.random() < 0.85:
        L.append("# mypy: warn-unused-ignores")
    L += ["import sys", "from typing import TYPE_CHECKING", "MYPY = False", "", "def release() -> bool:", "    return True", ""]
    positions = [p for p in GUARD_POSITIONS if p != "match-case" or ver >= (3, 10)]
    for _ in range(rng.choice([2, 3, 4])):
        pos = rng.choice(positions)
        used.append(pos)
        L += place(pos) + [""]
    return "\n".join(L) + "\n", {"positions": used}


def real_skipped(src: str, ver) -> dict | None:
    """Default front end: the outermost statically unreachable blocks [(line, end_line)] and `skipped_lines` after
    SemanticAnalyzerPreAnalysis, plus `ignored_lines`; native front end: `ignored_lines` and `skipped_lines`."""
    from mypy.nodes import Block
    from mypy.semanal_pass1 import SemanticAnalyzerPreAnalysis
    from mypy.traverser import TraverserVisitor

    from . import norm
    tree, msgs, blocked, crash = norm.parse_file(src, False, tuple(ver))
    if tree is None or blocked:
        return None
    o = norm._options(False, tuple(ver))
    SemanticAnalyzerPreAnalysis().visit_file(tree, "main.py", "__main__", o)
    blocks: list[list[int]] = []

    class V(TraverserVisitor):
        def visit_block(self, b: Block) -> None:
            if b.is_unreachable:
                if b.end_line is not None:
                    blocks.append([b.line, b.end_line])
                return
            super().visit_block(b)

    tree.accept(V())
    ntree, nmsgs, nblocked, ncrash = norm.parse_file(src, True, tuple(ver))
    return {"blocks": blocks, "skipped": sorted(tree.skipped_lines), "ignored": sorted(int(k) for k in tree.ignored_lines),
            "native_ignored": None if ntree is None or nblocked else sorted(int(k) for k in ntree.ignored_lines),
            "native_skipped": None if ntree is None or nblocked else sorted(getattr(ntree, "skipped_lines", set()) or [])}
