"""Verdict logic of C14: what a difference between model / default front end / native front end amounts to.

Every difference is decided by evaluating the property's own oracle on the real code (diagnostics of the two
front ends, positions against the source text).  A concrete failure goes through `ctx.report` with an
`observed` dict; the entries of known_findings.json match on `class`, and the *predicate* of each class is the
code below — a difference that satisfies no predicate is reported with class "diagnostics-differ" /
"blocking-status-differs" / "position-…" and is a VIOLATION.
"""
from __future__ import annotations

import ast
import io
import re
import sys
import tokenize
import warnings
from collections import Counter

HOST = sys.version_info[:2]
MAX_REPORTS_PER_CLASS = 2

MSG = re.compile(r"^main\.py:(\d+)(?::(\d+))?(?::(\d+):(\d+))?: (error|note|warning): (.*)$", re.S)
NATIVE_GATE = re.compile(r"^(.*): requires Python (\d+)\.(\d+) or newer \(current target: Python (\d+)\.(\d+)\)  \[syntax\]$")
CPY_GATE = re.compile(r"only supported in Python (\d+)\.(\d+) and greater")
HOST_TOO_OLD = re.compile(r"you likely need to run mypy using Python (\d+)\.(\d+) or newer")

# independent table: feature names of nativeparse.check_min_version and of the external writer → the Python
# version that introduced the syntax (the language reference), so that a wrong bound in either is noticed
FEATURE_VERSION = {
    "Improved type parameter syntax": (3, 12), '"type" statements': (3, 12), "Type parameter defaults": (3, 13),
    "Exception groups": (3, 11), "Star unpack syntax": (3, 11), "T-strings": (3, 14), "Template strings": (3, 14),
    "Pattern matching": (3, 10), "Match statements": (3, 10), "Parenthesized context managers": (3, 9),
    "Positional-only parameters": (3, 8), "Assignment expressions": (3, 8), "Walrus operator": (3, 8),
    "Unparenthesized except": (3, 14), "Multiple exception types without parentheses": (3, 14),
    "Star expression in index": (3, 11), "Star annotations": (3, 11),
}

# explicit probes: one replay per known class keeps it visible whatever the random stream does
PROBES = [
    ("probe:annotation-end", "def f(x: zzz.y) -> int: return 1\n", [(3, 12)]),
    ("probe:dunder-kwonly", "def f(*, __y: int) -> None: ...\nf(__y=1)\n", [(3, 12)]),
    ("probe:duplicate-parameter", "def f(a: int, a: str) -> None: ...\n", [(3, 12)]),
    ("probe:literal-float", "from typing import Literal\nx: Literal[1.5]\ny: Literal[1j]\n", [(3, 12)]),
    ("probe:type-param-default", "class C[T = int]: pass\n", [(3, 13)]),
    ("probe:ignore-unterminated", "x: int = ''  # type: ignore[\n", [(3, 12)]),
    ("probe:non-ascii", "é = 1\nx: int = \"ééé\" + é + None\n", [(3, 12)]),
    ("probe:syntax-error-eol", "x = 1 +\n", [(3, 12)]),
    ("probe:def-def", "def def f(): pass\n", [(3, 12)]),
    ("probe:config-in-string", "'''\n# mypy: disable-error-code=\"assignment\"\n'''\nx: int = ''\n", [(3, 12)]),
    ("probe:paren-operand", "k = 1\nreveal_type((k) / 1.5)\nreveal_type(1.5 / (k))\n", [(3, 12)]),
    ("probe:fstring-field", "a = f\"x{zz}y\"\n", [(3, 12)]),
    ("probe:genexp-argument", "reveal_type(x for x in [1])\n", [(3, 12)]),
    ("probe:walrus-target", "x = [f\"a{1}\" := 2]\n", [(3, 12)]),
    ("probe:mixed-tabs", "if 1:\n\t        x = 1\n            y = 2\n", [(3, 12)]),
    ("probe:repeated-keyword", "def f(a: int) -> None: ...\nf(a=1, a=2)\n", [(3, 12)]),
    ("probe:except-as", "try:\n    pass\nexcept () as e:\n    pass\n", [(3, 12)]),
    ("probe:match-39", "x = 1\nmatch x:\n    case 1: pass\n", [(3, 9), (3, 10)]),
    ("probe:arg-name-literal", "from typing import Callable\nfrom mypy_extensions import Arg\ndef a(f: Callable[[Arg(int, 0)], int]) -> None: ...\n", [(3, 12)]),
    ("probe:one-constraint", "type B[T: (int,)] = list[T]\nb: B[str]\n", [(3, 12)]),
    ("probe:raise-semicolon", "def f() -> None:\n    try:\n        pass\n    except Exception:\n        raise ;\n", [(3, 12)]),
    ("probe:elif-unreachable", "# mypy: warn-unreachable\nx: int = 0\nif isinstance(x, int):\n    pass\nelif x:\n    pass\n", [(3, 12)]),
    ("probe:multi-line-annotation", "from typing import Union\nx: Union[int,\n         bytes[float]]\n", [(3, 12)]),
    ("probe:as-pattern-name", "def f(x: object) -> None:\n    match x:\n        case {} as a:\n            a = {}\n        case _:\n            pass\n", [(3, 12)]),
    ("probe:star-index-310", "def f(*args: *tuple[int, ...]) -> None: pass\n", [(3, 10), (3, 11)]),
]


class Stats:
    def __init__(self) -> None:
        self.classes: Counter = Counter()
        self.reported: Counter = Counter()
        self.msgs = 0
        self.positions_checked = 0
        self.compared = 0
        self.both_blocked = 0
        self.out_of_domain: Counter = Counter()
        self.skipped: Counter = Counter()

    def finish(self, ctx) -> None:
        ctx.coverage["differential"] = {
            "programs_compared_message_for_message": self.compared, "both_blocked_status_only": self.both_blocked,
            "diagnostics_seen": self.msgs, "positions_checked_against_source": self.positions_checked,
            "out_of_domain": dict(self.out_of_domain), "skipped": dict(self.skipped),
            "difference_classes": dict(self.classes),
        }


def _report(ctx, st: Stats, observed: dict, what: str, detail: dict) -> None:
    cls = observed["class"] + "/" + str(observed.get("parser", ""))
    st.classes[observed["class"]] += 1
    ctx.count("disagreements_checked")
    if st.reported[cls] >= MAX_REPORTS_PER_CLASS:
        return
    st.reported[cls] += 1
    ctx.report(observed, what, detail)


def parse_msg(m: str):
    mm = MSG.match(m)
    if not mm:
        return None
    l, c, el, ec, sev, text = mm.groups()
    return (int(l), int(c) - 1 if c else None, int(el) if el else None, int(ec) if ec else None, sev, text)


def src_lines(src: str) -> list[str]:
    return src.replace("\r\n", "\n").replace("\r", "\n").split("\n")


def line_len(line: str) -> int:
    return max(len(line), len(line.encode("utf8", "surrogatepass")))


# ================================================================================================ positions
def check_positions(ctx, st: Stats, key, src: str, ver, parser: str, status: str, msgs: list[str]) -> None:
    lines = src_lines(src)
    for m in msgs:
        p = parse_msg(m)
        st.msgs += 1
        if p is None:
            continue
        line, col, el, ec, sev, text = p
        st.positions_checked += 1
        detail = {"source": src, "version": list(ver), "parser": parser, "message": m, "case": list(key)}
        if not (1 <= line <= len(lines)):
            _report(ctx, st, {"class": "position-line-outside-file", "parser": parser},
                    "%s front end: %r names line %d of a %d-line file" % (parser, m, line, len(lines)), detail)
            continue
        if col is None:
            continue
        L = lines[line - 1]
        if col > line_len(L):
            is_syntax = text.endswith("[syntax]") and status == "blocker"
            over = col - line_len(L)
            if is_syntax:
                _report(ctx, st, {"class": "syntax-error-column-outside-line", "parser": parser},
                        "%s front end: blocking syntax error %r has column %d, the line has %d characters (the 1-based "
                        "offset of the syntax error is stored as a 0-based column)" % (parser, m, col + 1, len(L)),
                        dict(detail, overshoot=over))
            else:
                _report(ctx, st, {"class": "position-column-outside-line", "parser": parser},
                        "%s front end: %r has column %d, the line has %d characters" % (parser, m, col + 1, len(L)), detail)
        if el is not None and (el, ec) < (line, col):
            _report(ctx, st, {"class": "position-end-before-start", "parser": parser},
                    "%s front end: %r ends before it starts" % (parser, m), detail)


# ================================================================================================ programs
def host_parses(src: str) -> bool:
    try:
        with warnings.catch_warnings():
            warnings.simplefilter("ignore")
            ast.parse(src)
        return True
    except (SyntaxError, ValueError, RecursionError):
        return False


def native_gates(msgs: list[str]):
    """(gate messages [(feature, required, target)], other messages)"""
    gates, rest = [], []
    for m in msgs:
        p = parse_msg(m)
        g = NATIVE_GATE.match(p[5]) if p else None
        if g:
            gates.append((g.group(1), (int(g.group(2)), int(g.group(3))), (int(g.group(4)), int(g.group(5))), m))
        else:
            rest.append(m)
    return gates, rest


def program_case(ctx, st: Stats, key, src: str, ver, origin: str, d, n) -> None:
    dstat, dmsgs = d
    nstat, nmsgs = n
    detail = {"source": src, "version": list(ver), "case": list(key), "default": [dstat, dmsgs[:12]], "native": [nstat, nmsgs[:12]]}
    # ---- machinery outcomes
    if dstat in ("timeout", "died") and nstat in ("timeout", "died"):
        st.skipped["both-" + dstat] += 1
        return
    if dstat in ("crash", "timeout", "died"):
        st.skipped["default-" + dstat] += 1      # an internal error of the checker itself is C20's subject
        return
    if nstat in ("crash", "died", "timeout"):
        why = (nmsgs or [nstat])[0]
        if "SystemExit" in why and dstat == "blocker":
            _report(ctx, st, {"class": "native-internal-error-on-invalid-source", "parser": "native"},
                    "native front end: INTERNAL ERROR (an assertion in nativeparse.read_expression) on a file the default front end "
                    "rejects with %r" % ((dmsgs or [""])[0][:120],), detail)
        elif "PanicException" in why and dstat == "blocker":
            _report(ctx, st, {"class": "native-panic-on-invalid-source", "parser": "native"},
                    "native front end raises %s on a file the default front end rejects with a syntax error" % why[:90], detail)
        else:
            _report(ctx, st, {"class": "native-front-end-crash", "parser": "native", "default_status": dstat},
                    "native front end: %s (%s); default front end: %s" % (nstat, why[:90], dstat), detail)
        check_positions(ctx, st, key, src, ver, "default", dstat, dmsgs)
        return
    # ---- every position, both front ends
    check_positions(ctx, st, key, src, ver, "default", dstat, dmsgs)
    check_positions(ctx, st, key, src, ver, "native", nstat, nmsgs)
    # ---- native version gates must be justified by the language reference
    gates, nrest = native_gates(nmsgs)
    for feat, req, tgt, m in gates:
        want = FEATURE_VERSION.get(feat)
        if tgt != tuple(ver) or not (tuple(ver) < req) or (want is not None and want != req) or want is None:
            _report(ctx, st, {"class": "native-version-gate-wrong", "feature": feat},
                    "native front end says %r for target %s; the syntax exists since %s" % (m, ver, want), detail)
            return
    # ---- blocking status
    if dstat == "blocker" and nstat == "blocker":
        st.both_blocked += 1
        return
    if dstat == "blocker" and nstat == "ok":
        status_default_only(ctx, st, key, src, ver, dmsgs, nmsgs, gates, detail)
        return
    if dstat == "ok" and nstat == "blocker":
        status_native_only(ctx, st, key, src, ver, dmsgs, nmsgs, detail)
        return
    # ---- both ran to completion
    if gates:
        # the program uses syntax that does not exist in the target version (the default front end's host parser is
        # lax about it): not a valid program for this configuration
        st.out_of_domain["syntax newer than target (only the native front end says so)"] += 1
        return
    st.compared += 1
    if dmsgs == nmsgs:
        return
    if module_is_ignored(src) and set(nmsgs) <= set(dmsgs):
        extra = [m for m in dmsgs if m not in nmsgs]
        _report(ctx, st, {"class": "ignored-module-residual-diagnostics"},
                "a `# type: ignore` before the first statement ignores the whole module: the default front end wraps the body in an "
                "unreachable block, which some passes still visit (%r); the native front end delivers an empty module and reports nothing"
                % (extra[:2],), detail)
        return
    compare_messages(ctx, st, key, src, ver, dmsgs, nmsgs, detail)


def module_is_ignored(src: str) -> bool:
    """the module-level-ignore rule evaluated on the host ast (used only to attribute a difference)"""
    from . import families, norm
    inp = families.module_ignore_input(src)
    if not inp or inp[1] is None:
        return False
    valid = [l for l, t in inp[0] if norm.real_tag(t) is not None]
    return bool(valid) and min(valid) < (inp[1][1] or inp[1][0])


def status_default_only(ctx, st, key, src, ver, dmsgs, nmsgs, gates, detail) -> None:
    texts = [parse_msg(m)[5] if parse_msg(m) else m for m in dmsgs]
    gate = [CPY_GATE.search(t) for t in texts]
    if texts and all(gate):
        need = max((int(g.group(1)), int(g.group(2))) for g in gate)
        if tuple(ver) < need:
            st.out_of_domain["syntax newer than target (default front end blocks)"] += 1
            return
    if texts and all("Duplicate parameter" in t and "in function definition" in t for t in texts):
        _report(ctx, st, {"class": "native-no-duplicate-parameter-check"},
                "default front end blocks with %r, the native front end accepts the duplicate parameter" % texts[0], detail)
        return
    if texts and all(re.search(r"(expression|statement) cannot be used (as|within) a", t) or "cannot be used as a type variable bound" in t
                     or "cannot be used within a type" in t or "cannot be used within an annotation" in t for t in texts):
        _report(ctx, st, {"class": "native-no-annotation-scope-expression-check"},
                "default front end blocks with %r (yield / await / := inside a type-parameter bound or alias), the native front end "
                "does not" % texts[0], detail)
        return
    if texts and all(re.search(r"Unindent does not match any outer indentation level|Inconsistent use of tabs and spaces", t) for t in texts) \
            and any("\t" in l[: len(l) - len(l.lstrip())] for l in src_lines(src)):
        _report(ctx, st, {"class": "mixed-tab-space-indentation-accepted-by-native"},
                "indentation that mixes tabs and spaces: the default front end (CPython's tokenizer, tab = next multiple of 8) blocks with %r, "
                "the native front end measures it differently and accepts the file" % texts[0], detail)
        return
    if texts and all(re.search(r"[Ee]xpected 'except' or 'finally' block", t) for t in texts):
        _report(ctx, st, {"class": "native-accepts-try-else-without-except"},
                "`try: … else: … finally: …` without an `except` clause: CPython (default front end) blocks with %r, the native front end accepts "
                "the statement and type-checks it" % texts[0], detail)
        return
    if texts and all("Expected string literal for argument name, got" in t for t in texts):
        _report(ctx, st, {"class": "native-no-argument-name-literal-check"},
                "`Callable[[Arg(int, 0)], int]`: the default front end's TypeConverter blocks with %r; the native reader "
                "(nativeparse.extract_arg_name) accepts a non-string argument name silently" % texts[0], detail)
        return
    if not host_parses(src):
        # syntax the host interpreter cannot read: F11b when the native front end accepts it for this target
        req = newer_than_host(src, ver)
        if req is not None:
            _report(ctx, st, {"class": "syntax-newer-than-host-interpreter"},
                    "default front end (host Python %d.%d) blocks with %r; the native front end reads the %d.%d syntax"
                    % (HOST[0], HOST[1], texts[0] if texts else "", req[0], req[1]), dict(detail, requires=list(req)))
            return
    _report(ctx, st, {"class": "blocking-status-differs", "blocked_by": "default"},
            "only the default front end rejects the file with a blocking error: %r" % (texts[:1],), detail)


_NEWER_CACHE: dict = {}


def newer_than_host(src: str, ver) -> tuple | None:
    """The F11b predicate: the native front end, asked for the *host's* version, says the file needs a newer
    Python than the host (so the host `ast` cannot read it); evaluated with a direct native parse."""
    from . import norm
    k = (src, HOST)
    if k not in _NEWER_CACHE:
        tree, msgs, blocked, crash = norm.parse_file(src, True, HOST)
        req = None
        for m in msgs:
            g = re.search(r": requires Python (\d+)\.(\d+) or newer", m)
            if g and (int(g.group(1)), int(g.group(2))) > HOST:
                r = (int(g.group(1)), int(g.group(2)))
                req = max(req, r) if req else r
        if blocked or crash:
            req = None
        _NEWER_CACHE[k] = req
    return _NEWER_CACHE[k]


def status_native_only(ctx, st, key, src, ver, dmsgs, nmsgs, detail) -> None:
    texts = [parse_msg(m)[5] if parse_msg(m) else m for m in nmsgs]
    if any(re.search(r'Repeated keyword argument|gets multiple values for keyword argument|Duplicate keyword argument', t) for t in texts):
        _report(ctx, st, {"class": "native-blocks-on-repeated-keyword-argument"},
                "the native front end rejects the file (%r); the default front end reports the repeated keyword without blocking" % texts[:1],
                detail)
        return
    if any("Expected an expression" in t for t in texts) and any(re.search(r"\braise\s*;", l) for l in src_lines(src)):
        _report(ctx, st, {"class": "native-rejects-bare-raise-before-semicolon"},
                "`raise ;` (a bare raise followed by a semicolon) is valid Python and accepted by the default front end; the native "
                "front end rejects the file: %r" % texts[:1], detail)
        return
    if texts and re.search(r"Unindent does not match any outer indentation level|Inconsistent use of tabs|Unexpected indentation", texts[0]) \
            and any("\t" in l[: len(l) - len(l.lstrip())] and " " in l[: len(l) - len(l.lstrip())] for l in src_lines(src)):
        _report(ctx, st, {"class": "mixed-tab-space-indentation-accepted-by-native", "blocked_by": "native"},
                "indentation that mixes tabs and spaces (` \\t    ` under `  \\t  `): equal for CPython's tokenizer (tab = next multiple of 8; "
                "default front end accepts), unequal for the native front end, which blocks with %r" % texts[0], detail)
        return
    _report(ctx, st, {"class": "blocking-status-differs", "blocked_by": "native"},
            "only the native front end rejects the file with a blocking error: %r" % (texts[:1],), detail)


# ------------------------------------------------------------------------------------------------ messages
LITERAL_D = re.compile(r'Parameter \d+ of Literal\[\.\.\.\] cannot be of type "(float|complex)"|Invalid type: (float|complex) literals cannot be used as a type')
LITERAL_N = re.compile(r"Invalid type: Literal\[\.\.\.\] cannot contain arbitrary expressions|Invalid type comment or annotation")


BYTES_IN_INDEX = re.compile(r"""\[\s*[bB][rR]?["']|\[\s*[rR][bB]["']""")
# classes that change what a name *means* (not merely where a message points): further differences in the same
# program are consequences and are attributed to them
ROOT_CLASSES = {"bytes-literal-as-forward-reference", "native-no-constrained-types-count-check", "native-type-ignore-invalid-tag", "native-type-ignore-comment-tail",
                "native-dunder-name-not-positional-only", "inline-config-comment-inside-string-literal"}


def _ignore_tag_on_line(line: str):
    m = re.search(r"#\s*type:\s*ignore(.*)$", line)
    return m.group(1) if m else None


def compare_messages(ctx, st, key, src, ver, dmsgs, nmsgs, detail, second_pass: bool = False) -> None:
    lines = src_lines(src)
    cd, cn = Counter(dmsgs), Counter(nmsgs)
    od = [parse_msg(m) for m in (cd - cn).elements()]
    on = [parse_msg(m) for m in (cn - cd).elements()]
    if not od and not on:
        if not second_pass:
            _report(ctx, st, {"class": "diagnostics-order-differs"}, "same diagnostics, different order", detail)
        return
    if any(p is None for p in od + on):
        _report(ctx, st, {"class": "diagnostics-differ"}, "diagnostics differ (unparsable message line)", detail)
        return
    found: list[tuple[dict, str, int]] = []
    # group by (line, severity, text): what is said; the spans are where
    groups: dict[tuple, tuple[list, list]] = {}
    for a in od:
        groups.setdefault((a[0], a[4], a[5]), ([], []))[0].append(a)
    for b in on:
        groups.setdefault((b[0], b[4], b[5]), ([], []))[1].append(b)
    rest_d, rest_n = [], []
    for (ln, sev, text), (ds, ns) in groups.items():
        pairs, ud, un = best_pairing(lines, ds, ns, src)
        for a, b in pairs:
            for obs, what in position_pair(lines, a, b, src):
                found.append((obs, what, ln))
        rest_d += ud
        rest_n += un
    # the same thing said about a different *line*
    for a in list(rest_d):
        for b in list(rest_n):
            if a[4:] == b[4:] and a[0] != b[0]:
                why = line_attribution(lines, src, a, b)
                if why is not None:
                    found.append((why[0], why[1], a[0]))
                    rest_d.remove(a)
                    rest_n.remove(b)
                    break
    # … and the default front end's copies of it collapsed on the first line of a multi-line type expression
    tc = type_contexts(src)
    if tc is not None and rest_n:
        dall = [parse_msg(m) for m in dmsgs]
        for b in list(rest_n):
            for lo, hi in tc[0]:
                if lo[0] < b[0] <= hi[0] and any(x is not None and x[0] == lo[0] and x[4:] == b[4:] for x in dall):
                    found.append(({"class": "multi-line-annotation-line-attribution"},
                                  "%r: native front end on line %d; the default front end reports everything inside the type expression on "
                                  "its first line %d (where equal messages are then merged)" % (b[5][:70], b[0], lo[0]), b[0]))
                    rest_n.remove(b)
                    break
    # leftovers, line by line: something is *said* by one front end only
    by_line: dict[int, tuple[list, list]] = {}
    for a in rest_d:
        by_line.setdefault(a[0], ([], []))[0].append(a)
    for b in rest_n:
        by_line.setdefault(b[0], ([], []))[1].append(b)
    for ln, (ds, ns) in sorted(by_line.items()):
        found.append(leftover_line(lines, ln, ds, ns, src) + (ln,))
    # a note that attaches to the *first* error of its code on the line moves when the errors' columns (hence their
    # order) differ: a consequence of a classified position difference on the same line, nothing of its own
    explained_lines = {f[2] for f in found if f[0]["class"] not in ("diagnostics-differ", "derived-note")}
    for i, f in enumerate(found):
        if f[0]["class"] == "derived-note":
            if f[2] in explained_lines:
                st.classes["consequence-of-position-difference(not-covered note)"] += 1
                found[i] = None
            else:
                found[i] = ({"class": "diagnostics-differ", "kind": "note-position"}, f[1], f[2])
    found = [f for f in found if f is not None]
    if not found:
        return
    unknown = [f for f in found if f[0]["class"] == "diagnostics-differ"]
    roots = [f for f in found if f[0]["class"] in ROOT_CLASSES]
    if unknown and roots:
        st.classes["consequence-of:" + roots[0][0]["class"]] += len(unknown)
        found = [f for f in found if f[0]["class"] != "diagnostics-differ"]
        unknown = []
    if unknown and not second_pass and all(f[0].get("kind", "").endswith("position") for f in unknown) and \
            any(f[0]["class"] != "diagnostics-differ" for f in found):
        # Errors.remove_duplicates keeps the *first* of several messages with the same line and text after sorting by
        # column: a classified column difference can change which one survives.  Look below the duplicate elimination.
        try:
            d2, n2 = _diag_pair(ctx, src, {"__no_dedup__": True}, ver)
        except Exception:
            d2 = n2 = None
        if d2 is not None and d2[0] == "ok" and n2[0] == "ok":
            sub = Stats()
            sub.reported = st.reported
            compare_messages(ctx, sub, key, src, ver, d2[1], n2[1], dict(detail, without_duplicate_elimination=True), second_pass=True)
            if "diagnostics-differ" not in sub.classes:
                st.classes["consequence-of-position-difference(duplicate elimination keeps another representative)"] += len(unknown)
                for k, v in sub.classes.items():
                    st.classes[k] += 0
                found = [f for f in found if f[0]["class"] != "diagnostics-differ"]
                unknown = []
            else:
                return      # the second pass has reported
    for obs, what, _ln in (unknown or found):
        _report(ctx, st, obs, what, detail)


MISSING_IMPORT = re.compile(r'Cannot find implementation or library stub for module named "([\w.]+)"|'
                            r'Library stubs not installed for "([\w.]+)"|missing-imports$|is installed, but missing library stubs')


def line_attribution(lines, src: str, a, b):
    """a (default) and b (native): same severity and text on different lines."""
    what = "%r is reported on line %d by the default front end and on line %d by the native one" % (a[5][:70], a[0], b[0])
    la = lines[a[0] - 1] if 1 <= a[0] <= len(lines) else ""
    lb = lines[b[0] - 1] if 1 <= b[0] <= len(lines) else ""
    m = MISSING_IMPORT.search(a[5])
    if m and re.search(r"\b(import|from)\b", la) and re.search(r"\b(import|from)\b", lb):
        mod = m.group(1) or m.group(2)
        if mod is None or (mod.split(".")[0] in la and mod.split(".")[0] in lb):
            return {"class": "repeated-missing-import-line-attribution"}, what + \
                " — the module is imported on both lines; the one-per-module import error lands on a different occurrence"
    sp = statement_spans(src)
    if sp is not None:
        lo_, hi_ = min(a[0], b[0]), max(a[0], b[0])
        inner = [x for x in sp if x[0] <= lo_ and hi_ <= x[1]]
        if inner and min(inner, key=lambda x: x[1] - x[0])[2]:
            return {"class": "multi-line-expression-line-attribution"}, what + \
                " — one expression spanning several lines: a nested operation is attributed to a different physical line"
    ctx_ = type_contexts(src)
    if ctx_ is not None and a[0] < b[0]:
        for lo, hi in ctx_[0]:
            if lo[0] == a[0] and lo[0] < b[0] <= hi[0]:
                return {"class": "multi-line-annotation-line-attribution"}, what + \
                    " — a type expression spanning several lines: the default front end's TypeConverter gives every nested type the first line"
    return None


def best_pairing(lines, ds: list, ns: list, src: str = ""):
    """Pair the default's and the native's spans of one (line, severity, text): exact matches first, then the
    assignment with the fewest unexplained pairs."""
    import itertools
    ds, ns = list(ds), list(ns)
    pairs = []
    for a in list(ds):
        for b in ns:
            if a[1:4] == b[1:4]:
                ds.remove(a); ns.remove(b)
                break
    k = min(len(ds), len(ns))
    if k == 0:
        return pairs, ds, ns
    if len(ds) > 5 or len(ns) > 5:
        ds.sort(key=lambda x: (x[1] or -1, x[3] or -1)); ns.sort(key=lambda x: (x[1] or -1, x[3] or -1))
        return [(ds[i], ns[i]) for i in range(k)], ds[k:], ns[k:]
    best = None
    small, large, flip = (ds, ns, False) if len(ds) <= len(ns) else (ns, ds, True)
    for perm in itertools.permutations(range(len(large)), len(small)):
        cand = [((small[i], large[j]) if not flip else (large[j], small[i])) for i, j in enumerate(perm)]
        bad = sum(1 for a, b in cand if any(o["class"] == "diagnostics-differ" for o, _ in position_pair(lines, a, b, src)))
        if best is None or bad < best[0]:
            best = (bad, cand, perm)
            if bad == 0:
                break
    _, cand, perm = best
    left = [large[j] for j in range(len(large)) if j not in perm]
    return cand, (left if flip else []), ([] if flip else left)


_TYPE_CTX_CACHE: dict = {}


def type_contexts(src: str):
    """(spans of type expressions: parameter / return / variable annotations and type-parameter bounds;
    start positions of lambda expressions) from the host `ast`; None when the host cannot parse the file."""
    if src in _TYPE_CTX_CACHE:
        return _TYPE_CTX_CACHE[src]
    try:
        with warnings.catch_warnings():
            warnings.simplefilter("ignore")
            tree = ast.parse(src)
    except (SyntaxError, ValueError, RecursionError):
        _TYPE_CTX_CACHE[src] = None
        return None
    spans, lambdas = [], set()
    for node in ast.walk(tree):
        for field in ("annotation", "returns", "bound", "default_value"):
            a = getattr(node, field, None)
            if isinstance(a, ast.AST) and hasattr(a, "lineno"):
                spans.append(((a.lineno, a.col_offset), (a.end_lineno, a.end_col_offset)))
        if isinstance(node, ast.Lambda):
            lambdas.add((node.lineno, node.col_offset))
        if hasattr(ast, "TypeAlias") and isinstance(node, ast.TypeAlias):
            a = node.value
            spans.append(((a.lineno, a.col_offset), (a.end_lineno, a.end_col_offset)))
    if len(_TYPE_CTX_CACHE) > 64:
        _TYPE_CTX_CACHE.clear()
    _TYPE_CTX_CACHE[src] = (spans, lambdas)
    return _TYPE_CTX_CACHE[src]


_STMT_CACHE: dict = {}


def statement_spans(src: str):
    """[(first line, last line, True)] of every multi-line *expression* of the host ast; None if unparsable."""
    if src in _STMT_CACHE:
        return _STMT_CACHE[src]
    try:
        with warnings.catch_warnings():
            warnings.simplefilter("ignore")
            tree = ast.parse(src)
    except (SyntaxError, ValueError, RecursionError):
        _STMT_CACHE[src] = None
        return None
    out = [(n.lineno, n.end_lineno, True) for n in ast.walk(tree)
           if isinstance(n, ast.expr) and n.end_lineno is not None and n.end_lineno > n.lineno]
    if len(_STMT_CACHE) > 64:
        _STMT_CACHE.clear()
    _STMT_CACHE[src] = out
    return out


def no_end_reason(src: str, line: int, col: int) -> str | None:
    """Why the default front end has no end position at (line, 0-based column): the two node kinds whose
    converters (TypeConverter; visit_Lambda) set line and column only."""
    ctx = type_contexts(src)
    if ctx is None:
        return None
    spans, lambdas = ctx
    if (line, col) in lambdas:
        return "default-reports-no-end-position-for-lambda"
    if any(lo <= (line, col) < hi for lo, hi in spans):
        return "default-reports-no-end-position"
    return None


_STRING_LIT = re.compile(r"""(?:[rRbBuUfF]{0,2})(?:\'\'\'.*?\'\'\'|\"\"\".*?\"\"\"|'(?:[^'\\\n]|\\.)*'|"(?:[^"\\\n]|\\.)*")""", re.S)


def _balanced(text: str) -> bool:
    text = _STRING_LIT.sub("''", text)       # brackets inside string literals do not nest
    depth = 0
    for ch in text:
        if ch in "([{":
            depth += 1
        elif ch in ")]}":
            depth -= 1
            if depth < 0:
                return False
    return depth == 0


def _start_mechanisms(line: str, a, b, src_type_ctx=None) -> list[str] | None:
    """why the start columns of default (a) and native (b) differ; None = unexplained, [] = equal"""
    if a[1] == b[1]:
        return []
    lo, hi = a[1], b[1]
    if lo > hi:
        if re.match(r"^[+\-~]\s*$", line[hi:lo]):
            return ["unary-operator-in-annotation-span"]
        return None
    between = line[lo:hi]
    if line[lo:lo + 1] == "(" and set(between) <= set("( \t"):
        before = line[:lo].rstrip()[-1:]
        if hi == lo + 1 and (before.isalnum() or before in "_)]") and a[3] is not None and b[3] is not None and a[3] == b[3] + 1 and a[2] == b[2]:
            return ["generator-argument-span-includes-call-parentheses"]
        return ["parenthesised-operand-span"]
    if line[lo:lo + 1] == "{" and set(line[lo + 1:hi]) <= set("( \t"):
        return ["fstring-field-expression-start-column"]
    stripped = line.lstrip()
    if stripped.startswith("except") and lo == len(line) - len(stripped) and re.search(r"\bas\s+$", line[:hi]):
        return ["except-as-name-column"]
    if line[max(0, hi - 2):hi] == "**":
        return ["mapping-pattern-rest-column"]
    if stripped.startswith("except") and lo == len(line) - len(stripped) and re.match(r"^except\*?\s+\(?$", between):
        return ["except-type-expression-column"]
    if line[hi:hi + 3].lstrip("rRuUbBfF")[:1] in ("'", '"') and src_type_ctx is not None and src_type_ctx(hi):
        return ["quoted-annotation-start-column"]
    if between == "*" and stripped.startswith("case"):
        return ["starred-pattern-name-column"]
    if stripped.startswith("case") and re.search(r"\bas\s+$", line[:hi]) and lo >= len(line) - len(stripped):
        return ["as-pattern-name-column"]
    if re.match(r"^elif\s+$", between) and not line[:lo].strip():
        return ["elif-statement-start-column"]
    m = re.match(r"^(.*?)\b(and|or)\b[\s(]*$", between, re.S)
    if m:
        head = m.group(1)
        # the operands before the boundary, up to the parentheses that open the first one
        k = 0
        while not _balanced(head[k:]) and k < len(head) and head[k] in "( \t":
            k += 1
        if _balanced(head[k:]):
            mech = ["chained-boolean-operation-inner-span"]
            if set(between[m.end(2):]) & set("("):
                mech.append("parenthesised-operand-span")
            return mech
    return None


def _end_mechanisms(lines, line: str, a, b, start: list[str], src: str = "") -> list[str] | None:
    if (a[2], a[3]) == (b[2], b[3]):
        return []
    if None in (a[2], a[3], b[2], b[3]):
        return None
    if "except-type-expression-column" in start or "quoted-annotation-start-column" in start:
        return []            # keyword (no end) vs the expression; inside-the-string columns vs source columns
    if ("except-as-name-column" in start or "mapping-pattern-rest-column" in start or "as-pattern-name-column" in start) \
            and (b[2], b[3]) <= (a[2], a[3]):
        return []            # whole construct vs the name inside it
    if a[2] == a[0] and a[3] == a[1] + 1 and b[2] == b[0] and b[3] == b[1] + 1 and start:
        return []            # neither front end has an end here (a note): column+1 follows the start column
    if a[2] == a[0] and a[3] == a[1] + 1 and (b[2], b[3]) > (a[2], a[3]):
        why = no_end_reason(src, a[0], a[1]) or (no_end_reason(src, b[0], b[1]) if start else None)
        if why is not None:
            return [why]
    if a[2] == b[2] and 1 <= a[2] <= len(lines):
        eline = lines[a[2] - 1]
        if a[3] > b[3] and set(eline[b[3]:a[3]]) <= set(") \t") and ")" in eline[b[3]:a[3]]:
            if "generator-argument-span-includes-call-parentheses" in start:
                return []
            return ["parenthesised-operand-span"]
        if line[a[1]:a[1] + 4].lstrip("rRuUbBfF")[:1] in ("'", '"') and a[1] == b[1] and b[3] > a[3]:
            return ["quoted-annotation-end-position"]
    return None


EXPLAIN = {
    "default-reports-no-end-position": "a type expression: the default front end's TypeConverter sets no end (the clamp supplies column+1)",
    "default-reports-no-end-position-for-lambda": "a lambda: the default front end's visit_Lambda sets no end (the clamp supplies column+1)",
    "parenthesised-operand-span": "the default front end's span includes the parentheses around the first / last operand, the native one does not",
    "generator-argument-span-includes-call-parentheses": "generator expression as sole call argument: span with / without the call's parentheses",
    "fstring-field-expression-start-column": "expression of an f-string replacement field: the default front end starts at the `{`",
    "except-as-name-column": "error about the `as` name: except clause vs name",
    "mapping-pattern-rest-column": "`**rest` of a mapping pattern: pattern vs name",
    "quoted-annotation-end-position": "a string-quoted type: the default front end measures the end inside the string",
    "non-ascii-column-units": "the line contains non-ASCII characters before the position (bytes vs characters)",
    "except-type-expression-column": "error about the exception type of an `except T:` clause: keyword vs expression",
    "quoted-annotation-start-column": "a string-quoted type: the default front end reports columns measured inside the string's own parse",
    "starred-pattern-name-column": "error about the name bound by `*name` in a sequence pattern: star vs name",
    "as-pattern-name-column": "error about the name bound by `case P as name`: pattern vs name",
    "elif-statement-start-column": "the statement of an `elif` branch starts at the keyword (default) vs at its condition (native)",
    "unary-operator-in-annotation-span": "`x: + 2`: the default front end points at the operand, the native one at the unary expression",
    "chained-boolean-operation-inner-span": "`a and b and c`: the default front end gives the nested `b and c` the span of the whole chain, the native one its own",
}


def position_pair(lines, a, b, src: str = "") -> list[tuple[dict, str]]:
    """a = default's message, b = native's: same line / severity / text, different spans → the mechanisms."""
    line = lines[a[0] - 1] if 1 <= a[0] <= len(lines) else ""
    da = "%s:%s-%s:%s" % (a[0], a[1], a[2], a[3])
    db = "%s:%s-%s:%s" % (b[0], b[1], b[2], b[3])
    what = "position of %r differs: default %s, native %s (0-based columns)" % (a[5][:70], da, db)
    if a[5].startswith('Error code "') and 'not covered by "type: ignore' in a[5]:
        return [({"class": "derived-note"}, what)]
    if a[1] is None and b[1] is not None:
        return [({"class": "default-reports-no-column"}, what + " — the default front end has no column for this node")]
    span_lines = [lines[k - 1] for k in range(a[0], min((a[2] or a[0]), len(lines)) + 1) if 1 <= k <= len(lines)] or [line]
    cols = [c for c in (a[1], b[1]) if c is not None]
    nonascii = any(ord(ch) > 127 for ch in line[: (max(cols) if cols else 0) + 1]) or \
        any(ord(ch) > 127 for l in span_lines[1:] for ch in l) or \
        (len(span_lines) == 1 and any(ord(ch) > 127 for ch in line[: max([x for x in (a[3], b[3]) if x is not None] or [0])]))
    if nonascii:
        return [({"class": "non-ascii-column-units"}, what + " — " + EXPLAIN["non-ascii-column-units"])]
    if a[1] is None or b[1] is None:
        return [({"class": "diagnostics-differ", "kind": "position"}, what)]
    def in_type_ctx(col: int) -> bool:
        tc = type_contexts(src)
        return tc is not None and any(lo <= (a[0], col) < hi for lo, hi in tc[0])
    sm = _start_mechanisms(line, a, b, in_type_ctx)
    em = _end_mechanisms(lines, line, a, b, sm or [], src) if sm is not None else None
    if sm is None or em is None:
        return [({"class": "diagnostics-differ", "kind": "start-position" if sm is None else "end-position"}, what)]
    mechs = list(dict.fromkeys(sm + em))
    if not mechs:
        return []
    return [({"class": m}, what + " — " + EXPLAIN.get(m, m)) for m in mechs]


def leftover_line(lines, ln, ds, ns, src) -> tuple[dict, str]:
    line = lines[ln - 1] if 1 <= ln <= len(lines) else ""
    dt = [a[5] for a in ds]
    nt = [b[5] for b in ns]
    what = "line %d %r: only default %r; only native %r" % (ln, line[:80], dt[:3], nt[:3])
    if ds and ns and all(LITERAL_D.search(t) for t in dt) and all(LITERAL_N.search(t) for t in nt) and len(ds) == len(ns):
        return {"class": "float-complex-literal-type-message"}, what
    if ds and all(t.startswith("did you mean to use ',' instead of ':' ?") for t in dt) and not ns:
        return {"class": "slice-in-type-note-missing"}, what
    if ns and not ds and all(t == "Invalid type comment or annotation  [valid-type]" for t in nt) and BYTES_IN_INDEX.search(line):
        return {"class": "bytes-literal-as-forward-reference", "root": True}, what + " — a bytes literal used as a forward reference"
    if len(ds) == len(ns) and ds and all(re.match(r'Name "\w+" is not defined', t) for t in dt) and \
            all(t == "Invalid type comment or annotation  [valid-type]" for t in nt) and re.search(r"""['"]\w+['"]\s*\[""", line):
        return {"class": "subscripted-string-annotation-message"}, what + " — a string literal subscripted inside an annotation"
    if len(ds) == len(ns) and ds and all(re.match(r'Name "(None|True|False|\d[\w.]*)\.\w+" is not defined', t) for t in dt) and \
            all(t == "Invalid type comment or annotation  [valid-type]" for t in nt):
        return {"class": "attribute-of-constant-in-annotation-message"}, what + " — an attribute of a constant inside an annotation"
    if ds and all(t.startswith("Type variable must have at least two constrained types") for t in dt) and not ns:
        return {"class": "native-no-constrained-types-count-check", "root": True}, what
    dunder = re.compile(r'Unexpected keyword argument "(__\w*[A-Za-z0-9])" for ')
    if ds and not ns and all(dunder.search(t) and not dunder.search(t).group(1).endswith("__") for t in dt):
        return {"class": "native-dunder-name-not-positional-only", "root": True}, what
    strip_dunder = lambda t: re.sub(r"(\*{0,2})__\w*[A-Za-z0-9](?<!__): ", r"\1", t)
    if ds and len(ds) == len(ns) and sorted(dt) == sorted(strip_dunder(t) for t in nt) and dt != nt:
        return {"class": "native-dunder-name-not-positional-only", "root": True}, what + " — `__x` parameter names are elided only by the default front end"
    tag = _ignore_tag_on_line(line)
    if tag is None:
        # an ignore comment may sit on another line of the same statement: look at the lines the messages span
        for a in ds + ns:
            for k in range(a[0], (a[2] or a[0]) + 1):
                if 1 <= k <= len(lines) and _ignore_tag_on_line(lines[k - 1]) is not None:
                    tag = _ignore_tag_on_line(lines[k - 1])
    if tag is not None:
        from . import norm
        parsed = norm.real_tag(tag)
        if parsed is None:
            return {"class": "native-type-ignore-invalid-tag"}, what + " — the ignore tag %r is invalid for parse_type_ignore_tag" % tag
        if "#" in tag:
            return {"class": "native-type-ignore-comment-tail"}, what + " — the ignore comment is followed by another comment"
    return {"class": "diagnostics-differ", "kind": "messages"}, what


# ================================================================================================ the slice
def _diag_pair(ctx, src: str, flags: dict | None = None, ver=(3, 12)):
    """diagnostics of both front ends for a program (in-process)"""
    import os
    from . import diffwork
    base = os.path.join(ctx.tmp, "cache")
    os.makedirs(base, exist_ok=True)
    if diffwork._STATE.get("base") != base:
        diffwork.init_worker(base)
    from . import norm
    out = []
    with norm.quiet_stderr():
        for native in (False, True):
            out.append(diffwork.build_one(src, native, tuple(ver), diffwork._cache_for(native, tuple(ver)), flags))
    return out


def signature_case(ctx, s, src, m_def, m_nat, obs, reported: set) -> None:
    """obs[native] = ("ok", {"args":…, "names":…}, msgs) | ("blocked", msgs) | ("crash", text) | ("nofunc", msgs)"""
    exp = {False: m_def, True: m_nat}
    d, n = obs[False], obs[True]
    detail = {"signature_source": src, "signature": s, "model_default": m_def, "model_native": m_nat,
              "default": d, "native": n, "flags": {} if s["pos_only_special"] else {"pos_only_special_methods": False}}

    def rep(observed, what):
        k = observed["class"]
        ctx.count("disagreements_checked")
        if k in reported:
            return
        reported.add(k)
        ctx.report(observed, what, detail)

    syntax_malformed = s["malformed"] not in (None, "dup")
    if syntax_malformed:
        # no model statement: only the property's status clause
        if (d[0] == "blocked") != (n[0] == "blocked") or "crash" in (d[0], n[0]):
            rep({"class": "blocking-status-differs", "where": "malformed signature " + s["malformed"]},
                "malformed parameter list %r: default %s, native %s" % (src, d[0], n[0]))
        return
    dup = m_def["dup"]
    # ---- default front end against the model
    if dup is not None:
        name = m_def["args"][dup][0]
        ok_d = d[0] == "blocked" and any('Duplicate parameter "%s" in function definition' % name in m for m in d[1])
    else:
        ok_d = d[0] == "ok" and d[1]["args"] == m_def["args"] and (d[1]["names"] is None or d[1]["names"] == m_def["names"]) \
            and (d[1].get("item_names") is None or d[1]["item_names"] == m_def["names"])
        if d[0] == "ok" and d[1]["args"] == m_def["args"] and not ok_d:
            w = _witness(ctx, src, keyword_call=True)
            rep({"class": "callable-argument-names-differ-between-front-ends"},
                "%r: the default front end's Arguments are %r but its callable was built with arg_names %r / FuncItem.arg_names %r; "
                "model: %r%s" % (src, [a[:3] for a in d[1]["args"]], d[1]["names"], d[1].get("item_names"), m_def["names"], w))
            return
    if not ok_d:
        # search: is a clause of the property seen to fail?  — the two front ends on this very signature
        if d[0] == "crash":
            rep({"class": "default-front-end-crash"}, "default front end crashed on %r: %s" % (src, d[1]))
        elif dup is None and n[0] == "ok" and d[0] == "ok" and (d[1]["args"] != n[1]["args"]) and \
                not only_posonly_dunder(d[1]["args"], n[1]["args"]):
            w = _witness(ctx, src)
            rep({"class": "parameter-list-differs-between-front-ends"},
                "the two front ends build different parameter lists for %r: default %r, native %r%s"
                % (src, d[1]["args"], n[1]["args"], w))
        elif d[0] != n[0] and dup is None:
            rep({"class": "blocking-status-differs", "where": "signature"},
                "%r: default %s %r, native %s" % (src, d[0], d[1] if d[0] != "ok" else "", n[0]))
        elif "nfi" not in reported:
            reported.add("nfi")
            ctx.violation("signature correspondence broken (model ≠ default front end) for %r: impl %r, model %r"
                          % (src, d[1] if d[0] == "ok" else d, m_def),
                          {"broken": "correspondence Driver/C14 `args` vs fastparse.ASTConverter.transform_args / do_func_def / "
                                     "nodes.check_param_names (theorems names_exactly_once, kinds_canonical, defaults_right_aligned, "
                                     "pos_only_default, dup_none_iff_nodup speak about the model)", **detail}, found_input=False)
        return
    # ---- native front end against the model of what it delivers
    if not s["pos_only_special"]:
        return      # options.pos_only_special_methods is not consulted by the native reader; no configuration reaches it
    if n[0] == "crash":
        rep({"class": "native-front-end-crash", "where": "signature"}, "native front end crashed on %r: %s" % (src, n[1]))
        return
    if dup is not None:
        if n[0] != "blocked":
            rep({"class": "native-no-duplicate-parameter-check"},
                "%r: the default front end blocks with Duplicate parameter %r, the native front end accepts it"
                % (src, m_def["args"][dup][0]))
        return
    if n[0] != "ok":
        rep({"class": "blocking-status-differs", "where": "signature"}, "%r: default ok, native %s %r" % (src, n[0], n[1]))
        return
    names_ok_n = (n[1]["names"] is None or n[1]["names"] == m_nat["names"]) and \
        (n[1].get("item_names") is None or n[1]["item_names"] == m_nat["names"])
    if n[1]["args"] == m_nat["args"] and not names_ok_n:
        # the Arguments are right but the names the *callable* was built with are not (arg_names is computed when the
        # FuncDef / CallableType is constructed): the meaning of keyword calls differs
        w = _witness(ctx, src, keyword_call=True)
        rep({"class": "callable-argument-names-differ-between-front-ends"},
            "%r: the native front end's Arguments are %r but its callable was built with arg_names %r / FuncItem.arg_names %r; "
            "model and default front end: %r%s" % (src, [a[:3] for a in n[1]["args"]], n[1]["names"], n[1].get("item_names"),
                                                   m_nat["names"], w))
        return
    ok_n = n[1]["args"] == m_nat["args"] and names_ok_n
    if ok_n:
        if m_nat["args"] != m_def["args"]:
            # the modelled disagreement (not_parsers_agree_posonly): make it concrete on diagnostics once
            if "posonly-dunder" not in reported:
                w = _witness(ctx, "def f(*, __y: int) -> None: ...\nf(__y=1)\n", raw=True)
                rep({"class": "native-dunder-name-not-positional-only"},
                    "%r: a `__x`-named *args / keyword-only / **kwargs parameter is positional-only (name elided) for the default "
                    "front end and an ordinary one for the native front end%s" % (src, w))
                reported.add("posonly-dunder")
        return
    if only_posonly_dunder(m_nat["args"], n[1]["args"]) and n[1]["args"] == m_def["args"]:
        # the native front end now agrees with the default one where the model says it does not: the model of the
        # external writer is out of date, no clause of the property fails
        if "nfi-native" in reported:
            return
        reported.add("nfi-native")
        ctx.violation("model of the native front end out of date: %r now gives %r (model %r)" % (src, n[1]["args"], m_nat["args"]),
                      {"broken": "correspondence Driver/C14 `args` (native variant) vs nativeparse.read_parameters", **detail},
                      found_input=False)
        return
    w = _witness(ctx, src)
    rep({"class": "parameter-list-differs-between-front-ends"},
        "the native front end builds %r for %r, the default front end %r%s" % (n[1]["args"], src, d[1]["args"], w))


def only_posonly_dunder(a, b) -> bool:
    if len(a) != len(b):
        return False
    for x, y in zip(a, b):
        if x[:2] != y[:2] or x[3] != y[3]:
            return False
        if x[2] != y[2] and not (x[1] in (2, 3, 4, 5) and x[0].startswith("__") and not x[0].endswith("__")):
            return False
    return True


def _witness(ctx, src: str, raw: bool = False, keyword_call: bool = False) -> str:
    """diagnostics of both front ends on `reveal_type(<function>)` (+ a call passing every parameter by keyword) —
    the property's own oracle"""
    try:
        prog = src
        if not raw:
            m = re.search(r"def (\w+)\(([^)]*)\)", src, re.S)
            if src.startswith("L ="):
                target = "L"
            elif src.startswith("class K") and m:
                target = "K." + m.group(1)
            elif src.startswith("def outer") or not m:
                target = None
            else:
                target = m.group(1)
            if target:
                prog = src + "\nreveal_type(%s)\n" % target
                if keyword_call and m:
                    names = [p.strip().lstrip("*").split(":")[0].split("=")[0].strip() for p in m.group(2).split(",")]
                    names = [x for x in names if x and x not in ("/", "*") and x.isidentifier()]
                    prog += "%s(%s)\n" % (target, ", ".join("%s=1" % x for x in names))
        d, n = _diag_pair(ctx, prog)
        if d != n:
            od = [x for x in d[1] if x not in n[1]]
            on = [x for x in n[1] if x not in d[1]]
            return "; diagnostics of %r differ: only default %r, only native %r" % (prog[len(src):].strip() or prog, od[:3], on[:3])
        return "; (diagnostics of a reveal_type witness agree)"
    except Exception as e:  # the witness is an illustration, never the verdict
        return "; (witness build failed: %s)" % type(e).__name__


def tag_function_diff(ctx, tag, real, m) -> None:
    ctx.count("disagreements_checked")
    # search: does the changed tag parser make the two front ends disagree on a program?
    if tag is not None and "\n" not in tag and not tag[:1].isalnum() and tag[:1] != "_" and all(ord(c) < 128 for c in tag[:1]):
        src = "x: int = ''  # type: ignore" + tag + "\n"
        try:
            d, n = _diag_pair(ctx, src)
        except Exception:
            d = n = None
        if d is not None and d != n:
            ctx.report({"class": "type-ignore-differs-between-front-ends", "tag_model": "invalid" if m is None else "codes"},
                       "parse_type_ignore_tag(%r) = %r (model: %r) and the two front ends now disagree on %r: default %r, native %r"
                       % (tag, real, m, src, d[1][:3], n[1][:3]), {"tag": tag, "source": src, "version": [3, 12], "impl": real, "model": m})
            return
    ctx.violation("tag correspondence broken (model ≠ fastparse.parse_type_ignore_tag) for %r: impl %r, model %r" % (tag, real, m),
                  {"broken": "correspondence Driver/C14 `tag` vs fastparse.parse_type_ignore_tag (theorem parseTag_iff speaks about the model)",
                   "tag": tag, "impl": real, "model": m}, found_input=False)


def tag_e2e_case(ctx, tag: str, m, obs, reported: set) -> None:
    exp_ign = {1: m} if m is not None else {}
    exp_msgs = [] if m is not None else ['main.py:1: error: Invalid "type: ignore" comment  [syntax]']
    d, n = obs[False], obs[True]
    detail = {"tag": tag, "comment": "x = 1 # type: ignore" + tag, "model": m, "default": d, "native": n}

    def rep(observed, what):
        k = observed["class"]
        ctx.count("disagreements_checked")
        if k in reported:
            return
        reported.add(k)
        ctx.report(observed, what, detail)

    ok_d = d[0] == exp_ign and d[1] == exp_msgs and not d[2] and not d[3]
    ok_n = n[0] == exp_ign and n[1] == exp_msgs and not n[2] and not n[3]
    if not ok_d:
        if (d[0], d[1], d[2]) != (n[0], n[1], n[2]):
            rep({"class": "type-ignore-differs-between-front-ends", "tag_model": "invalid" if m is None else "codes"},
                "`# type: ignore%s`: default front end %r %r, native %r %r, model %r" % (tag, d[0], d[1], n[0], n[1], m))
        elif "nfi" not in reported:
            reported.add("nfi")
            ctx.violation("type-ignore correspondence broken (model ≠ default front end) for tag %r: impl %r %r, model %r" % (tag, d[0], d[1], m),
                          {"broken": "correspondence Driver/C14 `tag` vs ASTConverter.visit_Module / parse_type_ignore_tag", **detail},
                          found_input=False)
        return
    if ok_n:
        return
    if n[3]:
        rep({"class": "native-front-end-crash", "where": "type: ignore comment"}, "native front end crashed on `# type: ignore%s`: %s" % (tag, n[3]))
    elif m is None:
        rep({"class": "native-type-ignore-invalid-tag"},
            "`# type: ignore%s` is invalid (parse_type_ignore_tag → None, default front end: %r); native front end: ignored_lines %r, messages %r"
            % (tag, d[1], n[0], n[1]))
    elif "#" in tag:
        rep({"class": "native-type-ignore-comment-tail"},
            "`# type: ignore%s`: default front end ignores %r, native front end %r (a comment after the ignore)" % (tag, d[0], n[0]))
    else:
        rep({"class": "type-ignore-differs-between-front-ends", "tag_model": "codes"},
            "well-formed `# type: ignore%s`: default front end %r, native %r %r" % (tag, d[0], n[0], n[1]))


def module_ignore_case(ctx, src: str, desc: dict, m: dict, obs: dict, reported: set) -> None:
    """m: the model's verdict; obs[native] = families.real_module_ignore(...)"""
    from . import families
    exp = {"whole": m["whole"], "ignores": {int(l): cs for l, cs in m["ignores"]}, "msgs": families.expected_messages(m)}
    d, n = obs[False], obs[True]
    detail = {"placement_source": src, "family": desc, "model": m, "default": d, "native": n}

    def rep(observed, what):
        k = observed["class"]
        ctx.count("disagreements_checked")
        if k in reported:
            return
        reported.add(k)
        ctx.report(observed, what, detail)

    def view(o):
        return None if o.get("crash") or o.get("blocked") else {"whole": o["whole"], "ignores": o["ignores"], "msgs": o["msgs"]}
    vd, vn = view(d), view(n)
    if vd != exp:
        # search: the property's oracle — do the two front ends now treat this file differently?
        if vd is None or vn is None or vd["whole"] != vn["whole"] or vd["msgs"] != vn["msgs"]:
            w = ""
            try:
                dd, nn = _diag_pair(ctx, src)
                if dd != nn:
                    w = "; diagnostics: default %r, native %r" % (dd[1][:4], nn[1][:4])
            except Exception:
                pass
            rep({"class": "module-level-ignore-differs-between-front-ends"},
                "%r: default front end %r, native front end %r; the rule (a `# type: ignore` before the first statement, a decorated "
                "definition starting at its first decorator) says %r%s" % (src[:160], vd, vn, exp, w))
        elif "nfi" not in reported:
            reported.add("nfi")
            ctx.violation("module-level-ignore correspondence broken (model ≠ default front end) for %r: impl %r, model %r" % (src[:160], vd, exp),
                          {"broken": "correspondence Driver/C14 `modign` vs ASTConverter.visit_Module / translate_stmt_list / get_lineno "
                                     "(theorems module_ignore_iff, decorator_line_ignore_is_line_level)", **detail}, found_input=False)
        return
    if vn == exp:
        return
    if vn is None:
        rep({"class": "native-front-end-crash", "where": "type: ignore placement"}, "native front end: %r on %r" % (n, src[:160]))
        return
    first_line = None
    inp = families.module_ignore_input(src)
    if inp and inp[1]:
        first_line = inp[1][1] or inp[1][0]
    if vn["whole"] and exp["whole"] and vn["msgs"] == exp["msgs"] and \
            all(exp["ignores"].get(l) == cs for l, cs in vn["ignores"].items()):
        rep({"class": "native-drops-line-ignores-of-ignored-module"},
            "%r: the whole module is ignored by both; the other `# type: ignore` comments of the file stay line-level ignores for the "
            "default front end (%r; only the first one before the first statement is consumed) and are dropped by the native one (%r) "
            "— visible with --warn-unused-ignores for those before the first statement" % (src[:160], exp["ignores"], vn["ignores"]))
        return
    if m["invalid"] or any("#" in (t or "") for _, t in (inp[0] if inp else [])):
        cls = "native-type-ignore-invalid-tag" if m["invalid"] else "native-type-ignore-comment-tail"
        rep({"class": cls}, "%r: default front end %r, native %r" % (src[:160], vd, vn))
        return
    rep({"class": "module-level-ignore-differs-between-front-ends"},
        "%r: default front end (= the rule) %r, native front end %r" % (src[:160], vd, vn))


def _lines_in_strings(source: str):
    """1-based line numbers that lie inside a multi-line string token; None when the text does not tokenize."""
    try:
        toks = list(tokenize.generate_tokens(io.StringIO(source).readline))
    except (tokenize.TokenError, IndentationError, SyntaxError):
        return None
    inside = set()
    for t in toks:
        if t.type == tokenize.STRING or getattr(tokenize, "FSTRING_MIDDLE", -1) == t.type:
            for ln in range(t.start[0] + 1, t.end[0] + 1):
                inside.add(ln)
            if t.start[1] > 0 or t.type != tokenize.STRING:
                pass
    return inside


def cfg_case(ctx, source: str, m, real, nat, reported: set) -> None:
    detail = {"cfg_source": source, "model": m, "get_mypy_comments": real, "native": nat}

    def rep(observed, what):
        k = observed["class"]
        ctx.count("disagreements_checked")
        if k in reported:
            return
        reported.add(k)
        ctx.report(observed, what, detail)

    canon = lambda l: [[a, b.strip()] for a, b in l if b.strip()]
    if real != m:
        if isinstance(nat, list) and canon(real) != canon(nat) and _lines_in_strings(source) == set():
            rep({"class": "inline-config-comments-differ-between-front-ends"},
                "get_mypy_comments(%r) = %r, native front end %r, model %r" % (source, real, nat, m))
        elif "nfi" not in reported:
            reported.add("nfi")
            ctx.violation("inline-config correspondence broken (model ≠ util.get_mypy_comments) for %r: impl %r, model %r" % (source, real, m),
                          {"broken": "correspondence Driver/C14 `cfg` vs mypy.util.get_mypy_comments (theorem mypyComments_iff)", **detail},
                          found_input=False)
        return
    if not isinstance(nat, list):
        rep({"class": "native-front-end-crash", "where": "inline config"}, "native front end: %s on %r" % (nat, source))
        return
    # the native collector strips the text and drops empty comments: neither changes what parse_mypy_comments reads
    if canon(nat) == canon(m):
        return
    inside = _lines_in_strings(source)
    if inside is None:
        return          # the file does not tokenize: both front ends reject it, the comments are never applied
    expect = [e for e in canon(m) if e[0] not in inside]
    if canon(nat) == expect:
        rep({"class": "inline-config-comment-inside-string-literal"},
            "a line starting with `# mypy: ` inside a multi-line string is configuration for the default front end "
            "(text scan: %r) and not for the native one (%r): %r" % (m, nat, source))
    else:
        rep({"class": "inline-config-comments-differ-between-front-ends"},
            "`# mypy:` comments of %r: default %r, native %r" % (source, m, nat))
