"""Random program generator for the C14 differential.

Programs are syntactically valid for the requested target version (and readable by the host interpreter's
`ast`), cover the statement / expression forms of the language in unusual layouts, and are full of places
where mypy says something (`reveal_type(<expr>)` notes carry the span of every expression form; operands of
the wrong type, undefined names, bad calls and bad annotations give errors on every kind of node).
"""
from __future__ import annotations

import sys

HOST = sys.version_info[:2]

NAMES_INT = ["i", "j", "n"]
NAMES_STR = ["s", "t"]
NAMES_LIST = ["xs", "ys"]
NAMES_DICT = ["d"]
NAMES_OBJ = ["c", "k"]
UNICODE_NAMES = ["é", "naïve", "名前", "ß"]
UNDEFINED = ["undefined_name", "nope", "Zed"]

PREAMBLE = """\
import contextlib
import dataclasses
from typing import Any, Callable, Dict, Generic, Iterator, List, Optional, Tuple, TypeVar, Union, overload
T = TypeVar("T")
i: int = 0
j: int = 1
n: int = 2
s: str = ""
t: str = "t"
xs: List[int] = []
ys: List[str] = []
d: Dict[str, int] = {}
é: int = 3
naïve: str = "ï"
名前: List[int] = []
ß: float = 1.0
class C:
    attr: int = 0
    name: str = ""
    def meth(self, a: int, b: str = "") -> int: return a
    def __enter__(self) -> "C": return self
    def __exit__(self, *a: object) -> None: ...
    async def __aenter__(self) -> "C": return self
    async def __aexit__(self, *a: object) -> None: ...
    def __iter__(self) -> Iterator[int]: return iter([1])
    def __aiter__(self) -> "C": return self
    async def __anext__(self) -> int: return 1
c = C()
k = C()
def fn(a: int, b: str = "", *rest: int, key: int = 0, **kw: str) -> int: return a
async def coro(a: int) -> str: return ""
def deco(f: T) -> T: return f
def deco_arg(x: int) -> Callable[[T], T]: return deco
"""


class Gen:
    def __init__(self, rng, ver: tuple[int, int]):
        self.rng = rng
        self.ver = ver
        self.features: set[str] = set()
        self.uid = 0

    # ----------------------------------------------------------------------------------- helpers
    def ok(self, minver: tuple[int, int]) -> bool:
        return self.ver >= minver and HOST >= minver

    def fresh(self, base: str = "v") -> str:
        self.uid += 1
        return f"{base}{self.uid}"

    def ch(self, xs):
        return self.rng.choice(xs)

    def p(self, x: float) -> bool:
        return self.rng.random() < x

    # ----------------------------------------------------------------------------------- expressions
    def atom(self) -> str:
        r = self.rng.random()
        if r < 0.22:
            return self.ch(NAMES_INT + NAMES_STR + NAMES_LIST + NAMES_DICT + NAMES_OBJ)
        if r < 0.235:
            self.features.add("unicode-name")
            return self.ch(UNICODE_NAMES)
        if r < 0.30:
            return self.ch(NAMES_INT + NAMES_STR + NAMES_LIST)
        if r < 0.34:
            return self.ch(UNDEFINED)
        if r < 0.50:
            return self.ch(["0", "1", "42", "0x1F", "0o17", "0b101", "1_000", "1.5", "1e3", ".5", "2j", "1_0.0_1e-1_0"])
        if r < 0.66:
            return self.string()
        if r < 0.72:
            return self.ch(["None", "True", "False", "...", "__name__"])
        if r < 0.80:
            return "(" + self.expr(1) + ")"
        if r < 0.9:
            return self.fstring()
        return self.ch(["[]", "{}", "()", "b'by'", "rb'\\d'", "Br'x'"])

    def string(self) -> str:
        self.features.add("string")
        if self.p(0.06):
            self.features.add("unicode-string")
            return self.ch(["'é'", "'日本語'"])
        return self.ch(["'a'", '"b"', "'''tri'''", '"""q"""', "r'\\n'", "'\\u00e9\\n'", "'a' 'b'", "'a' \"b\" 'c'",
                        "u'u'", "''", "'\\N{BULLET}'", "'x' f'{i}'", "'a\\\n b'"])

    def fstring(self) -> str:
        self.features.add("fstring")
        inner = self.ch(["i", "s", "i + 1", "c.attr", "xs[0]", "s!r", "i:>{j}", "i:03d", "s!s:>10", "i=", "i + j = ",
                         "({'a': 1})['a']", "(lambda: 1)()", "i if j else n", "é", "undefined_name", "i + s", "fn(s)"])
        if self.ok((3, 12)) and self.p(0.3):
            self.features.add("fstring-312")
            inner = self.ch(['"nested" + s', "f'{i}'", 'd["k"]', "s + '}'"])
            return 'f"a{' + inner + '}b"'
        q = self.ch(['"', "'", '"""'])
        if q in inner:
            q = "'" if q != "'" and "'" not in inner else '"""'
        if q in inner or (q == '"""' and '"' in inner):
            inner = "i"
        pre = self.ch(["f", "F", "rf", "fr"])
        return f"{pre}{q}pre {{{{ {{{inner}}} post{q}"

    # precedence levels: 0 ifexp/lambda, 1 or, 2 and, 3 not, 4 compare, 5 |, 6 ^, 7 &, 8 shift, 9 + -,
    # 10 * / // % @, 11 unary, 12 **, 14 atom / call / subscript / attribute
    BINOPS = {"|": 5, "^": 6, "&": 7, "<<": 8, ">>": 8, "+": 9, "-": 9, "*": 10, "/": 10, "//": 10, "%": 10, "@": 10}

    def expr(self, depth: int = 0, minprec: int = 0) -> str:
        text, prec = self._expr(depth)
        if prec < minprec:
            return "(" + text + ")"
        return text

    def _expr(self, depth: int) -> tuple[str, int]:
        if depth > 3 or self.p(0.25 + 0.1 * depth):
            return self.atom(), 14
        r = self.rng.random()
        e = lambda m=0: self.expr(depth + 1, m)
        if r < 0.18:
            self.features.add("binop")
            if self.p(0.12):
                return f"{e(13)} ** {e(11)}", 12
            op = self.ch(list(self.BINOPS))
            pr = self.BINOPS[op]
            return f"{e(pr)} {op} {e(pr + 1)}", pr
        if r < 0.24:
            self.features.add("unary")
            if self.p(0.3):
                return "not " + e(3), 3
            return self.ch(["-", "+", "~"]) + e(11), 11
        if r < 0.31:
            self.features.add("boolop")
            if self.p(0.5):
                return f"{e(2)} and {e(3)}" + (f" and {e(3)}" if self.p(0.3) else ""), 2
            return f"{e(1)} or {e(2)}" + (f" or {e(2)}" if self.p(0.3) else ""), 1
        if r < 0.39:
            self.features.add("compare")
            ops = ["<", "<=", "==", "!=", ">", ">=", "is", "is not", "in", "not in"]
            out = e(5)
            for _ in range(self.ch([1, 1, 2, 3])):
                out += f" {self.ch(ops)} {e(5)}"
            return out, 4
        if r < 0.50:
            self.features.add("call")
            f = self.ch(["fn", "c.meth", "len", "str", "int", "C", "undefined_name", "coro", "print", "(lambda q: q)", "xs.append"])
            pos, kws = [], []
            for _ in range(self.ch([0, 1, 1, 2, 3])):
                a = self.rng.random()
                if a < 0.6:
                    pos.append(e())
                elif a < 0.8:
                    kws.append(f"{self.ch(['key', 'b', 'a', 'zzz'])}={e()}")
                elif a < 0.9:
                    pos.append("*" + self.ch(["xs", "ys", "(1, 2)"]))
                else:
                    kws.append("**" + self.ch(["d", "{'b': ''}"]))
            seen = set()
            kws = [k for k in kws if not (k.split("=")[0] in seen or seen.add(k.split("=")[0]))]
            return f"{f}({', '.join(pos + kws)}{',' if (pos or kws) and self.p(0.15) else ''})", 14
        if r < 0.56:
            self.features.add("attribute")
            return f"{self.ch(['c', 'k', 's', 'xs', 'C', 'c.meth', '(1).real', 'd'])}.{self.ch(['attr', 'name', 'meth', 'upper', 'nothing', 'append', '__class__'])}", 14
        if r < 0.64:
            self.features.add("subscript")
            base = self.ch(["xs", "ys", "d", "s", "名前", "c", "(1, 'a')"])
            idx = self.ch(["0", "-1", "i", "'k'", "s", "1:2", ":", "::2", "i:j:n", "1:", ":-1", "0, 1", "..., 0", "i:j, ::2", e()])
            return f"{base}[{idx}]", 14
        if r < 0.69:
            self.features.add("ifexp")
            return f"{e(1)} if {e(1)} else {e()}", 0
        if r < 0.73:
            self.features.add("lambda")
            params = self.ch(["", "q", "q, w=1", "*a, **k", "q, /, w, *, z=2", "__m"])
            return f"(lambda {params}: {e()})", 14
        if r < 0.81:
            self.features.add("display")
            k = self.ch(["list", "tuple", "set", "dict", "star"])
            items = [e() for _ in range(self.ch([1, 2, 3]))]
            tc = "," if self.p(0.2) else ""
            if k == "list":
                return "[" + ", ".join(items) + tc + "]", 14
            if k == "tuple":
                return "(" + ", ".join(items) + ("," if len(items) == 1 else tc) + ")", 14
            if k == "set":
                return "{" + ", ".join(items) + tc + "}", 14
            if k == "dict":
                return "{" + ", ".join(f"{self.string()}: {x}" for x in items) + (", **d" if self.p(0.3) else "") + tc + "}", 14
            return "[*xs, " + ", ".join(items) + ", *ys]", 14
        if r < 0.90:
            self.features.add("comprehension")
            v = self.fresh("q")
            src = self.ch(["xs", "ys", "range(3)", "d.items()", "c", "名前", "undefined_name", "s"])
            cond = f" if {e(1)}" if self.p(0.4) else ""
            nest = f" for {self.fresh('w')} in {self.ch(['xs', 'range(2)'])}" if self.p(0.2) else ""
            k = self.ch(["list", "set", "dict", "gen"])
            body = self.ch([v, f"{v} + 1", f"str({v})", e()])
            if k == "list":
                return f"[{body} for {v} in {src}{cond}{nest}]", 14
            if k == "set":
                return f"{{{body} for {v} in {src}{cond}{nest}}}", 14
            if k == "dict":
                return f"{{{v}: {body} for {v} in {src}{cond}{nest}}}", 14
            return f"list({body} for {v} in {src}{cond}{nest})", 14
        if r < 0.94:
            self.features.add("walrus")
            return f"({self.fresh('w')} := {e()})", 14
        self.features.add("starred-call")
        return f"fn(*{self.ch(['xs', '[1, 2]'])}, **{self.ch(['d', '{}'])})", 14

    def layout_expr(self, e: str) -> str:
        """Wrap an expression in an unusual but valid layout."""
        r = self.rng.random()
        if r < 0.6 or "\n" in e:
            return e
        self.features.add("layout")
        if r < 0.75:
            return "(\n    " + e + "\n)"
        if r < 0.85:
            return "(  # comment\n    " + e + "  # trailing\n    )"
        if " + " in e and '"' not in e and "'" not in e:
            return e.replace(" + ", " \\\n    + ", 1)
        return "( " + e + " )"

    def annotation(self) -> str:
        self.features.add("annotation")
        return self.ch(["int", "str", "List[int]", "Optional[int]", "Dict[str, int]", "Tuple[int, ...]", "Union[int, str]",
                        "'C'", "C", "Callable[[int], str]", "Callable[..., Any]", "undefined_name", "Zed.y", "'Li' 'st'",
                        "List[undefined_name]", "int | None", "1 + 2", "List[int, str]", "Tuple[()]", "type", "object",
                        "'List[int]'", "Any", "[int]", "fn(1)", "c.attr", "List", "'1 + 2'", "Optional['C']"])

    # ----------------------------------------------------------------------------------- statements
    def reveal(self) -> str:
        return f"reveal_type({self.layout_expr(self.expr())})"

    def simple_stmt(self) -> str:
        r = self.rng.random()
        if r < 0.30:
            return self.reveal()
        if r < 0.42:
            self.features.add("assign")
            tgt = self.ch([self.fresh(), "i", "s", "c.attr", "xs[0]", "d['k']", f"{self.fresh()}, {self.fresh()}",
                           f"[{self.fresh()}, *{self.fresh()}]", f"{self.fresh()} = {self.fresh()}", "(i)", "c.nothing", "é"])
            return f"{tgt} = {self.layout_expr(self.expr())}"
        if r < 0.50:
            self.features.add("annassign")
            if self.p(0.25):
                return f"{self.fresh()}: {self.annotation()}"
            return f"{self.fresh()}: {self.annotation()} = {self.expr()}"
        if r < 0.56:
            self.features.add("augassign")
            return f"{self.ch(['i', 's', 'c.attr', 'xs[0]', 'xs', 'é'])} {self.ch(['+=', '-=', '*=', '//=', '|=', '@=', '**=', '>>='])} {self.expr()}"
        if r < 0.62:
            return self.expr()
        if r < 0.66:
            self.features.add("assert")
            return f"assert {self.expr()}" + (f", {self.expr()}" if self.p(0.4) else "")
        if r < 0.70:
            self.features.add("del")
            return f"del {self.ch(['xs[0]', 'd[s]', 'c.attr', 'undefined_name'])}"
        if r < 0.76:
            self.features.add("import")
            return self.ch(["import os", "import os.path as osp", "from os import path, sep as SEP", "from typing import (\n    Set,\n    FrozenSet,\n)",
                            "import nonexistent_module_xyz", "from os import *", "import sys, re",
                            "from collections import abc as A, nothing_here"])
        if r < 0.80:
            self.features.add("raise")
            return self.ch(["raise ValueError(s)", "raise", f"raise KeyError({self.expr()}) from None", "raise undefined_name", "raise C()"])
        if r < 0.84:
            return "pass"
        if r < 0.88 and self.ok((3, 12)):
            self.features.add("type-alias-stmt")
            return self.ch([f"type {self.fresh('A')} = {self.annotation()}", f"type {self.fresh('A')}[Q] = List[Q]",
                            f"type {self.fresh('A')}[*Ts, **P] = Callable[P, Tuple[*Ts]]", f"type {self.fresh('A')}[Q: int] = Q | None"])
        if r < 0.92:
            self.features.add("global")
            return "global i"
        return f"{self.reveal()}; {self.reveal()}"

    def block(self, depth: int, ctx: str, n: int | None = None) -> list[str]:
        out: list[str] = []
        for _ in range(n if n is not None else self.ch([1, 1, 2, 3])):
            out += self.stmt(depth, ctx)
        return out

    def indent(self, lines: list[str], unit: str) -> list[str]:
        res = []
        for l in lines:
            res += [(unit + x) if x.strip() else x for x in l.split("\n")] if not self._has_multiline_string(l) else [unit + l]
        return res

    @staticmethod
    def _has_multiline_string(l: str) -> bool:
        return ("'''" in l or '"""' in l or "\\\n" in l) and "\n" in l

    def stmt(self, depth: int, ctx: str) -> list[str]:
        """ctx: 'mod' | 'func' | 'async' | 'class' | 'loop-*' (loop inside the given kind)"""
        infunc = "func" in ctx or "async" in ctx
        inasync = "async" in ctx
        inloop = ctx.startswith("loop")
        unit = self.ch(["    ", "    ", "  ", "\t", "        "])
        if depth > 2 or self.p(0.45):
            s = self.simple_stmt()
            if infunc and self.p(0.15):
                self.features.add("return/yield")
                s = self.ch([f"return {self.expr()}", "return", f"yield {self.expr()}", f"{self.fresh()} = yield", "yield from xs"] +
                            ([f"await coro({self.expr()})", f"reveal_type(await coro(i))"] if inasync else []))
                if s.startswith("yield from") and inasync:
                    s = "yield 1"
            elif inloop and self.p(0.15):
                s = self.ch(["break", "continue"])
            elif infunc and s == "global i":
                s = self.ch(["global i", "nonlocal_placeholder = 1"])
            if s == "global i" and not infunc:
                s = "pass"
            if s.startswith("from os import *") and ctx != "mod":
                s = "import os"
            if self.p(0.12):
                self.features.add("type-ignore")
                tag = self.ch(["", "[misc]", "[operator, arg-type]", "[name-defined]", " # because", "[attr-defined] # why"])
                last = s.split("\n")[-1]
                if "#" not in last and "\\" not in s and "'''" not in s and '"""' not in s:
                    s = s + "  # type: ignore" + tag
            return [s]
        r = self.rng.random()
        sub = ctx if not inloop else ctx
        body = lambda c=None, n=None: self.indent(self.block(depth + 1, c or sub, n), unit)
        loopctx = "loop-" + ctx.replace("loop-", "")
        if r < 0.16:
            self.features.add("if")
            out = [f"if {self.layout_expr(self.expr())}:"] + body()
            for _ in range(self.ch([0, 0, 1, 2])):
                out += [f"elif {self.expr()}:"] + body()
            if self.p(0.5):
                out += ["else:"] + body()
            return out
        if r < 0.26:
            self.features.add("for")
            tgt = self.ch([self.fresh("e"), f"{self.fresh('e')}, {self.fresh('e')}", f"({self.fresh('e')}, *{self.fresh('e')})", "c.attr", "xs[0]"])
            it = self.ch(["xs", "ys", "range(n)", "d.items()", "enumerate(xs)", "c", "undefined_name", "s", "zip(xs, ys)"])
            head = "for"
            if inasync and self.p(0.6):
                self.features.add("async-for")
                head, it = "async for", "c"
            out = [f"{head} {tgt} in {it}:"] + body(loopctx)
            if self.p(0.25):
                out += ["else:"] + body()
            return out
        if r < 0.32:
            self.features.add("while")
            out = [f"while {self.expr()}:"] + body(loopctx)
            if self.p(0.25):
                out += ["else:"] + body()
            return out
        if r < 0.42:
            self.features.add("with")
            items = [self.ch(["c", "C()", "open(s)", "contextlib.suppress(ValueError)", "undefined_name", "k"]) +
                     (f" as {self.fresh('m')}" if self.p(0.6) else "") for _ in range(self.ch([1, 1, 2, 3]))]
            head = "with"
            if inasync and self.p(0.6):
                self.features.add("async-with")
                head = "async with"
                items = ["c" + (f" as {self.fresh('m')}" if self.p(0.6) else "")]
            if len(items) > 1 and self.p(0.5):
                self.features.add("paren-with")
                return [f"{head} (", *[unit + it + "," for it in items], "):"] + body()
            return [f"{head} {', '.join(items)}:"] + body()
        if r < 0.52:
            self.features.add("try")
            out = ["try:"] + body()
            star = self.ok((3, 11)) and self.p(0.3)
            if star:
                self.features.add("except-star")
            kinds = self.ch([["ValueError"], ["(KeyError, TypeError)", "Exception"], [""], ["undefined_name"]])
            fin = self.p(0.3)
            if not fin or self.p(0.8):
                for kd in kinds:
                    if star and not kd:
                        kd = "Exception"
                    asn = f" as {self.fresh('ex')}" if kd and self.p(0.5) else ""
                    out += [f"except{'*' if star else ''}{(' ' + kd) if kd else ''}{asn}:"] + body()
                if self.p(0.3):
                    out += ["else:"] + body()
            else:
                fin = True
            if fin:
                out += ["finally:"] + body()
            return out
        if r < 0.72:
            return self.funcdef(depth, ctx, unit)
        if r < 0.84 and not infunc:
            return self.classdef(depth, unit)
        if r < 0.96 and self.ok((3, 10)):
            return self.match_stmt(depth, ctx, unit)
        return [self.simple_stmt()]

    def params(self) -> str:
        r = self.rng.random()
        self.features.add("params")
        ann = lambda: (": " + self.annotation()) if self.p(0.6) else ""
        if r < 0.15:
            return ""
        if r < 0.35:
            return f"a{ann()}, b{ann()} = {self.expr(2)}"
        if r < 0.5:
            return f"a{ann()}, /, b{ann()}, *, kw{ann()} = {self.atom()}"
        if r < 0.65:
            return f"*args{ann()}, **kwargs{ann()}"
        if r < 0.8:
            return f"a{ann()},\n    b{ann()} = 1,  # comment\n    *rest{ann()},\n    key{ann()},\n    **kw{ann()},\n"
        if r < 0.9:
            return f"__a{ann()}, __b__{ann()}, c{ann()} = None"
        return f"a, b=1, *, c, d=2"

    def funcdef(self, depth: int, ctx: str, unit: str) -> list[str]:
        self.features.add("def")
        out = []
        for _ in range(self.ch([0, 0, 0, 1, 2])):
            self.features.add("decorator")
            out.append("@" + self.ch(["deco", "deco_arg(1)", "deco_arg(\n    1\n)", "contextlib.contextmanager", "undefined_name", "staticmethod", "property"]))
        is_async = self.p(0.4)
        name = self.fresh("f")
        if ctx == "class" and self.p(0.4):
            name = self.ch(["__add__", "__eq__", "__getitem__", "__init__", "__call__", "__lt__"])
        tparams = ""
        if self.ok((3, 12)) and self.p(0.25):
            self.features.add("pep695-def")
            tparams = self.ch(["[Q]", "[Q: int]", "[Q: (int, str)]", "[*Ts]", "[**P]", "[Q, R: str]"])
        ps = self.params()
        if ctx == "class":
            ps = "self" + (", " + ps if ps else "")
        ret = (" -> " + self.annotation()) if self.p(0.6) else ""
        out.append(f"{'async ' if is_async else ''}def {name}{tparams}({ps}){ret}:")
        inner = "async" if is_async else "func"
        if self.p(0.15):
            self.features.add("docstring")
            out += self.indent([self.ch(['"""Doc."""', "'doc'", '"""Multi\nline\n"""'])], unit)
        out += self.indent(self.block(depth + 1, inner), unit)
        return out

    def classdef(self, depth: int, unit: str) -> list[str]:
        self.features.add("class")
        out = []
        if self.p(0.25):
            self.features.add("decorator")
            out.append("@" + self.ch(["dataclasses.dataclass", "deco", "dataclasses.dataclass(frozen=True)", "undefined_name"]))
        name = self.fresh("K")
        tparams = ""
        if self.ok((3, 12)) and self.p(0.25):
            self.features.add("pep695-class")
            tparams = self.ch(["[Q]", "[Q: int, R]", "[*Ts]"])
        bases = self.ch(["", "", "(C)", "(C, metaclass=type)", "(Generic[T])", "(undefined_name)", "(C,)", "(\n    C,\n)", "(List[int])", "()"])
        if tparams and "Generic" in bases:
            bases = ""
        out.append(f"class {name}{tparams}{bases}:")
        body: list[str] = []
        for _ in range(self.ch([1, 2, 3])):
            r = self.rng.random()
            if r < 0.5:
                body += self.funcdef(depth + 1, "class", self.ch(["    ", "  ", "\t"]))
            elif r < 0.8:
                body.append(f"{self.fresh('m')}: {self.annotation()}" + (f" = {self.expr(2)}" if self.p(0.5) else ""))
            else:
                body.append(self.simple_stmt() if self.p(0.5) else "pass")
        body = [b if not b.startswith("global") else "pass" for b in body]
        out += self.indent(body, unit)
        return out

    def pattern(self, depth: int = 0, closed: bool = False) -> str:
        """closed: the result must be usable as an alternative of an or-pattern / the left side of `as`."""
        text, kind = self._pattern(depth)
        if closed and kind in ("or", "as"):
            return "(" + text + ")"
        return text

    def _pattern(self, depth: int) -> tuple[str, str]:
        r = self.rng.random()
        if depth > 2 or r < 0.3:
            return self.ch(["1", "'a'", "None", "True", "_", self.fresh("p"), "-1", "1 + 2j", "C.attr", "b'x'"]), "atom"
        p = lambda closed=False: self.pattern(depth + 1, closed)
        if r < 0.42:
            return (f"[{p()}, {p()}]" if self.p(0.5) else f"({p()}, *{self.ch(['_', self.fresh('r')])})"), "atom"
        if r < 0.54:
            return "{" + f"'k': {p()}" + (f", **{self.fresh('r')}" if self.p(0.4) else "") + "}", "atom"
        if r < 0.68:
            return self.ch(["C()", f"C(attr={p()})", f"int({self.fresh('p')})", "str()", f"C(attr=1, name={p()})", "undefined_name()"]), "atom"
        if r < 0.8:
            return (f"{p(True)} | {p(True)}" if depth else f"1 | 2 | {self.ch(['3', 'None'])}"), "or"
        if r < 0.9:
            return f"{p(True)} as {self.fresh('a')}", "as"
        return f"[{p()}]", "atom"

    def match_stmt(self, depth: int, ctx: str, unit: str) -> list[str]:
        self.features.add("match")
        subj = self.ch(["i", "s", "xs", "c", "d", "(i, s)", self.expr(2), "undefined_name"])
        out = [f"match {subj}:"]
        cases: list[str] = []
        for _ in range(self.ch([1, 2, 3])):
            guard = f" if {self.expr(2)}" if self.p(0.3) else ""
            cases += [f"case {self.pattern()}{guard}:"] + self.indent(self.block(depth + 1, ctx, 1), unit)
        if self.p(0.4):
            cases += ["case _:"] + self.indent(["pass"], unit)
        out += self.indent(cases, unit)
        return out

    # ----------------------------------------------------------------------------------- programs
    def program(self) -> str:
        lines: list[str] = []
        if self.p(0.2):
            self.features.add("inline-config")
            lines.append(self.ch(["# mypy: disallow-untyped-defs", "# mypy: no-strict-optional", "# mypy: warn-unreachable, disallow-any-expr",
                                  "# mypy: disable-error-code=\"name-defined\"", "# mypy: allow-redefinition",
                                  "# mypy: no-implicit-optional", "# mypy: implicit-optional", "# mypy: warn-unused-ignores"]))
        if self.p(0.1):
            lines.append(self.ch(["# -*- coding: utf-8 -*-", "#!/usr/bin/env python", '"""Module docstring."""', "from __future__ import annotations"]))
        if lines and lines[-1].startswith("from __future__"):
            lines = [lines[-1]] + lines[:-1] if not lines[0].startswith("# mypy") else lines
        lines.append(PREAMBLE.rstrip("\n"))
        for _ in range(self.ch([2, 3, 4, 5, 6])):
            if self.p(0.2):
                lines.append(self.ch(["", "# a comment", "", "    # indented comment", "#", "\x0c"]))
            lines += self.stmt(0, "mod")
        src = "\n".join(lines)
        r = self.rng.random()
        if r < 0.85:
            src += "\n"
        elif r < 0.92:
            src += "\n\n\n"
        elif r < 0.96:
            src += "\n# last comment without newline"
        return src


def host_can_parse(src: str, ver: tuple[int, int]) -> bool:
    import ast
    import warnings
    try:
        with warnings.catch_warnings():
            warnings.simplefilter("ignore")
            ast.parse(src, feature_version=min(tuple(ver), HOST))
        return True
    except (SyntaxError, ValueError, RecursionError):
        return False


def gen_program(rng, ver: tuple[int, int]) -> tuple[str, list[str]]:
    """A program that the host `ast` accepts for target `ver` (regenerated otherwise)."""
    for _ in range(50):
        g = Gen(rng, ver)
        src = g.program()
        if host_can_parse(src, ver):
            return src, sorted(g.features)
    return PREAMBLE + "reveal_type(i)\n", ["fallback"]
