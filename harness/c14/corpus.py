"""Corpus programs (test-data/unit/check-*.test) and single-token corruptions."""
from __future__ import annotations

import glob
import io
import keyword
import os
import re
import tokenize

from harness.vlib.core import REPO

# a type comment is `# type:` followed by anything but `ignore`
TYPE_COMMENT = re.compile(r"#\s*type:\s*(?!ignore\b)")


def corpus_cases() -> list[tuple[str, str]]:
    """(name, main program) for the single-file cases of check-*.test without type comments."""
    cases = []
    for f in sorted(glob.glob(os.path.join(REPO, "test-data", "unit", "check-*.test"))):
        txt = open(f, encoding="utf8").read()
        parts = re.split(r"^\[case ([^\]]+)\]\n", txt, flags=re.M)
        for i in range(1, len(parts), 2):
            name, body = parts[i], parts[i + 1]
            if re.search(r"^\[file |^\[delete|^\[stale|^\[rechecked|^\[out2|^# cmd:", body, flags=re.M):
                continue
            main = re.split(r"^\[[a-z]", body, flags=re.M)[0]
            main = re.sub(r"[ \t]*# (E|N|W)(:\d+)?: .*$", "", main, flags=re.M)
            main = "\n".join(l for l in main.split("\n") if not l.startswith("--"))
            if TYPE_COMMENT.search(main):
                continue
            if "\r" in main:
                continue
            main = main.rstrip("\n") + "\n"
            if not main.strip():
                continue
            cases.append((os.path.basename(f) + ":" + name, main))
    return cases


# ------------------------------------------------------------------------------------------- corruptions
REPLACEMENTS = ["(", ")", "[", "]", "{", "}", ":", ",", ".", "=", "==", "->", "+", "*", "**", "@", "lambda", "def",
                "class", "if", "else", "for", "in", "not", "is", "import", "from", "return", "yield", "await", "async",
                "pass", "None", "x", "1", "'s'", "...", ";", "|", "~", ":=", "match", "case", "type", "with", "as",
                "try", "except", "finally", "global", "del", "assert", "raise", "while", "break", "continue", "!", "$", "?"]
OPEN, CLOSE = "([{", ")]}"
BIN_OPS = ["+", "-", "*", "/", "//", "%", "**", "@", "<<", ">>", "&", "|", "^"]
CMP_OPS = ["<", "<=", "==", "!=", ">", ">="]


def _tokens(src: str):
    """Host tokenizer; None when it cannot tokenize the text (newer syntax / deliberately broken text)."""
    try:
        toks = list(tokenize.generate_tokens(io.StringIO(src).readline))
    except (tokenize.TokenError, IndentationError, SyntaxError):
        return None
    return [t for t in toks if t.type not in (tokenize.ENCODING, tokenize.ENDMARKER, tokenize.NL, tokenize.NEWLINE,
                                              tokenize.INDENT, tokenize.DEDENT, tokenize.COMMENT) and t.string]


def _offsets(src: str) -> list[int]:
    offs, pos = [0], 0
    for line in src.split("\n"):
        pos += len(line) + 1
        offs.append(pos)
    return offs


def _splice(src: str, a: int, b: int, r: str) -> str:
    """Replace src[a:b] by the token r, keeping it a separate token."""
    left = " " if a > 0 and r[:1] and (src[a - 1].isalnum() or src[a - 1] == "_") and (r[0].isalnum() or r[0] in "_'\"") else ""
    right = " " if b < len(src) and r[-1:] and (src[b].isalnum() or src[b] in "_'\"") and (r[-1].isalnum() or r[-1] == "_") else ""
    return src[:a] + left + r + right + src[b:]


def corrupt(src: str, rng, k: int, skip_lines: int = 0) -> list[tuple[str, str]]:
    """Up to k single-token corruptions of src: (kind, new source).  Tokens on the first `skip_lines` lines are
    left alone (the fixed preamble of generated programs)."""
    toks = _tokens(src)
    if toks is not None:
        toks = [t for t in toks if t.start[0] > skip_lines]
    lines = src.split("\n")
    out: list[tuple[str, str]] = []
    offs = _offsets(src)

    def span(t):
        return offs[t.start[0] - 1] + t.start[1], offs[t.end[0] - 1] + t.end[1]

    kinds = ["delete", "duplicate", "replace", "replace-sibling", "replace-same-kind", "replace-same-kind", "unbalance",
             "indent", "swap"]
    tries = 0
    while len(out) < k and tries < 6 * k:
        tries += 1
        kind = rng.choice(kinds)
        if kind == "indent" or not toks:
            cand = [i for i, l in enumerate(lines) if l.strip() and i >= skip_lines]
            if not cand:
                break
            i = rng.choice(cand)
            l = lines[i]
            how = rng.randint(0, 3)
            if how == 0:
                nl = " " + l
            elif how == 1 and l[0] in " \t":
                nl = l[1:]
            elif how == 2:
                nl = "\t" + l
            else:
                nl = "   " + l.lstrip()
            new = "\n".join(lines[:i] + [nl] + lines[i + 1:])
            kind = "indent"
        else:
            t = rng.choice(toks)
            a, b = span(t)
            if kind == "delete":
                new = src[:a] + src[b:]
            elif kind == "duplicate":
                new = src[:b] + " " + t.string + src[b:]
            elif kind == "replace":
                new = _splice(src, a, b, rng.choice(REPLACEMENTS))
            elif kind == "replace-sibling":
                new = _splice(src, a, b, rng.choice(toks).string)
            elif kind == "replace-same-kind":
                # a token of the same lexical class: mostly keeps the program parsable, moves the diagnostics
                if t.type == tokenize.NAME and not keyword.iskeyword(t.string):
                    pool_ = [x.string for x in toks if x.type == tokenize.NAME and not keyword.iskeyword(x.string)] + ["undefined_zz", "int", "str"]
                elif t.type == tokenize.OP and t.string in BIN_OPS:
                    pool_ = BIN_OPS
                elif t.type == tokenize.OP and t.string in CMP_OPS:
                    pool_ = CMP_OPS
                elif t.type == tokenize.NUMBER:
                    pool_ = ["0", "1.5", "'s'", "None", "2j", "b'b'"]
                elif t.type == tokenize.STRING:
                    pool_ = ["0", "'é'", "''", "b''", "None", "f'{1}'"]
                elif t.type == tokenize.NAME:
                    pool_ = {"and": ["or"], "or": ["and"], "is": ["in"], "in": ["is"], "True": ["None"], "False": ["None"],
                             "None": ["0"], "return": ["yield"], "break": ["continue"], "continue": ["break"], "pass": ["..."],
                             "yield": ["return"]}.get(t.string, [])
                else:
                    pool_ = []
                pool_ = [x for x in pool_ if x != t.string]
                if not pool_:
                    continue
                new = _splice(src, a, b, rng.choice(pool_))
            elif kind == "swap":
                j = toks.index(t)
                if j + 1 >= len(toks):
                    continue
                t2 = toks[j + 1]
                a2, b2 = span(t2)
                if a2 < b:
                    continue
                new = src[:a] + t2.string + src[b:a2] + t.string + src[b2:]
            else:  # unbalance: delete a bracket or insert one
                br = [x for x in toks if x.string in tuple(OPEN + CLOSE)]
                if br and rng.random() < 0.6:
                    t = rng.choice(br)
                    a, b = span(t)
                    new = src[:a] + src[b:]
                else:
                    new = src[:a] + rng.choice(OPEN + CLOSE) + src[a:]
        if new != src and new not in [n for _, n in out]:
            out.append((kind, new))
    return out


def is_keyword(s: str) -> bool:
    return keyword.iskeyword(s)
