"""A small process pool that survives the death of a worker.  A Rust panic inside the native front end is a
Python exception, but a stack overflow / abort kills the process: the master then knows exactly which chunk
that worker was running, respawns the worker and re-runs the chunk task by task; a task that kills its worker
on its own is returned as `died(task)`."""
from __future__ import annotations

import multiprocessing as mp
from multiprocessing.connection import wait

from . import diffwork


MAX_TASKS_PER_WORKER = 120   # in-process builds leak a few MB each: recycle the worker


def _worker(conn, base: str) -> None:
    # Rust panics of the native front end and mypy's INTERNAL ERROR tracebacks go to fd 2: they are recorded as
    # results ("crash"), the text is noise
    import os
    os.environ["RUST_BACKTRACE"] = "0"
    try:
        dn = os.open(os.devnull, os.O_WRONLY)
        os.dup2(dn, 2)
        os.dup2(dn, 1)
        os.close(dn)
    except OSError:
        pass
    diffwork.init_worker(base)
    done = 0
    while True:
        try:
            msg = conn.recv()
        except EOFError:
            return
        if msg is None:
            return
        fn_name, chunk = msg
        fn = getattr(diffwork, fn_name)
        res = [(i, fn(t)) for i, t in chunk]
        done += len(chunk)
        recycle = done >= MAX_TASKS_PER_WORKER
        conn.send((res, recycle))
        if recycle:
            conn.close()
            return


class _W:
    def __init__(self, ctxm, base):
        self.parent, child = ctxm.Pipe()
        self.proc = ctxm.Process(target=_worker, args=(child, base), daemon=True)
        self.proc.start()
        child.close()
        self.job = None

    def stop(self):
        try:
            self.parent.send(None)
        except (OSError, ValueError):
            pass
        self.proc.join(timeout=5)
        if self.proc.is_alive():
            self.proc.kill()
        self.parent.close()


def run_tasks(fn_name: str, tasks: list, base: str, workers: int = 6, chunk: int = 6, died=None) -> list:
    """Apply diffwork.<fn_name> to every task; results in task order."""
    results: dict[int, object] = {}
    indexed = list(enumerate(tasks))
    queue = [indexed[i:i + chunk] for i in range(0, len(indexed), chunk)]
    queue.reverse()
    ctxm = mp.get_context("fork")
    ws = [_W(ctxm, base) for _ in range(min(workers, max(1, len(queue))))]
    deaths = 0
    try:
        while queue or any(w.job is not None for w in ws):
            for w in ws:
                if w.job is None and queue:
                    w.job = queue.pop()
                    w.parent.send((fn_name, w.job))
            busy = [w for w in ws if w.job is not None]
            ready = wait([w.parent for w in busy] + [w.proc.sentinel for w in busy], timeout=600)
            if not ready:
                raise RuntimeError("worker pool stalled")
            for w in busy:
                if w.job is None:
                    continue
                got = None
                dead = False
                if w.parent.poll(0):
                    try:
                        got = w.parent.recv()
                    except (EOFError, OSError):
                        dead = True
                elif not w.proc.is_alive():
                    dead = True
                else:
                    continue
                if dead:
                    # the worker died while running w.job
                    deaths += 1
                    if deaths > 500:
                        raise RuntimeError("workers keep dying")
                    job = w.job
                    try:
                        w.proc.kill()
                    except Exception:
                        pass
                    w.parent.close()
                    ws[ws.index(w)] = _W(ctxm, base)
                    if len(job) == 1:
                        results[job[0][0]] = died(job[0][1]) if died else ("died", job[0][1])
                    else:
                        queue.extend([x] for x in job)
                    continue
                res, recycle = got
                for i, r in res:
                    results[i] = r
                w.job = None
                if recycle:
                    w.proc.join(timeout=10)
                    w.parent.close()
                    ws[ws.index(w)] = _W(ctxm, base)
    finally:
        for w in ws:
            w.stop()
    return [results[i] for i in range(len(tasks))]
