"""Generated programs for C20 (not taken from the corpus): small modules built from the constructs that make the
semantic analyser defer and create placeholders — forward references, recursive aliases, mutually recursive
NamedTuple / TypedDict / dataclass / Protocol / enum definitions, cyclic bases, import cycles with star imports,
decorators and overloads referring forward, attribute-inference chains that need several checker passes — plus a
malformed stream (the same programs cut / garbled).  Everything is drawn from the rng handed in.

`defer_chain(k)` is the deterministic family used by the pass-loop correspondence: its function `f0` needs
`k` further passes.
"""
from __future__ import annotations

HEADER = ("from typing import (Any, Callable, Dict, Final, Generic, List, NamedTuple, Optional, Protocol, Tuple,\n"
          "                    Type, TypeVar, Union, overload)\n"
          "from typing_extensions import TypedDict\nimport dataclasses\nimport enum\n\n")


def defer_chain(k: int, cls: str = "A") -> str:
    """class whose method f0 reads x1, f1 sets x1 from x2, …, fk sets xk: f0 is deferred in passes 0..k-1"""
    out = [f"class {cls}:"]
    out.append("    def f0(self) -> None:\n        " + ("reveal_type(self.x1)" if k else "reveal_type(1)"))
    for i in range(1, k + 1):
        rhs = f"self.x{i + 1}" if i < k else "1"
        out.append(f"    def f{i}(self) -> None:\n        self.x{i} = {rhs}")
    return "\n".join(out) + "\n"


def defer_cycle(k: int, cls: str = "A") -> str:
    """attribute types that depend on each other in a cycle of length k ≥ 1: never determined — the checker must give
    up after `last_pass` ("Cannot determine type"), not defer for ever"""
    out = [f"class {cls}:", "    def f0(self) -> None:\n        reveal_type(self.x1)"]
    for i in range(1, k + 1):
        out.append(f"    def f{i}(self) -> None:\n        self.x{i} = self.x{i % k + 1}")
    return "\n".join(out) + "\n"


def _tname(rng, names: list[str]) -> str:
    base = rng.choice(names + ["int", "str", "None", "Any"])
    r = rng.random()
    if r < 0.25:
        return f"List[{base}]"
    if r < 0.4:
        return f"Optional[{base}]"
    if r < 0.5:
        return f"Dict[str, {base}]"
    if r < 0.6:
        return f"Union[int, {base}]"
    if r < 0.68:
        return f"Tuple[{base}, ...]"
    if r < 0.75:
        return f"Callable[[{base}], {rng.choice(names + ['int'])}]"
    if r < 0.8:
        return f"Type[{base}]"
    if r < 0.85:
        return f"'{base}'"
    return base


def program(rng) -> tuple[str, dict[str, str], str]:
    """(main source, extra files, shape label)"""
    n = rng.randint(3, 8)
    names = [f"N{i}" for i in range(n)]
    order = names[:]
    rng.shuffle(order)
    body: list[str] = []
    shape = []
    for nm in order:
        kind = rng.choice(["alias", "alias", "namedtuple", "typeddict", "dataclass", "class", "class", "protocol",
                           "enum", "func", "newtype", "typevar", "generic", "final", "overload", "chain"])
        shape.append(kind)
        t = lambda: _tname(rng, names)  # noqa: E731
        if kind == "alias":
            body.append(f"{nm} = {t()}")
        elif kind == "namedtuple":
            if rng.random() < 0.5:
                body.append(f"class {nm}(NamedTuple):\n    a: {t()}\n    b: {t()} = None")
            else:
                body.append(f"{nm} = NamedTuple('{nm}', [('a', {t()}), ('b', {t()})])")
        elif kind == "typeddict":
            if rng.random() < 0.5:
                body.append(f"class {nm}(TypedDict, total={rng.choice(['True', 'False'])}):\n    a: {t()}\n    b: {t()}")
            else:
                body.append(f"{nm} = TypedDict('{nm}', {{'a': {t()}, 'b': {t()}}})")
        elif kind == "dataclass":
            body.append(f"@dataclasses.dataclass\nclass {nm}:\n    a: {t()}\n    b: {t()} = dataclasses.field(default=None)")
        elif kind == "class":
            # (direct self-inheritance `class N(N)` is left to the `cyclic` mutator: see known finding C20-self-base)
            bases = rng.sample([x for x in names if x != nm], rng.randint(0, 2))
            if rng.random() < 0.3:
                bases.append(f"Generic[T_{nm}]")
                body.append(f"T_{nm} = TypeVar('T_{nm}', bound={t()})")
            hdr = f"class {nm}({', '.join(bases)}):" if bases else f"class {nm}:"
            body.append(f"{hdr}\n    x: {t()}\n    def m(self, a: {t()}) -> {t()}:\n        return self.x\n"
                        f"    class Inner({rng.choice([x for x in names if x != nm])}):\n        y: {t()}")
        elif kind == "protocol":
            body.append(f"class {nm}(Protocol):\n    def m(self, a: {t()}) -> {t()}: ...\n    @property\n    def p(self) -> {t()}: ...")
        elif kind == "enum":
            body.append(f"class {nm}(enum.Enum):\n    A = 1\n    B = {rng.choice(names)}\n    def m(self) -> {t()}: ...")
        elif kind == "func":
            body.append(f"def {nm}(a: {t()}, b: {t()} = {rng.choice(names)}) -> {t()}:\n    return {rng.choice(names)}(a)")
        elif kind == "newtype":
            body.append(f"from typing import NewType\n{nm} = NewType('{nm}', {rng.choice(names + ['int'])})")
        elif kind == "typevar":
            body.append(f"{nm} = TypeVar('{nm}', {t()}, {t()})")
        elif kind == "generic":
            body.append(f"T_{nm} = TypeVar('T_{nm}')\nclass {nm}(Generic[T_{nm}], {rng.choice([x for x in names if x != nm])}):\n    v: T_{nm}\n"
                        f"    def get(self) -> '{nm}[{t()}]': ...")
        elif kind == "final":
            a, b = rng.randint(0, 99), rng.randint(0, 12)
            op = rng.choice(["+", "-", "*", "//", "%", "**", "<<", ">>", "&", "|", "^", "/"])
            body.append(f"{nm}: Final = {a} {op} {b}\nz_{nm}: {t()} = {nm}")
        elif kind == "overload":
            body.append(f"@overload\ndef {nm}(a: int) -> {t()}: ...\n@overload\ndef {nm}(a: str) -> {t()}: ...\n"
                        f"def {nm}(a: Any) -> Any:\n    return {rng.choice(names)}")
        elif rng.random() < 0.7:
            body.append(defer_chain(rng.randint(1, 5), nm).rstrip("\n"))
        else:
            body.append(defer_cycle(rng.randint(1, 4), nm).rstrip("\n"))
    main = HEADER + "\n\n".join(body) + "\n"
    files: dict[str, str] = {}
    if rng.random() < 0.35:
        # an import cycle: part of the definitions move to m.py, both modules star-import each other
        cut = rng.randint(1, len(body) - 1)
        files["m.py"] = HEADER + "from main import *\n\n" + "\n\n".join(body[cut:]) + "\n"
        main = HEADER + "from m import *\nimport m\n\n" + "\n\n".join(body[:cut]) + "\n"
        shape.append("import-cycle")
    return main, files, "+".join(sorted(set(shape)))


def garble(src: str, rng) -> tuple[str, str]:
    """the malformed stream: (text, label)"""
    k = rng.choice(["cut", "nul", "tabs", "bracket", "bytes", "indent", "unicode", "longline", "keyword"])
    lines = src.split("\n")
    i = rng.randrange(max(len(lines), 1))
    if k == "cut":
        return src[:rng.randrange(len(src) + 1)], k
    if k == "nul":
        p = rng.randrange(len(src) + 1)
        return src[:p] + "\x00" + src[p:], k
    if k == "tabs":
        lines[i] = "\t" + lines[i]
        return "\n".join(lines), k
    if k == "bracket":
        p = rng.randrange(len(src) + 1)
        return src[:p] + rng.choice("([{)]}'\"\\") * rng.randint(1, 3) + src[p:], k
    if k == "bytes":
        p = rng.randrange(len(src) + 1)
        return src[:p] + rng.choice(["﻿", "\x0c", "\r", "\x1a", "\udcff\udcfe"]) + src[p:], k
    if k == "indent":
        lines[i] = " " * rng.randint(1, 9) + lines[i]
        return "\n".join(lines), k
    if k == "unicode":
        p = rng.randrange(len(src) + 1)
        return src[:p] + rng.choice(["é", "𝒳", "​", "ª", "١", "λ: int = 1\n"]) + src[p:], k
    if k == "longline":
        return src + "x = " + "(" * 150 + "1" + ")" * 150 + "\n" + "y = " + " + ".join(["1"] * 600) + "\n", k
    lines.insert(i, rng.choice(["match x:", "case _:", "type X[T] = T", "async def", "lambda: (yield)", "global N0",
                               "nonlocal N1", "del N0", "class N0[T: N1]: pass", "def f[**P, *Ts](): pass",
                               "from __future__ import annotations", "import main as N0", "__all__ = ['N0', N1]",
                               "if TYPE_CHECKING:", "else:", "try:", "except* N0:", "with N0() as N1:"]))
    return "\n".join(lines), k


# ------------------------------------------------------------------ config stream (per-module sections)
def config(rng) -> tuple[str, str]:
    """(ini text, label) — mostly valid per-module sections, some with values of the wrong kind"""
    pats = ["main", "m", "m.*", "*.m", "foo.*", "main.*", "*"]
    keys = [("disallow_untyped_defs", "bool"), ("ignore_errors", "bool"), ("ignore_missing_imports", "bool"),
            ("follow_imports", "choice"), ("disable_error_code", "codes"), ("enable_error_code", "codes"),
            ("warn_unreachable", "bool"), ("strict_optional", "bool"), ("always_true", "names"),
            ("python_version", "ver"), ("strict", "bool"), ("local_partial_types", "bool"), ("implicit_reexport", "bool"),
            ("untyped_calls_exclude", "names"), ("disallow_any_generics", "bool"), ("allow_redefinition", "bool")]
    bad = rng.random() < 0.45
    label = []
    out = ["[mypy]"]
    sections = [None] + [rng.choice(pats) for _ in range(rng.randint(1, 3))]
    for sec in sections:
        if sec is not None:
            out.append(f"[mypy-{sec}]")
        for _ in range(rng.randint(0, 3)):
            k, kind = rng.choice(keys)
            if kind == "bool":
                v = rng.choice(["True", "False", "yes", "0"]) if not (bad and rng.random() < 0.4) else rng.choice(["maybe", "", "2", "Tru"])
            elif kind == "choice":
                v = rng.choice(["normal", "silent", "skip", "error"]) if not (bad and rng.random() < 0.5) else rng.choice(["fast", "", "Normal"])
            elif kind == "codes":
                v = rng.choice(["attr-defined", "misc, arg-type", "unreachable", "truthy-bool"]) if not (bad and rng.random() < 0.6) \
                    else rng.choice(["bogus", "attr-defined, nope", ",", "ATTR-DEFINED", "1"])
            elif kind == "ver":
                v = rng.choice(["3.10", "3.12", "3.13"]) if not (bad and rng.random() < 0.5) else rng.choice(["2.7", "3", "three", "3.99"])
            else:
                v = rng.choice(["X", "a.b, c", "os.path"])
            out.append(f"{k} = {v}")
            label.append(("global" if sec is None else "module") + ":" + kind + (":bad" if bad else ""))
    return "\n".join(out) + "\n", ",".join(sorted(set(label))) or "empty"
