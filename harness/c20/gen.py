"""Generated programs for C20 (not taken from the corpus): small modules built from the constructs that make the
semantic analyser defer and create placeholders — forward references, recursive aliases, mutually recursive
NamedTuple / TypedDict / dataclass / Protocol / enum definitions, cyclic bases, import cycles with star imports,
decorators and overloads referring forward, attribute-inference chains that need several checker passes — plus a
malformed stream (the same programs cut / garbled).  Everything is drawn from the rng handed in.

`defer_chain(k)` is the deterministic family used by the pass-loop correspondence: its function `f0` needs
`k` further passes.
"""
from __future__ import annotations

import re

HEADER = ("from typing import (Any, Callable, Dict, Final, Generic, List, NamedTuple, Optional, Protocol, Tuple,\n"
          "                    Type, TypeVar, Union, overload)\n"
          "from typing_extensions import TypedDict\nimport dataclasses\nimport enum\n\n")


def defer_chain(k: int, cls: str = "A") -> str:
    """class whose method f0 reads x1, f1 sets x1 from x2, …, fk sets xk: f0 is deferred in passes 0..k-1"""
    out = [f"class {cls}:"]
    out.append("    def f0(self) -> None:\n        " + ("reveal_type(self.x1)" if k else "reveal_type(1)"))
    for i in range(1, k + 1):
        rhs = f"self.x{i + 1}" if i < k else "1"
        out.append(f"    def f{i}(self) -> None:\n        self.x{i} = {rhs}")
    return "\n".join(out) + "\n"


def defer_cycle(k: int, cls: str = "A") -> str:
    """attribute types that depend on each other in a cycle of length k ≥ 1: never determined — the checker must give
    up after `last_pass` ("Cannot determine type"), not defer for ever"""
    out = [f"class {cls}:", "    def f0(self) -> None:\n        reveal_type(self.x1)"]
    for i in range(1, k + 1):
        out.append(f"    def f{i}(self) -> None:\n        self.x{i} = self.x{i % k + 1}")
    return "\n".join(out) + "\n"


# ------------------------------------------------------------------ families that reach the checker's defer sites
def _indent(src: str, n: int) -> str:
    pad = " " * n
    return "".join(pad + l if l.strip() else l for l in src.splitlines(True))


UNINFERRED_BASES = {
    # how the attribute `hook` of Base stays without an inferred type
    "unreachable": "class Base:\n    def __init__(self) -> None:\n        raise NotImplementedError\n        self.hook = 1\n",
    "cycle": "class Base:\n    def a(self) -> None:\n        self.hook = self.other\n    def b(self) -> None:\n        self.other = self.hook\n",
    "late": "class Base:\n    def a(self) -> None:\n        self.hook = later()\n\ndef later():\n    return Base().hook\n",
    "class-level-unreachable": "import sys\nclass Base:\n    def __init__(self) -> None:\n        sys.exit(1)\n        self.hook = [1]\n",
}
OVERRIDES = {
    "method": "def hook(self) -> int:\n    return 1\n",
    "property": "@property\ndef hook(self) -> int:\n    return 1\n",
    "staticmethod": "@staticmethod\ndef hook() -> int:\n    return 1\n",
    "overload": "@overload\ndef hook(self, a: int) -> int: ...\n@overload\ndef hook(self, a: str) -> str: ...\ndef hook(self, a):\n    return a\n",
    "decorated": "@deco\ndef hook(self) -> int:\n    return 1\n",
}
PLACEMENTS = ["module", "function", "method", "nested-function", "function-branch", "lambda-default"]


def override_uninferred(base: str, override: str, placement: str) -> str:
    """`check_method_override_for_base_with_name`: a method (of some kind) overrides an attribute of a base class whose type
    is never inferred; the derived class sits at module level / in a function / in a method / …"""
    derived = "class Local(Base):\n" + _indent(OVERRIDES[override], 4)
    head = "from typing import overload\ndef deco(f):\n    return f\n\n" + UNINFERRED_BASES[base] + "\n"
    if placement == "module":
        return head + derived
    if placement == "function":
        return head + "def make() -> None:\n" + _indent(derived, 4) + "    Local()\n"
    if placement == "method":
        return head + "class Factory:\n    def make(self) -> None:\n" + _indent(derived, 8) + "        Local()\n"
    if placement == "nested-function":
        return head + "def outer() -> None:\n    def inner() -> None:\n" + _indent(derived, 8) + "    inner()\n"
    if placement == "function-branch":
        return head + "def make(flag: bool) -> None:\n    if flag:\n" + _indent(derived, 8) + "    else:\n        pass\n"
    return head + "def make(f=lambda: 1) -> None:\n" + _indent(derived, 4) + "    x = [Local() for _ in range(2)]\n"


def override_family() -> list[tuple[str, str]]:
    return [(f"override-uninferred:{b}/{o}/{pl}", override_uninferred(b, o, pl))
            for b in UNINFERRED_BASES for o in OVERRIDES for pl in PLACEMENTS]


def undetermined_read_family() -> list[tuple[str, str]]:
    """`handle_cannot_determine_type`: reads of variables / attributes whose type is never determined"""
    out = [(f"defer-chain-{k}", defer_chain(k)) for k in range(0, 40, 3)]
    out += [(f"defer-cycle-{k}", defer_cycle(k)) for k in range(1, 5)]
    out.append(("undetermined-global", "def f() -> None:\n    reveal_type(g)\n\ng = h\nh = g\n"))
    out.append(("undetermined-global-in-method", "class C:\n    def m(self) -> None:\n        reveal_type(g)\n\ng = h\nh = g\n"))
    out.append(("undetermined-local-class", "def outer() -> None:\n" + _indent(defer_cycle(2, "L"), 4) + "    L().f0()\n"))
    out.append(("undetermined-decorated", "def deco(f):\n    return f\n\nclass A:\n    @deco\n    def f0(self) -> None:\n"
                                          "        reveal_type(self.x1)\n    def f1(self) -> None:\n        self.x1 = self.x1\n"))
    return out


# the table the harness uses when a defer site of checker.py loses its `pass_num < last_pass` guard:
# enclosing function of the `self.defer_node(...)` call  ->  program family that reaches it
DEFER_SITE_FAMILIES = {
    "handle_cannot_determine_type": undetermined_read_family,
    "check_method_override_for_base_with_name": override_family,
}


def defer_site_programs(functions: list[str]) -> list[tuple[str, str]]:
    """programs for the given enclosing functions (unknown function: every family)"""
    fams = []
    for fn in functions:
        fam = DEFER_SITE_FAMILIES.get(fn)
        if fam is None:
            fams = list(DEFER_SITE_FAMILIES.values())
            break
        if fam not in fams:
            fams.append(fam)
    out: list[tuple[str, str]] = []
    for fam in fams:
        out += fam()
    return out


# ------------------------------------------------------------------ error-path amplifier: the mismatch matrix
MATRIX_DECLS = """\
import sys
import enum
import dataclasses
import functools
from typing import (Any, Callable, Dict, Generic, List, Literal, NamedTuple, NewType, Optional, Protocol, Sequence, Tuple, Type,
                    TypeVar, Union, overload, Iterable, Awaitable, ClassVar, Final)
from typing_extensions import TypedDict, ParamSpec, Concatenate

T = TypeVar("T")
class Base:
    ident: int = 0
    def close(self, hard: bool = False) -> None: ...
class Sub(Base):
    name: str = ""
B = TypeVar("B", bound=Base)
V = TypeVar("V", int, str)
P = ParamSpec("P")

class Closeable(Protocol):
    def close(self) -> None: ...
class Named(Protocol):
    name: str
class Sized2(Protocol[T]):
    def size(self, of: T) -> int: ...
    @property
    def first(self) -> T: ...
class Callback(Protocol):
    def __call__(self, x: int, *, key: str = ...) -> str: ...
class ClsProto(Protocol):
    attr: ClassVar[int]
    @classmethod
    def make(cls) -> "ClsProto": ...
class Movie(TypedDict):
    title: str
    year: int
class Draft(TypedDict, total=False):
    title: str
Point = NamedTuple("Point", [("x", int), ("y", str)])
class Pair(NamedTuple):
    a: int
    b: "Pair | None" = None
Color = enum.Enum("Color", "RED GREEN")
class Shade(enum.IntEnum):
    DARK = 1
UserId = NewType("UserId", int)
@dataclasses.dataclass
class Data(Generic[T]):
    item: T
    items: List[T] = dataclasses.field(default_factory=list)
class Box(Generic[B]):
    def __init__(self, content: B) -> None:
        self.content = content
    def get(self) -> B:
        return self.content
@overload
def ov(x: int) -> int: ...
@overload
def ov(x: str, y: bytes = ...) -> str: ...
def ov(x: Any, y: Any = None) -> Any:
    return x
def deco(f: Callable[P, T]) -> Callable[Concatenate[int, P], T]: ...
@deco
def decorated(a: str, *, b: bool = False) -> bytes: ...
async def coro(x: int) -> str: ...
def gen_fn() -> Iterable[int]:
    yield 1
part = functools.partial(ov, 1)
"""

# the typed universe: (label, type as written, a value expression of that type — valid inside `matrix`)
MATRIX_UNIVERSE = [
    ("int", "int", "1"), ("str", "str", "'s'"), ("none", "None", "None"), ("opt-base", "Optional[Base]", "ob"),
    ("union", "Union[int, Sub, None]", "un"), ("literal", "Literal['a', 1]", "lit"), ("base", "Base", "Base()"), ("sub", "Sub", "Sub()"),
    ("class-obj", "Type[Base]", "Base"), ("sub-class-obj", "Type[Sub]", "Sub"), ("type-T", "Type[T]", "ct"), ("type-B", "Type[B]", "cb"),
    ("tv-T", "T", "t"), ("tv-B", "B", "b"), ("tv-V", "V", "v"), ("proto", "Closeable", "cl"), ("attr-proto", "Named", "nm"),
    ("opt-proto", "Optional[Named]", "onm"), ("gen-proto", "Sized2[int]", "sz"), ("callback", "Callback", "cbk"),
    ("cls-proto", "ClsProto", "cp"), ("type-proto", "Type[Closeable]", "tcl"), ("typeddict", "Movie", "mv"),
    ("typeddict-partial", "Draft", "{'title': 't'}"), ("td-class", "Type[Movie]", "Movie"), ("namedtuple", "Point", "Point(1, 'a')"),
    ("nt-class", "Type[Point]", "Point"), ("nt-rec", "Pair", "Pair(1)"), ("enum", "Color", "Color.RED"), ("enum-class", "Type[Color]", "Color"),
    ("intenum", "Shade", "Shade.DARK"), ("newtype", "UserId", "UserId(1)"), ("dataclass", "Data[int]", "Data(1)"),
    ("dataclass-cls", "Type[Data[Any]]", "Data"), ("box", "Box[Sub]", "Box(Sub())"), ("overloaded", "Callable[[int], int]", "ov"),
    ("callable", "Callable[[int, str], bool]", "fn"), ("callable-any", "Callable[..., Any]", "fa"), ("decorated", "Callable[[int, str], bytes]", "decorated"),
    ("coroutine-fn", "Callable[[int], Awaitable[str]]", "coro"), ("partial", "functools.partial[int]", "part"), ("module", "Any", "sys"),
    ("tuple", "Tuple[int, str]", "(1, 'a')"), ("var-tuple", "Tuple[Base, ...]", "vt"), ("list", "List[Sub]", "[Sub()]"),
    ("dict", "Dict[str, Base]", "{'k': Base()}"), ("seq", "Sequence[Optional[int]]", "sq"), ("lambda", "Callable[[], None]", "lambda: None"),
    ("generator", "Iterable[int]", "gen_fn()"), ("bound-method", "Callable[[], None]", "Base().close"),
    ("any", "Any", "anything"), ("object", "object", "object()"), ("type-any", "type", "type"),
]


def mismatch_matrix(rng, nvals: int = 12, nparams: int = 9) -> tuple[str, str]:
    """(program, label): every drawn value of a small typed universe is passed to every drawn parameter type of that universe — as
    a call argument, an assignment, a return value, a keyword argument, an element of a container and through `*args` —
    so that every incompatibility message and its notes are rendered"""
    vals = rng.sample(MATRIX_UNIVERSE, min(nvals, len(MATRIX_UNIVERSE)))
    params = rng.sample([u for u in MATRIX_UNIVERSE if u[0] not in ("module", "any")], nparams)
    out = [MATRIX_DECLS]
    for i, (lab, typ, _v) in enumerate(params):
        out.append(f"def want_{i}(x: {typ}, *rest: {typ}, key: Optional[{typ}] = None) -> None: ...  # {lab}")
    sig = ", ".join(f"{v}: {t}" for (_l, t, v) in MATRIX_UNIVERSE if v.isidentifier() and v not in
                    ("Base", "Sub", "Movie", "Point", "Color", "Data", "ov", "decorated", "coro", "part", "sys", "type", "None"))
    out.append(f"\ndef matrix({sig}) -> None:")
    for (vl, _vt, v) in vals:
        for i, (pl, pt, _pv) in enumerate(params):
            form = rng.random()
            if form < 0.55:
                out.append(f"    want_{i}({v})  # {vl} -> {pl}")
            elif form < 0.7:
                out.append(f"    _a_{vl.replace('-', '_')}_{i}: {pt} = {v}")
            elif form < 0.8:
                out.append(f"    want_{i}(*[{v}], key={v})")
            elif form < 0.9:
                out.append(f"    _l_{vl.replace('-', '_')}_{i}: List[{pt}] = [{v}]")
            else:
                out.append(f"    _d_{vl.replace('-', '_')}_{i}: Dict[str, {pt}] = {{'k': {v}}}")
    # returns and attribute stores
    for i, (pl, pt, _pv) in enumerate(params[:4]):
        v = rng.choice(vals)[2]
        out.append(f"\ndef ret_{i}({sig}) -> {pt}:\n    return {v}")
    return "\n".join(out) + "\n", "matrix:" + "+".join(sorted(v[0] for v in vals))[:80]


# ------------------------------------------------------------------ partial types refined in nested places
PARTIAL_INITS = [("[]", "list"), ("{}", "dict"), ("set()", "set"), ("None", "none"), ("dict()", "dict"), ("list()", "list")]
WRAPPERS = ["[{S}]", "({S}, {V})[1]", "({S},)", "{0: {S}}", "[{S}, {V}]", "str({S})", "({S} or {V})", "[{S} for _ in range(2)]",
            "{S}", "(lambda: {S})()", "[{V}, {S}][0]"]


def _refine(var: str, kind: str, val: str, rng) -> str:
    if kind == "list":
        return rng.choice([f"{var}.append({val})", f"{var}.extend([{val}])", f"{var}.insert(0, {val})", f"{var} += [{val}]"])
    if kind == "dict":
        return rng.choice([f"{var}[{val}] = {val}", f"{var}.setdefault({val}, {val})", f"{var}.update({{{val}: {val}}})"])
    if kind == "set":
        return rng.choice([f"{var}.add({val})", f"{var}.update({{{val}}})", f"{var}.discard({val})"])
    return rng.choice([f"{var} = {val}", f"{var} = [{val}]"])


def partial_block(var: str, rng) -> str:
    """a variable with a partial type and refinements of it — plain, in branches / loops / nested scopes, and *nested in
    each other* (`x.append([x.append(1)])`: the argument of a refining call contains another refining call)"""
    init, kind = rng.choice(PARTIAL_INITS)
    val = rng.choice(["1", "'a'", "None", "1.5", "[1]", "(1, 'a')", var])
    lines = [f"{var} = {init}"]
    for _ in range(rng.randint(1, 4)):
        stmt = _refine(var, kind, val, rng)
        r = rng.random()
        is_call = re.match(r"^[\w.]+\.\w+\(", stmt) is not None
        if r < 0.55 and is_call:
            # nested self-reference: an argument of the call is replaced by a wrapped copy of a refining call
            inner = _refine(var, kind, rng.choice(["1", "'a'", val]), rng)
            if re.match(r"^[\w.]+\.\w+\(", inner) is None:
                inner = f"{var}.clear()"
            w = rng.choice(WRAPPERS).replace("{S}", inner).replace("{V}", rng.choice(["'b'", "2", val]))
            head, _sep, _tail = stmt.partition("(")
            if kind == "dict" and ".update" in head:
                w = "{1: " + w + "}"
            elif ".extend" in head or ".update" in head:
                w = "[" + w + "]"
            stmt = f"{head}({'0, ' if '.insert' in head else ''}{w}" + (", " + w if ".setdefault" in head else "") + ")"
        r = rng.random()
        if r < 0.2:
            stmt = f"if {rng.choice(['int()', 'True', var])}:\n    {stmt}\nelse:\n    {_refine(var, kind, 'None', rng)}"
        elif r < 0.35:
            stmt = f"for _i in range(2):\n    {stmt}"
        elif r < 0.45:
            stmt = f"try:\n    {stmt}\nfinally:\n    pass"
        elif r < 0.55:
            stmt = f"def _g_{var}() -> None:\n    {stmt}"
        elif r < 0.62:
            stmt = f"with open('f') as _f:\n    {stmt}"
        elif r < 0.68:
            stmt = f"_l_{var} = lambda: {stmt}" if (is_call and "\n" not in stmt) else stmt
        lines.append(stmt)
    lines.append(f"reveal_type({var})")
    block = "\n".join(lines) + "\n"
    r = rng.random()
    if r < 0.4:
        return f"def _scope_{var}() -> None:\n" + _indent(block, 4)
    if r < 0.55:
        return f"class _Scope_{var}:\n" + _indent(block, 4)
    if r < 0.65:
        return f"class _K_{var}:\n    def m(self) -> None:\n" + _indent(block.replace(f"{var} = ", f"self.{var} = ", 1).replace(f"{var}.", f"self.{var}."), 8)
    return block


# ------------------------------------------------------------------ multi-module projects with import cycles (daemon)
def project(rng) -> tuple[dict[str, str], dict]:
    """(files, meta) — `main.py` is the only entry point (imports are followed); it imports `a`, which starts an import
    cycle a → b → (c →) a; a module may import itself; optionally a package whose `__init__` star-imports a submodule
    that imports the package.  meta: {"imports": {file: [modules]}, "cycle": [files that sit on an import cycle]}"""
    n = rng.choice([2, 2, 3])
    cyc = ["a", "b", "c"][:n]
    files: dict[str, str] = {}
    imports: dict[str, list[str]] = {}
    for i, m in enumerate(cyc):
        nxt = cyc[(i + 1) % n]
        imports[f"{m}.py"] = [nxt] + ([m] if rng.random() < 0.25 else [])
        files[f"{m}.py"] = module_text(m, imports[f"{m}.py"], rng)
    main_imports = ["a"]
    cycle = [f"{m}.py" for m in cyc]
    if rng.random() < 0.3:
        imports["selfish.py"] = ["selfish"]
        files["selfish.py"] = module_text("selfish", ["selfish"], rng)
        main_imports.append("selfish")
        cycle.append("selfish.py")
    if rng.random() < 0.3:
        files["pkg/__init__.py"] = "from pkg.sub import *\nfrom pkg import sub\n"
        files["pkg/sub.py"] = "import pkg\n" + module_text("sub", [], rng)
        main_imports.append("pkg")
        cycle += ["pkg/__init__.py", "pkg/sub.py"]
    files["main.py"] = "".join(f"import {m}\n" for m in main_imports) + "\nx: int = a.f_a()\nreveal_type(a.b.f_b)\n"
    return files, {"imports": imports, "cycle": cycle}


def project_step(files: dict[str, str], meta: dict, rng, mutate_fn, other: str) -> tuple[dict[str, str], list[str], list[str]]:
    """one edit of the project between two daemon requests: (files to write, files to delete, labels).  Most steps edit two
    or more members of an import cycle at once while the entry point stays as it is."""
    cyc = [f for f in meta["cycle"] if f in files]
    r = rng.random()
    if r < 0.55 and len(cyc) >= 2:
        targets = rng.sample(cyc, rng.choice([2, 2, min(3, len(cyc))]))
        label = "edit-cycle-members"
    elif r < 0.7 and cyc:
        targets = [rng.choice(cyc)]
        label = "edit-one-cycle-member"
    elif r < 0.85:
        targets = ["main.py"] + ([rng.choice(cyc)] if cyc and rng.random() < 0.5 else [])
        label = "edit-entry-point"
    else:
        targets = rng.sample(sorted(files), min(len(files), rng.randint(1, 3)))
        label = "edit-any"
    write: dict[str, str] = {}
    labels = [label]
    for t in targets:
        how = rng.random()
        mod = t[:-3].split("/")[-1]
        if how < 0.45 and t in meta["imports"]:
            write[t] = module_text(mod, meta["imports"][t], rng)          # new signatures / bodies, same imports
            labels.append("regenerate")
        elif how < 0.6:
            write[t] = files[t] + rng.choice([f"\n# touched {rng.randint(0, 999)}\n", f"\nextra_{rng.randint(0, 99)} = 1\n",
                                               f"\nimport {mod if t != 'main.py' else 'main'}\n"])
            labels.append("append")
        elif how < 0.7 and t in meta["imports"]:
            imps = list(meta["imports"][t])
            if mod in imps:
                imps.remove(mod)
            else:
                imps.append(mod)                                           # toggle the self-import
            meta["imports"][t] = imps
            write[t] = module_text(mod, imps, rng)
            labels.append("toggle-self-import")
        else:
            k = rng.choice(["delete", "duplicate", "swap", "rename", "crosswire", "retype", "truncate", "nest", "cyclic"])
            write[t] = mutate_fn(k, files[t], rng, other)
            labels.append(k)
    delete: list[str] = []
    if rng.random() < 0.06 and cyc:
        gone = rng.choice(cyc)
        if gone not in write:
            delete.append(gone)
            labels.append("delete-module")
    return write, delete, labels


def module_text(name: str, imports: list[str], rng) -> str:
    """a small module: functions / a class whose signatures vary with the rng, using what it imports"""
    ret = rng.choice(["int", "str", "None", "list[int]", "'C_%s'" % name])
    val = {"int": "1", "str": "'s'", "None": "None", "list[int]": "[1]"}.get(ret, f"C_{name}()")
    style = rng.random()
    head = "".join((f"import {m}\n" if style < 0.6 or m == name else f"from {m} import *\nimport {m}\n") for m in imports)
    uses = "".join(f"    {m}.f_{m}()\n" for m in imports if m != name)
    body = (f"def f_{name}() -> {ret}:\n{uses}    return {val}\n\n"
            f"class C_{name}:\n    attr = {val}\n    def m(self, other: '{rng.choice(['int', 'C_' + name])}') -> {ret}:\n        return {val}\n\n"
            f"def g_{name}(x: {rng.choice(['int', 'str', 'C_' + name])} = {rng.choice(['1', 'None', val])}) -> {rng.choice(['int', ret])}:\n"
            f"    return {rng.choice([val, 'x', '1'])}\n")
    if rng.random() < 0.3:
        body += f"\nv_{name} = []\nv_{name}.append(f_{name}())\n"
    return head + "\n" + body


def _tname(rng, names: list[str]) -> str:
    base = rng.choice(names + ["int", "str", "None", "Any"])
    r = rng.random()
    if r < 0.25:
        return f"List[{base}]"
    if r < 0.4:
        return f"Optional[{base}]"
    if r < 0.5:
        return f"Dict[str, {base}]"
    if r < 0.6:
        return f"Union[int, {base}]"
    if r < 0.68:
        return f"Tuple[{base}, ...]"
    if r < 0.75:
        return f"Callable[[{base}], {rng.choice(names + ['int'])}]"
    if r < 0.8:
        return f"Type[{base}]"
    if r < 0.85:
        return f"'{base}'"
    return base


def program(rng) -> tuple[str, dict[str, str], str]:
    """(main source, extra files, shape label)"""
    n = rng.randint(3, 8)
    names = [f"N{i}" for i in range(n)]
    order = names[:]
    rng.shuffle(order)
    body: list[str] = []
    shape = []
    for nm in order:
        kind = rng.choice(["alias", "alias", "namedtuple", "typeddict", "dataclass", "class", "class", "protocol",
                           "enum", "func", "newtype", "typevar", "generic", "final", "overload", "chain",
                           "partial", "partial", "override"])
        shape.append(kind)
        t = lambda: _tname(rng, names)  # noqa: E731
        if kind == "alias":
            body.append(f"{nm} = {t()}")
        elif kind == "namedtuple":
            if rng.random() < 0.5:
                body.append(f"class {nm}(NamedTuple):\n    a: {t()}\n    b: {t()} = None")
            else:
                body.append(f"{nm} = NamedTuple('{nm}', [('a', {t()}), ('b', {t()})])")
        elif kind == "typeddict":
            if rng.random() < 0.5:
                body.append(f"class {nm}(TypedDict, total={rng.choice(['True', 'False'])}):\n    a: {t()}\n    b: {t()}")
            else:
                body.append(f"{nm} = TypedDict('{nm}', {{'a': {t()}, 'b': {t()}}})")
        elif kind == "dataclass":
            body.append(f"@dataclasses.dataclass\nclass {nm}:\n    a: {t()}\n    b: {t()} = dataclasses.field(default=None)")
        elif kind == "class":
            # (direct self-inheritance `class N(N)` is left to the `cyclic` mutator: see known finding C20-self-base)
            bases = rng.sample([x for x in names if x != nm], rng.randint(0, 2))
            if rng.random() < 0.3:
                bases.append(f"Generic[T_{nm}]")
                body.append(f"T_{nm} = TypeVar('T_{nm}', bound={t()})")
            hdr = f"class {nm}({', '.join(bases)}):" if bases else f"class {nm}:"
            body.append(f"{hdr}\n    x: {t()}\n    def m(self, a: {t()}) -> {t()}:\n        return self.x\n"
                        f"    class Inner({rng.choice([x for x in names if x != nm])}):\n        y: {t()}")
        elif kind == "protocol":
            body.append(f"class {nm}(Protocol):\n    def m(self, a: {t()}) -> {t()}: ...\n    @property\n    def p(self) -> {t()}: ...")
        elif kind == "enum":
            body.append(f"class {nm}(enum.Enum):\n    A = 1\n    B = {rng.choice(names)}\n    def m(self) -> {t()}: ...")
        elif kind == "func":
            body.append(f"def {nm}(a: {t()}, b: {t()} = {rng.choice(names)}) -> {t()}:\n    return {rng.choice(names)}(a)")
        elif kind == "newtype":
            body.append(f"from typing import NewType\n{nm} = NewType('{nm}', {rng.choice(names + ['int'])})")
        elif kind == "typevar":
            body.append(f"{nm} = TypeVar('{nm}', {t()}, {t()})")
        elif kind == "generic":
            body.append(f"T_{nm} = TypeVar('T_{nm}')\nclass {nm}(Generic[T_{nm}], {rng.choice([x for x in names if x != nm])}):\n    v: T_{nm}\n"
                        f"    def get(self) -> '{nm}[{t()}]': ...")
        elif kind == "final":
            a, b = rng.randint(0, 99), rng.randint(0, 12)
            op = rng.choice(["+", "-", "*", "//", "%", "**", "<<", ">>", "&", "|", "^", "/"])
            body.append(f"{nm}: Final = {a} {op} {b}\nz_{nm}: {t()} = {nm}")
        elif kind == "overload":
            body.append(f"@overload\ndef {nm}(a: int) -> {t()}: ...\n@overload\ndef {nm}(a: str) -> {t()}: ...\n"
                        f"def {nm}(a: Any) -> Any:\n    return {rng.choice(names)}")
        elif kind == "partial":
            body.append(partial_block("p_" + nm.lower(), rng).rstrip("\n"))
        elif kind == "override":
            b, o, pl = rng.choice(list(UNINFERRED_BASES)), rng.choice(list(OVERRIDES)), rng.choice(PLACEMENTS)
            src = override_uninferred(b, o, pl)
            # keep the names of several such blocks apart
            for w in ("Base", "Local", "make", "Factory", "outer", "inner", "later", "deco"):
                src = src.replace(w, f"{w}_{nm}")
            body.append(src.replace("from typing import overload\n", "").rstrip("\n"))
        elif rng.random() < 0.7:
            body.append(defer_chain(rng.randint(1, 5), nm).rstrip("\n"))
        else:
            body.append(defer_cycle(rng.randint(1, 4), nm).rstrip("\n"))
    main = HEADER + "\n\n".join(body) + "\n"
    files: dict[str, str] = {}
    if rng.random() < 0.35:
        # an import cycle: part of the definitions move to m.py, both modules star-import each other
        cut = rng.randint(1, len(body) - 1)
        files["m.py"] = HEADER + "from main import *\n\n" + "\n\n".join(body[cut:]) + "\n"
        main = HEADER + "from m import *\nimport m\n\n" + "\n\n".join(body[:cut]) + "\n"
        shape.append("import-cycle")
    return main, files, "+".join(sorted(set(shape)))


def garble(src: str, rng) -> tuple[str, str]:
    """the malformed stream: (text, label)"""
    k = rng.choice(["cut", "nul", "tabs", "bracket", "bytes", "indent", "unicode", "longline", "keyword"])
    lines = src.split("\n")
    i = rng.randrange(max(len(lines), 1))
    if k == "cut":
        return src[:rng.randrange(len(src) + 1)], k
    if k == "nul":
        p = rng.randrange(len(src) + 1)
        return src[:p] + "\x00" + src[p:], k
    if k == "tabs":
        lines[i] = "\t" + lines[i]
        return "\n".join(lines), k
    if k == "bracket":
        p = rng.randrange(len(src) + 1)
        return src[:p] + rng.choice("([{)]}'\"\\") * rng.randint(1, 3) + src[p:], k
    if k == "bytes":
        p = rng.randrange(len(src) + 1)
        return src[:p] + rng.choice(["﻿", "\x0c", "\r", "\x1a", "\udcff\udcfe"]) + src[p:], k
    if k == "indent":
        lines[i] = " " * rng.randint(1, 9) + lines[i]
        return "\n".join(lines), k
    if k == "unicode":
        p = rng.randrange(len(src) + 1)
        return src[:p] + rng.choice(["é", "𝒳", "​", "ª", "١", "λ: int = 1\n"]) + src[p:], k
    if k == "longline":
        return src + "x = " + "(" * 150 + "1" + ")" * 150 + "\n" + "y = " + " + ".join(["1"] * 600) + "\n", k
    lines.insert(i, rng.choice(["match x:", "case _:", "type X[T] = T", "async def", "lambda: (yield)", "global N0",
                               "nonlocal N1", "del N0", "class N0[T: N1]: pass", "def f[**P, *Ts](): pass",
                               "from __future__ import annotations", "import main as N0", "__all__ = ['N0', N1]",
                               "if TYPE_CHECKING:", "else:", "try:", "except* N0:", "with N0() as N1:"]))
    return "\n".join(lines), k


# ------------------------------------------------------------------ config stream (per-module sections)
def config(rng) -> tuple[str, str]:
    """(ini text, label) — mostly valid per-module sections, some with values of the wrong kind"""
    pats = ["main", "m", "m.*", "*.m", "foo.*", "main.*", "*"]
    keys = [("disallow_untyped_defs", "bool"), ("ignore_errors", "bool"), ("ignore_missing_imports", "bool"),
            ("follow_imports", "choice"), ("disable_error_code", "codes"), ("enable_error_code", "codes"),
            ("warn_unreachable", "bool"), ("strict_optional", "bool"), ("always_true", "names"),
            ("python_version", "ver"), ("strict", "bool"), ("local_partial_types", "bool"), ("implicit_reexport", "bool"),
            ("untyped_calls_exclude", "names"), ("disallow_any_generics", "bool"), ("allow_redefinition", "bool")]
    bad = rng.random() < 0.45
    label = []
    out = ["[mypy]"]
    sections = [None] + [rng.choice(pats) for _ in range(rng.randint(1, 3))]
    for sec in sections:
        if sec is not None:
            out.append(f"[mypy-{sec}]")
        for _ in range(rng.randint(0, 3)):
            k, kind = rng.choice(keys)
            if kind == "bool":
                v = rng.choice(["True", "False", "yes", "0"]) if not (bad and rng.random() < 0.4) else rng.choice(["maybe", "", "2", "Tru"])
            elif kind == "choice":
                v = rng.choice(["normal", "silent", "skip", "error"]) if not (bad and rng.random() < 0.5) else rng.choice(["fast", "", "Normal"])
            elif kind == "codes":
                v = rng.choice(["attr-defined", "misc, arg-type", "unreachable", "truthy-bool"]) if not (bad and rng.random() < 0.6) \
                    else rng.choice(["bogus", "attr-defined, nope", ",", "ATTR-DEFINED", "1"])
            elif kind == "ver":
                v = rng.choice(["3.10", "3.12", "3.13"]) if not (bad and rng.random() < 0.5) else rng.choice(["2.7", "3", "three", "3.99"])
            else:
                v = rng.choice(["X", "a.b, c", "os.path"])
            out.append(f"{k} = {v}")
            label.append(("global" if sec is None else "module") + ":" + kind + (":bad" if bad else ""))
    return "\n".join(out) + "\n", ",".join(sorted(set(label))) or "empty"
