"""One batch run of mypy (`python -m mypy <args>` — `mypy.__main__.console_entry`) under observation.

    python child.py <trace.json> <lines.json> <seconds> -- <mypy args…>

Writes the counters read from outside (instrument.py) to <trace.json> when the process leaves through
`util.hard_exit` / `sys.exit`.  After <seconds> of CPU time the Python stack is dumped and the process is killed (the parent
treats that as a hang and reads the innermost mypy frame from the dump).  The address
space is limited so that a runaway allocation is a MemoryError inside mypy, not an OOM kill of the sandbox.
"""
import atexit
import faulthandler
import json
import os
import resource
import signal
import sys


def main() -> None:
    trace_path, lines_path, seconds = sys.argv[1], sys.argv[2], float(sys.argv[3])
    args = sys.argv[5:]
    limit = int(os.environ.get("VERIF_C20_AS_LIMIT", str(3 << 30)))
    try:
        resource.setrlimit(resource.RLIMIT_AS, (limit, limit))
    except (ValueError, OSError):
        pass
    # the time limit is CPU time (the machine may be heavily loaded): at the soft limit the kernel sends SIGXCPU,
    # on which faulthandler dumps the Python stack (a C-level handler: works inside a long C call); at the hard
    # limit the process is killed.  A generous wall-clock watchdog catches a process that merely waits.
    faulthandler.register(signal.SIGXCPU, file=sys.stderr, all_threads=False, chain=False)
    try:
        resource.setrlimit(resource.RLIMIT_CPU, (int(seconds), int(seconds) + 2))
    except (ValueError, OSError):
        pass
    faulthandler.dump_traceback_later(seconds * 12, exit=True, file=sys.stderr)
    import instrument
    with open(lines_path) as f:
        lines = json.load(f)
    import mypy.main  # noqa: F401  (imports build, checker, semanal, errors …)
    import mypy.server.update  # noqa: F401
    import mypy.util as util
    instrument.install(lines)
    instrument.install_main()
    done = {"v": False}

    def dump() -> None:
        if done["v"]:
            return
        done["v"] = True
        try:
            with open(trace_path, "w") as f:
                json.dump(instrument.TRACE, f)
        except OSError:
            pass

    atexit.register(dump)
    orig_hard_exit = util.hard_exit

    def hard_exit(status: int = 0):
        dump()
        orig_hard_exit(status)

    util.hard_exit = hard_exit
    sys.argv = ["mypy"] + args
    from mypy.__main__ import console_entry
    console_entry()


if __name__ == "__main__":
    main()
