"""The repository corpus for C20: every `[case …]` of test-data/unit/check-*.test as a small program
(main source + extra files + the harmless part of its `# flags:` line)."""
from __future__ import annotations

import glob
import os
import re
import shlex
from dataclasses import dataclass, field

# flags of `# flags:` lines that are kept (everything else — config files, cache/report/paths, parallel mode,
# plugins, custom typeshed — is dropped: those cases are run with the remaining flags)
BOOL_FLAGS = {
    "--strict", "--strict-optional", "--no-strict-optional", "--disallow-untyped-defs", "--disallow-untyped-calls",
    "--disallow-incomplete-defs", "--disallow-any-generics", "--disallow-any-expr", "--disallow-any-explicit",
    "--disallow-any-decorated", "--disallow-any-unimported", "--disallow-subclassing-any", "--check-untyped-defs",
    "--warn-unreachable", "--warn-return-any", "--warn-no-return", "--no-warn-no-return", "--warn-redundant-casts",
    "--warn-unused-ignores", "--no-implicit-optional", "--implicit-optional", "--strict-equality",
    "--strict-equality-for-none", "--extra-checks", "--local-partial-types", "--allow-redefinition",
    "--allow-redefinition-new", "--allow-redefinition-old", "--allow-untyped-globals", "--no-implicit-reexport",
    "--implicit-reexport", "--show-error-codes", "--hide-error-codes", "--show-column-numbers", "--show-error-end",
    "--pretty", "--show-error-context", "--no-namespace-packages", "--namespace-packages", "--ignore-missing-imports",
    "--follow-untyped-imports", "--disallow-untyped-decorators", "--no-check-untyped-defs", "--strict-bytes",
    "--no-strict-bytes", "--disable-bytearray-promotion", "--disable-memoryview-promotion", "--no-color-output",
    "--no-error-summary", "--no-incremental", "--force-uppercase-builtins", "--no-force-uppercase-builtins",
    "--force-union-syntax", "--no-force-union-syntax", "--show-error-code-links", "--no-site-packages",
    "--no-silence-site-packages", "--semantic-analysis-only", "--report-deprecated-as-note",
    "--disallow-empty-bodies", "--allow-empty-bodies", "--fixed-format-cache", "--no-sqlite-cache", "--sqlite-cache",
    "--scripts-are-modules", "--warn-incomplete-stub", "--warn-unused-configs", "--strict-concatenate",
}
VALUE_FLAGS = {"--python-version", "--platform", "--always-true", "--always-false", "--enable-error-code",
               "--disable-error-code", "--enable-incomplete-feature", "--follow-imports"}


@dataclass
class Case:
    name: str                     # check-foo.test:testBar
    main: str
    files: dict[str, str] = field(default_factory=dict)
    flags: list[str] = field(default_factory=list)


def filter_flags(line: str) -> list[str]:
    try:
        toks = shlex.split(line)
    except ValueError:
        return []
    out: list[str] = []
    i = 0
    while i < len(toks):
        t = toks[i]
        if t in BOOL_FLAGS:
            out.append(t)
        elif t.split("=")[0] in VALUE_FLAGS:
            if "=" in t:
                out.append(t)
            elif i + 1 < len(toks):
                out += [t, toks[i + 1]]
                i += 1
        elif t.split("=")[0].startswith("--") and "=" not in t and i + 1 < len(toks) and not toks[i + 1].startswith("-"):
            i += 1       # an unknown flag with a value: drop both
        i += 1
    # python versions below 3.9 are rejected by mypy itself with a usage error: fine, but pointless
    res: list[str] = []
    skip = False
    for j, t in enumerate(out):
        if skip:
            skip = False
            continue
        if t == "--python-version" and j + 1 < len(out):
            m = re.fullmatch(r"3\.(\d+)", out[j + 1])
            if not m or int(m.group(1)) < 9:
                skip = True
                continue
        res.append(t)
    return res


SECTION = re.compile(r"^\[([a-zA-Z_]+)(?: ([^\]]*))?\]\s*$")
SAFE_PATH = re.compile(r"^[A-Za-z0-9_][A-Za-z0-9_./-]*\.(py|pyi)$")


def parse_test_file(path: str) -> list[Case]:
    base = os.path.basename(path)
    cases: list[Case] = []
    cur: Case | None = None
    sect: tuple[str, str | None] | None = None
    buf: list[str] = []

    def flush() -> None:
        nonlocal buf
        if cur is None or sect is None:
            buf = []
            return
        text = "\n".join(buf).rstrip("\n") + "\n"
        kind, arg = sect
        if kind == "case":
            lines = text.split("\n")
            if lines and lines[0].startswith("# flags:"):
                cur.flags = filter_flags(lines[0][len("# flags:"):])
            cur.main = text
        elif kind == "file" and arg and SAFE_PATH.match(arg) and ".." not in arg:
            cur.files[arg] = text
        buf = []

    with open(path, encoding="utf8") as f:
        for raw in f:
            line = raw.rstrip("\n")
            m = SECTION.match(line)
            if m and not line.startswith("[["):
                kind, arg = m.group(1), m.group(2)
                if kind == "case":
                    flush()
                    name = (arg or "").split("-")[0]
                    cur = Case(f"{base}:{name}", "")
                    cases.append(cur)
                    sect = ("case", None)
                    continue
                if kind in ("file", "out", "out2", "out3", "builtins", "typing", "stale", "rechecked", "delete",
                            "targets", "triggered", "stale2", "rechecked2", "stale3", "rechecked3", "skip_path_normalization") \
                        or re.fullmatch(r"(out|stale|rechecked|targets|triggered|delete)\d*", kind):
                    flush()
                    sect = (kind, arg)
                    continue
            if line.startswith("--") and sect and sect[0] == "case" and not buf:
                continue        # comment lines of the test file before the case body
            buf.append(raw.rstrip("\n"))
        flush()
    return [c for c in cases if c.main.strip()]


_CACHE: dict[str, list[Case]] = {}


def load(repo: str) -> list[Case]:
    if repo not in _CACHE:
        out: list[Case] = []
        for p in sorted(glob.glob(os.path.join(repo, "test-data", "unit", "check-*.test"))):
            out += parse_test_file(p)
        _CACHE[repo] = out
    return _CACHE[repo]
