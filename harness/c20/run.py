"""C20 — any input produces diagnostics, never an internal failure.

Category `other`: Lean proves the *mechanism* (every modelled fix-point loop leaves within the cap read from the
source for any oracle; every exit goes through the funnel with status 0/1/2; the acceptance predicate accepts
exactly the clean runs of the model).  The universal clause "no input makes the real analyser raise or stall" is
NOT proved — it is searched, by mutation and trace validation, and the evidence says so.

1. translators → Lean: Props/C20 (`caps_wf`, `exits_recognised`, `loops_terminate`, `status_in_range`, …).
2. Tie (a) — loop structure, model vs code: the real `process_top_levels`, `process_top_level_function` and
   `propagate_changes_using_dependencies` are run against *scripted oracles* (the analyser replaced by a script)
   and must leave exactly as the model does; deferral-chain programs of depth k are checked for real and must
   show the pass numbers / second-pass calls the model predicts.
   Tie (b) — trace validation: every real run below is observed from outside (line events on the loop counters,
   exit status, markers in the output) and the observation must be accepted by the model (`Driver/C20.lean`).
3. Search: corpus programs × one or two structure-aware mutations (incl. `nest`: a refining call nested in an
   argument of itself) + generated programs (deferral chains / cycles, overrides of never-inferred attributes at
   every placement, partial types refined in nested places) + a malformed stream + per-module config sections,
   as single batch runs (subprocesses) and as successive daemon edits (in-process Server driven like
   `dmypy check main.py`, follow-imports=normal; single programs replaced wholesale, and multi-module projects
   with import cycles where several cycle members are edited per request), which must keep answering within the
   CPU limit and agree with a fresh run on unmutated probe programs.  When a defer site of checker.py loses its
   `pass_num < last_pass` guard, the programs of the family that reaches that site (gen.DEFER_SITE_FAMILIES) are run.  A crash, a hang
   or a rejected trace is minimised (delete lines while the same failure persists) and reported with the input;
   known crash classes are matched narrowly (class + exception type + innermost mypy frame).
"""
from __future__ import annotations

import contextlib
import hashlib
import json
import os
import re
import shutil
import signal
import subprocess
import sys
import threading
import time
from concurrent.futures import ThreadPoolExecutor
from types import SimpleNamespace

from harness.vlib.core import Ctx, PY, REPO, ToolFailure, repo_env
from harness.c20 import corpus, gen, mutate

HERE = os.path.dirname(os.path.abspath(__file__))
CHILD = os.path.join(HERE, "child.py")
DWORKER = os.path.join(HERE, "dworker.py")
MODEL_FILES = ["MypyVerif/Model/Driver.lean", "MypyVerif/Proofs/Driver.lean", "MypyVerif/Gen/DriverCaps.lean"]
NPROC = 12
# development knob (default 1): scales the number of mutants / daemon steps, e.g. for the self-test mutations
SCALE = float(os.environ.get("VERIF_C20_SCALE", "1") or 1)
BASE_FLAGS = ["--show-traceback", "--no-color-output"]


# ===================================================================================== helpers
_MTIME_LOCK = __import__("threading").Lock()
_MTIME_NEXT = [1_600_000_000]


def write_files(d: str, files: dict[str, str]) -> None:
    """Every file written gets an mtime of its own (whole seconds, strictly increasing over the run).  Jobs share
    per-slot cache directories and all call their module `main`: two programs of the same size written within one
    second would otherwise look unchanged to validate_meta's (mtime, size) fast path (finding F7) and the second
    job would be answered from the first one's cache entry without being checked."""
    for name, text in files.items():
        p = os.path.join(d, name)
        os.makedirs(os.path.dirname(p) or d, exist_ok=True)
        with open(p, "w", encoding="utf8", errors="surrogateescape", newline="") as f:
            f.write(text)
        with _MTIME_LOCK:
            _MTIME_NEXT[0] += 2
            t = _MTIME_NEXT[0]
        os.utime(p, (t, t))


def innermost_from_traceback(text: str) -> tuple[str | None, str | None, str | None, str | None]:
    """(exception type, file, function, calling function) of the innermost mypy frame of the last traceback"""
    frames = re.findall(r'File "[^"]*/(mypyc?/[^"]+)", line \d+, in (\S+)', text)
    exc = None
    for m in re.finditer(r"^([A-Za-z_][\w.]*(?:Error|Exception|Exit|Interrupt|Warning))(?::|$)", text, flags=re.M):
        exc = m.group(1)
    if frames:
        caller = next((fn for _f, fn in reversed(frames[:-1]) if fn != frames[-1][1]), None)
        return exc, os.path.basename(frames[-1][0]), frames[-1][1], caller
    return exc, None, None, None


def caller_of(text: str) -> str | None:
    return innermost_from_traceback(text)[3]


def innermost_from_dump(text: str) -> tuple[str | None, str | None]:
    """faulthandler dump ("most recent call first"): first mypy frame"""
    m = re.search(r'File "[^"]*/(mypyc?/[^"]+)", line \d+ in (\S+)', text)
    return (os.path.basename(m.group(1)), m.group(2)) if m else (None, None)


class Runner:
    """runs mypy (observed child or plain `python -m mypy`) in scratch directories with per-slot cache dirs"""

    def __init__(self, ctx: Ctx, lines: dict):
        self.ctx = ctx
        self.root = os.path.join(ctx.tmp, "b")
        os.makedirs(self.root, exist_ok=True)
        self.lines_path = os.path.join(ctx.tmp, "lines.json")
        with open(self.lines_path, "w") as f:
            json.dump(lines, f)
        self.inner = ctx.pick(20, 30)          # CPU seconds before the stack is dumped and the run counts as a hang
        self.env = repo_env({"PYTHONIOENCODING": "utf8:backslashreplace", "MYPY_FORCE_COLOR": "", "TERM": "dumb",
                             "COLUMNS": "200"})
        self.env.pop("MYPYPATH", None)
        self._slot = threading.local()
        self._n = 0
        self._lock = threading.Lock()
        self.seed_cache = os.path.join(ctx.tmp, "cache_seed")

    def warm(self) -> None:
        d = os.path.join(self.root, "warm")
        os.makedirs(d)
        write_files(d, {"main.py": gen.HEADER + "import collections, abc, functools, itertools, os, sys, re, types\n"
                                                "import contextlib, asyncio, unittest, json\n"})
        r = subprocess.run([PY, "-m", "mypy", "--cache-dir", self.seed_cache, "main.py"], cwd=d, env=self.env,
                           capture_output=True, text=True, timeout=300)
        if r.returncode not in (0, 1):
            raise ToolFailure("cannot warm the cache: " + r.stdout + r.stderr)

    def slot(self) -> int:
        if not hasattr(self._slot, "k"):
            with self._lock:
                self._slot.k = self._n
                self._n += 1
        return self._slot.k

    def cache_dir(self, flags: list[str]) -> str:
        # one cache per worker thread and per flag set (a different flag set invalidates the stdlib cache)
        key = hashlib.sha1(" ".join(sorted(flags)).encode()).hexdigest()[:8]
        d = os.path.join(self.ctx.tmp, f"cache_{self.slot()}_{key}")
        if not os.path.isdir(d) and os.path.isdir(self.seed_cache) and not flags:
            shutil.copytree(self.seed_cache, d)
        return d

    def run(self, idx: str, files: dict[str, str], flags: list[str], observed: bool = True,
            timeout: float | None = None, target: list[str] | None = None, keep: bool = False) -> dict:
        d = os.path.join(self.root, idx)
        if os.path.isdir(d):
            shutil.rmtree(d)
        os.makedirs(d)
        write_files(d, files)
        args = BASE_FLAGS + ["--cache-dir", self.cache_dir(flags)] + flags + (target or ["main.py"])
        trace_path = os.path.join(d, ".trace.json")
        inner = timeout or self.inner
        if observed:
            cmd = [PY, CHILD, trace_path, self.lines_path, str(inner), "--"] + args
        else:
            cmd = [PY, "-m", "mypy"] + args
        t0 = time.time()
        try:
            p = subprocess.run(cmd, cwd=d, env=self.env, capture_output=True, timeout=inner * 12 + 30)
            rc: int | None = p.returncode
            out = p.stdout.decode("utf8", "backslashreplace")
            err = p.stderr.decode("utf8", "backslashreplace")
        except subprocess.TimeoutExpired as e:
            rc = None
            out = (e.stdout or b"").decode("utf8", "backslashreplace")
            err = (e.stderr or b"").decode("utf8", "backslashreplace")
        res = {"rc": rc, "out": out, "err": err, "wall": time.time() - t0, "trace": None, "cmd": "mypy " + " ".join(args)}
        if observed and (re.search(r"^Timeout \(\d+:\d+:\d+\)!", err, flags=re.M) or
                         (rc is not None and rc < 0 and "most recent call first" in err)):
            res["rc"] = None                     # CPU limit / watchdog: a hang (the exit status means nothing)
        if observed and os.path.exists(trace_path):
            try:
                res["trace"] = json.load(open(trace_path))
            except ValueError:
                pass
        if not keep:
            shutil.rmtree(d, ignore_errors=True)
        return res


def obs_line(res: dict, daemon_status: int | None = None) -> str:
    """the `O` line of Driver/C20.lean for one observed run"""
    t = res.get("trace") or {}
    text = res.get("out", "") + res.get("err", "")
    ie = int("INTERNAL ERROR" in text or bool(t.get("internal_error")))
    tb = int("Traceback (most recent call last)" in text)
    status = res["rc"] if daemon_status is None else daemon_status
    via_main = int(bool(t.get("via_main"))) if daemon_status is None else 0
    return "O %s %d %d %d %d %d %d %d %d %d %d %d %d %d %d %d" % (
        "T" if status is None else status, ie, tb, int(bool(t.get("hang_reported"))),
        t.get("top_iters", 0), t.get("func_iters", 0), t.get("pass_num", 0), t.get("second_calls", 0), t.get("sweeps", 0),
        t.get("fg_iters", 0), t.get("fg_pass_num", 0), t.get("fg_calls", 0),
        via_main, t.get("blockers", 0), t.get("n_messages", 0), t.get("n_notes", 0))


def classify(res: dict, reason: str) -> dict:
    """the observed failure as a dict that known-finding entries are matched against"""
    text = res.get("out", "") + "\n" + res.get("err", "")
    if res["rc"] is None:
        f, fn = innermost_from_dump(res.get("err", ""))
        return {"class": "hang", "file": f, "frame": fn}
    if res["rc"] not in (0, 1, 2):
        exc, f, fn, caller = innermost_from_traceback(text)
        return {"class": "status-out-of-range", "status": res["rc"], "exc": exc, "frame": fn}
    if "Traceback (most recent call last)" in text or "INTERNAL ERROR" in text:
        exc, f, fn, caller = innermost_from_traceback(text)
        if "maximum semantic analysis iteration count" in text and fn is None:
            # which of the two loops gave up: the function loop is left at a smaller counter value than the
            # top-level loop can reach, so the larger of the two observed maxima tells
            t = res.get("trace") or {}
            loop = "top-levels" if t.get("top_iters", 0) > t.get("func_iters", 0) else "function"
            return {"class": "semanal-iteration-cap", "exc": None, "file": "semanal_main.py", "frame": "report_hang", "loop": loop}
        return {"class": "crash", "exc": exc, "file": f, "frame": fn, "caller": caller}
    return {"class": "trace-rejected", "reason": reason}


# ===================================================================================== tie (a): scripted oracles
class _Runaway(Exception):
    pass


def _entry(script: list[str], i: int) -> str:
    return script[min(i, len(script)) - 1]


def real_sem_loop(kind: str, script: list[str], nmods: int, rng, counters: dict, cap: int) -> str:
    """Run the real loop with `semantic_analyze_target` replaced by the script; returns `exit=… iters=…`."""
    import mypy.semanal_main as sm
    budget = max(4 * len(script), 2 * cap) + 64

    class Analyzer:
        def __init__(self):
            self.deferral_debug_context = []
            self.saved_locals = {}
            self.incomplete_namespaces = set()
            self.hang = 0

        def prepare_file(self, tree):
            pass

        def file_context(self, tree, options):
            return contextlib.nullcontext()

        def report_hang(self):
            self.hang += 1

    analyzer = Analyzer()
    manager = SimpleNamespace(semantic_analyzer=analyzer, incomplete_namespaces=set(), processed_targets=[])
    graph = {f"m{j}": SimpleNamespace(tree=object(), manager=manager, options=None, id=f"m{j}") for j in range(nmods)}
    st = {"sweep": 0, "new": True, "plan": {}}
    by_line = bool(counters.get("have_lines"))

    def fake(target, module, state, node, active_type, final_iteration, patches):
        # a new sweep starts at every `iteration += 1` (seen from outside by the line event); without line
        # information every call is its own sweep (then only single-module work lists are used)
        if st["new"] or not by_line:
            st["new"] = False
            st["sweep"] += 1
            if st["sweep"] > budget:
                raise _Runaway()
            e = _entry(script, st["sweep"])
            st["plan"] = {"d": (e[1] if final_iteration else e[0]) == "1", "p": e[2] == "1", "first": True}
        plan = st["plan"]
        first = plan["first"]
        plan["first"] = False
        # the sweep as a whole defers / progresses exactly when the script says so: the first call carries it,
        # further modules of the same sweep add to it at random (never contradict it)
        d = plan["d"] and (first or rng.random() < 0.5)
        p = plan["p"] and (first or rng.random() < 0.5)
        return ([target] if d else [], d, p)

    def on_iter():
        st["new"] = True

    counters["on_iter"] = on_iter
    counters["n"] = 0
    counters["calls"] = 0
    orig = sm.semantic_analyze_target
    sm.semantic_analyze_target = fake
    try:
        try:
            if kind == "top":
                sm.process_top_levels(graph, list(graph), [])
            else:
                sm.process_top_level_function(analyzer, graph["m0"], "m0", "m0.f", object(), None, [])
            exit_ = "capHit" if analyzer.hang else "converged"
        except AssertionError:
            exit_ = "deferInFinal"
        except _Runaway:
            exit_ = "fuelOut"
    finally:
        sm.semantic_analyze_target = orig
        counters["on_iter"] = None
    return f"exit={exit_} iters={counters['n']}"


def real_fg_loop(script: list[str], counters: dict, cap: int) -> str:
    import mypy.server.update as upd
    budget = max(4 * len(script), 2 * cap) + 64
    st = {"k": 0}

    def pend(k: int) -> bool:
        return (script[k] if k < len(script) else script[-1]) == "1"

    def fake_find(manager, graph, triggered, deps, up_to_date):
        return ({"m": {object()}}, set(), set())

    def fake_reprocess(manager, graph, module_id, nodes, deps, processed_targets):
        st["k"] += 1
        if st["k"] > budget:
            raise _Runaway()
        return {"<t>"} if pend(st["k"]) else set()

    manager = SimpleNamespace(log_fine_grained=lambda *a: None, options=SimpleNamespace(verbosity=0))
    graph = {"m": SimpleNamespace(xpath="m.py")}
    counters["on_iter"] = None
    counters["n"] = 0
    of, orp = upd.find_targets_recursive, upd.reprocess_nodes
    upd.find_targets_recursive, upd.reprocess_nodes = fake_find, fake_reprocess
    try:
        try:
            upd.propagate_changes_using_dependencies(manager, graph, {}, {"<t>"} if pend(0) else set(), set(), set(), [])
            exit_ = "done"
        except RuntimeError:
            exit_ = "runtimeError"
        except _Runaway:
            exit_ = "fuelOut"
    finally:
        upd.find_targets_recursive, upd.reprocess_nodes = of, orp
    return f"exit={exit_} iters={counters['n']}"


def install_line_counters(lines: dict) -> dict:
    """line events (sys.monitoring) on the three counter increments in *this* process; the per-call count is in
    counters['n'] (reset by the caller), counters['on_iter'] is called at every increment"""
    import mypy.semanal_main as sm
    import mypy.server.update as upd
    mon = sys.monitoring
    tool = 3
    counters: dict = {"n": 0, "on_iter": None, "have_lines": all(lines.get(k) for k in (
        "process_top_levels", "process_top_level_function", "propagate_changes_using_dependencies"))}
    try:
        mon.use_tool_id(tool, "verif-c20-harness")
    except ValueError:
        pass
    watch = {}
    for mod, fname in ((sm, "process_top_levels"), (sm, "process_top_level_function"),
                       (upd, "propagate_changes_using_dependencies")):
        fn = getattr(mod, fname, None)
        if fn is not None and lines.get(fname):
            watch[fn.__code__] = lines[fname]
            mon.set_local_events(tool, fn.__code__, mon.events.LINE)

    def on_line(code, line):
        if watch.get(code) != line:
            return mon.DISABLE
        counters["n"] += 1
        if counters["on_iter"]:
            counters["on_iter"]()
        return None

    mon.register_callback(tool, mon.events.LINE, on_line)
    counters["_off"] = lambda: (mon.register_callback(tool, mon.events.LINE, None), mon.free_tool_id(tool))
    return counters


def loop_correspondence(ctx: Ctx, info: dict, runner: Runner) -> None:
    rng = ctx.rng
    counters = install_line_counters(info["lines"])
    cases: list[tuple[str, object]] = []
    bits = ["000", "001", "100", "101", "110", "111", "010", "011"]
    # exhaustive short scripts (≤ 3 entries over the 4 entries that matter most) + random long ones
    core = ["001", "100", "101", "111"]
    short = [[a] for a in core] + [[a, b] for a in core for b in core] + [[a, b, c] for a in core for b in core for c in core]
    nrand = ctx.pick(150, 1500)
    for kind in ("top", "func"):
        for sc in short:
            cases.append((f"S {kind} " + " ".join(sc), (kind, sc, 1)))
        for _ in range(nrand):
            n = rng.choice([1, 2, 3, 5, 8, 18, 19, 20, 21, 22, 25, 30])
            # mostly "defer with progress" so that long scripts reach the neighbourhood of the cap
            sc = [rng.choice(bits) if rng.random() < 0.15 else "101" for _ in range(n)]
            sc[-1] = rng.choice(["001", "000", "101", "100", "111"])
            nm = rng.randint(1, 3) if (kind == "top" and counters["have_lines"]) else 1
            cases.append((f"S {kind} " + " ".join(sc), (kind, sc, nm)))
    for _ in range(ctx.pick(40, 300)):
        n = rng.choice([1, 2, 3, 10, 999, 1000, 1001, 1002, 1100])
        sc = ["1"] * (n - 1) + [rng.choice(["0", "1"])]
        if rng.random() < 0.3:
            sc = [rng.choice("01") for _ in range(rng.randint(1, 12))]
        cases.append(("F " + " ".join(sc), ("fg", sc, 1)))
    model = ctx.lean_driver("Driver/C20.lean", [c[0] for c in cases])
    if len(model) != len(cases):
        raise ToolFailure("Driver/C20 returned %d lines for %d cases" % (len(model), len(cases)))
    diffs = []
    try:
        for (line, (kind, sc, nm)), m in zip(cases, model):
            real = real_fg_loop(sc, counters, info["maxIter"]) if kind == "fg" \
                else real_sem_loop(kind, sc, nm, rng, counters, info["maxIterations"])
            ctx.case(("loop", line[:200], nm), nontrivial=len(sc) > 1)
            ctx.dist("scripted_loop", kind)
            ctx.dist("scripted_exit", m.split()[0])
            ctx.count("traces_validated_against_impl")
            if real != m:
                diffs.append((line, nm, real, m))
    finally:
        counters["_off"]()
    ctx.sample({"scripted_oracle_case": cases[len(short) + 3][0][:120], "model_and_code": model[len(short) + 3]})
    ctx.coverage["scripted_loop_disagreements"] = len(diffs)
    ctx.count("disagreements_checked", len(diffs))
    if diffs:
        line, nm, real, m = diffs[0]
        # A difference between the loop and its model is a broken tie; whether the property fails is decided by
        # the search below (a real input that hangs / crashes).  Remember it for the final verdict.
        ctx.broken_ties.append(f"scripted-oracle correspondence: `{line[:160]}` ({nm} module(s)): code {real}, model {m}"
                               f" [{len(diffs)} differing case(s)]")

    # ---- deferral chains through the real checker (batch)
    ks = list(range(0, 7))
    jobs = []
    for k in ks:
        for extra in ([], [rng.randint(0, 5)], [rng.randint(0, 5), rng.randint(0, 5)]):
            chain = [k] + extra
            # (a unique first line: two programs with the same text in one cache directory would make the second run
            # replay the cached result of the first instead of checking anything)
            src = f"# chain {chain} #{len(jobs)} seed {ctx.seed}\n" + "".join(gen.defer_chain(kk, f"C{j}") for j, kk in enumerate(chain))
            jobs.append((chain, src))
    for k in range(1, 4):
        # a cycle never resolves: the model's oracle "wants to defer in every pass" (depth 99)
        jobs.append(([99], f"# cycle {k} seed {ctx.seed}\n" + gen.defer_cycle(k, "Y")))
    lines = ["P " + " ".join(str(k) for k in ch) for ch, _ in jobs]
    model = ctx.lean_driver("Driver/C20.lean", lines)
    with ThreadPoolExecutor(max_workers=NPROC) as ex:
        results = list(ex.map(lambda a: runner.run(f"chain{a[0]}", {"main.py": a[1][1]}, []), enumerate(jobs)))
    cdiffs = []
    for (chain, src), m, res in zip(jobs, model, results):
        t = res["trace"] or {}
        mm = dict(kv.split("=") for kv in m.split())
        want_pass = max(int(x) for x in mm["pass"].split(","))
        want_calls = max(int(x) for x in mm["calls"].split(","))
        # one module per program: the module-level maxima of the model are what the single checker shows
        got = (t.get("pass_num"), t.get("second_calls"))
        cap = info["defaultLastPass"]
        want_err = any(k > cap for k in chain)
        got_err = "Cannot determine type" in res["out"]
        ctx.case(("chain", chain))
        ctx.dist("defer_chain_depth", str(max(chain)))
        ctx.count("traces_validated_against_impl")
        if res["rc"] not in (0, 1) or got != (want_pass, want_calls) or want_err != got_err:
            cdiffs.append((chain, got, (want_pass, want_calls), want_err, got_err, res["rc"]))
    ctx.coverage["defer_chain_disagreements"] = len(cdiffs)
    ctx.count("disagreements_checked", len(cdiffs))
    if cdiffs:
        c = cdiffs[0]
        ctx.broken_ties.append(f"deferral-chain correspondence: chain {c[0]}: code (pass_num, second-pass calls)={c[1]} "
                               f"model {c[2]}; 'Cannot determine type' expected={c[3]} got={c[4]} rc={c[5]} "
                               f"[{len(cdiffs)} differing case(s)]")


# ===================================================================================== search: batch
def make_batch_jobs(ctx: Ctx, n: int, avoid_known: bool = True) -> list[dict]:
    rng = ctx.rng
    cases = corpus.load(REPO)
    if len(cases) < 1000:
        raise ToolFailure(f"corpus too small: {len(cases)} cases under {REPO}/test-data/unit")
    jobs = []
    special = [c for c in cases if mutate.has_special_forms(c.main)]
    for i in range(n):
        r = rng.random()
        if i < 2:
            # error-path amplifier, whole: every value of the typed universe against every parameter type (one program per
            # rendering mode; the forms are drawn anew, so the two texts differ and neither is answered from the cache)
            n_u = len(gen.MATRIX_UNIVERSE)
            src, _lab = gen.mismatch_matrix(rng, n_u, n_u - 2)
            jobs.append({"id": f"M{i}", "origin": "gen:mismatch-matrix-full", "kinds": ["generated"], "files": {"main.py": src},
                         "flags": [] if i == 0 else [rng.choice(["--pretty", "--show-error-context"])]})
        elif r < 0.025:
            # … and in random parts (a crash in one message hides the later ones of the same program), sometimes mutated
            src, lab = gen.mismatch_matrix(rng, rng.randint(6, 16), rng.randint(5, 12))
            kinds = ["generated"]
            if rng.random() < 0.4:
                k = rng.choice(["elements", "misarg", "retype", "crosswire"])
                src = mutate.mutate(k, src, rng, "")
                kinds.append(k)
            jobs.append({"id": f"X{i}", "origin": "gen:" + lab, "kinds": kinds, "files": {"main.py": src},
                         "flags": rng.choice([[], [], ["--pretty"], ["--show-error-context"]])})
        elif r < 0.085:
            # element-level mutations inside special forms / plugin-handled calls: cases of the corpus that contain them
            c = rng.choice(special)
            files = dict(c.files)
            files["main.py"] = c.main
            kinds = []
            for _k in range(rng.choice([1, 1, 2])):
                tgt = "main.py" if (not c.files or rng.random() < 0.8 or not mutate.has_special_forms("".join(c.files.values()))) \
                    else rng.choice(sorted(files))
                files[tgt] = mutate.elements(files[tgt], rng)
                kinds.append("elements")
            if rng.random() < 0.25:
                files["main.py"] = mutate.misarg(files["main.py"], rng)
                kinds.append("misarg")
            jobs.append({"id": f"e{i}", "origin": c.name, "kinds": kinds, "files": files, "flags": []})
        elif r < 0.12:
            # partial types refined in nested places (incl. refining calls nested in refining calls on the same variable)
            blocks = [gen.partial_block(f"v{j}", rng) for j in range(rng.randint(2, 5))]
            jobs.append({"id": f"p{i}", "origin": "gen:partial-focus", "kinds": ["generated"],
                         "files": {"main.py": "\n".join(blocks)}, "flags": []})
        elif r < 0.78:
            c = rng.choice(cases)
            o = rng.choice(cases)
            files = dict(c.files)
            files["main.py"] = c.main
            kinds = [rng.choice(mutate.KINDS)]
            if rng.random() < 0.5:
                kinds.append(rng.choice(mutate.KINDS))
            for k in kinds:
                tgt = "main.py" if (not c.files or rng.random() < 0.75) else rng.choice(sorted(files))
                files[tgt] = mutate.mutate(k, files[tgt], rng, o.main)
            # the case's own flags only for a fifth of the flagged cases: every distinct flag set costs a cold cache
            flags = list(c.flags) if (c.flags and rng.random() < 0.2) else []
            jobs.append({"id": f"m{i}", "origin": c.name, "kinds": kinds, "files": files, "flags": flags})
        elif r < 0.91:
            main, files, shape = gen.program(rng)
            files = dict(files)
            files["main.py"] = main
            kinds = ["generated"]
            if rng.random() < 0.4:
                k = rng.choice(mutate.KINDS)
                files["main.py"] = mutate.mutate(k, files["main.py"], rng, rng.choice(cases).main)
                kinds.append(k)
            jobs.append({"id": f"g{i}", "origin": "gen:" + shape, "kinds": kinds, "files": files, "flags": []})
        elif r < 0.97:
            if rng.random() < 0.5:
                c = rng.choice(cases)
                src, files, origin, flags = c.main, dict(c.files), c.name, []
            else:
                src, files, shape = gen.program(rng)
                files, origin, flags = dict(files), "gen:" + shape, []
            files["main.py"], label = gen.garble(src, rng)
            jobs.append({"id": f"x{i}", "origin": origin, "kinds": ["malformed:" + label], "files": files, "flags": flags})
        else:
            c = rng.choice([c for c in cases[:2000] if c.files] or cases)
            ini, label = gen.config(rng)
            files = dict(c.files)
            files["main.py"] = c.main
            files["cfg.ini"] = ini
            jobs.append({"id": f"c{i}", "origin": c.name, "kinds": ["config:" + label], "files": files,
                         "flags": ["--config-file", "cfg.ini"]})
    return jobs


def run_batch(ctx: Ctx, runner: Runner, jobs: list[dict]) -> list[dict]:
    def one(job):
        res = runner.run(job["id"], job["files"], job["flags"], timeout=job.get("timeout"))
        return res
    with ThreadPoolExecutor(max_workers=NPROC) as ex:
        return list(ex.map(one, jobs))


def same_failure(a: dict, b: dict) -> bool:
    keys = ("class", "exc", "frame", "caller", "status")
    return all(a.get(k) == b.get(k) for k in keys)


def shrink(runner: Runner, job: dict, sig: dict, budget: int = 48) -> dict:
    """delete files, then chunks of lines of each file, while the same failure (class, exception, frame) persists;
    the predicate is a plain `python -m mypy` run (observed child only for hangs, to read the stack dump)"""
    observed = sig["class"] in ("hang", "trace-rejected")
    tmo = 8 if sig["class"] == "hang" else None
    if sig["class"] == "hang":
        budget = min(budget, 12)          # every probe of a hanging input costs its whole time limit
    used = [0]

    def fails(files: dict[str, str]) -> bool:
        if used[0] >= budget:
            return False
        used[0] += 1
        res = runner.run(job["id"] + "_s", files, job["flags"], observed=observed, timeout=tmo)
        reason = ""
        if sig["class"] == "trace-rejected":
            return False          # needs the Lean driver; not minimised
        return same_failure(classify(res, reason), sig) if (res["rc"] is None or res["rc"] not in (0, 1) or
                                                            "INTERNAL ERROR" in res["out"] + res["err"] or
                                                            "Traceback" in res["out"] + res["err"]) else False

    files = dict(job["files"])
    for name in sorted(files):
        if name != "main.py" and name != "cfg.ini":
            trial = {k: v for k, v in files.items() if k != name}
            if fails(trial):
                files = trial
    for name in sorted(files):
        lines = files[name].split("\n")
        chunk = max(len(lines) // 2, 1)
        while chunk >= 1 and used[0] < budget:
            i = 0
            progress = False
            while i < len(lines) and used[0] < budget:
                trial_lines = lines[:i] + lines[i + chunk:]
                trial = dict(files)
                trial[name] = "\n".join(trial_lines)
                if trial_lines != lines and fails(trial):
                    lines = trial_lines
                    files = trial
                    progress = True
                else:
                    i += chunk
            if chunk == 1 and not progress:
                break
            chunk = chunk // 2 if chunk > 1 else (1 if progress else 0)
    return files


def handle_batch_failure(ctx: Ctx, runner: Runner, job: dict, res: dict, reason: str, what_prefix: str = "") -> None:
    sig = classify(res, reason)
    sig["mode"] = "batch"
    # confirm outside the observer: a plain `python -m mypy` run, alone on the machine's terms (3 × the time limit)
    if sig["class"] == "hang":
        again = runner.run(job["id"] + "_r", job["files"], job["flags"], observed=True, timeout=2 * runner.inner)
        if again["rc"] is not None:
            ctx.count("slow_but_finished")
            ok = ctx.lean_driver("Driver/C20.lean", [obs_line(again)])[0]
            if ok == "accepted":
                return
            res, reason = again, ok
            sig = classify(res, reason)
            sig["mode"] = "batch"
        else:
            sig = classify(again, reason)
            sig["mode"] = "batch"
    elif sig["class"] in ("crash", "status-out-of-range", "semanal-iteration-cap"):
        plain = runner.run(job["id"] + "_p", job["files"], job["flags"], observed=False)
        psig = classify(plain, reason)
        psig["mode"] = "batch"
        if not same_failure(psig, sig):
            again = runner.run(job["id"] + "_r", job["files"], job["flags"], observed=True)
            if same_failure(classify(again, reason), sig):
                raise ToolFailure(f"failure {sig} appears only under the observer (plain run: {psig}); input {job['id']}")
            ctx.count("flaky_not_reproduced")
            return
    files = job["files"]
    if sig["class"] in ("crash", "hang", "status-out-of-range", "semanal-iteration-cap"):
        files = shrink(runner, job, sig, budget=ctx.pick(40, 80))
    if ctx.match_known(sig) is None or not any(k == ctx.match_known(sig)["id"] for k, _ in ctx.known_hits):
        tail = (res["out"] + res["err"])[-1200:]
        ctx.report(sig, f"{what_prefix}mypy {sig['class']} ({sig.get('exc') or sig.get('reason') or ''} in "
                        f"{sig.get('file')}:{sig.get('frame')}) on {job['origin']} after {'+'.join(job['kinds'])}",
                   {"files": files, "flags": job["flags"], "cmd": "python -m mypy --show-traceback " + " ".join(job["flags"]) + " main.py",
                    "origin": job["origin"], "mutations": job["kinds"], "original_files": job["files"] if files != job["files"] else None,
                    "output_tail": tail, "model_verdict": reason})


def batch_search(ctx: Ctx, runner: Runner) -> None:
    n = max(int(ctx.pick(800, 8000) * SCALE), 20)
    jobs = make_batch_jobs(ctx, n)
    t0 = time.time()
    results = run_batch(ctx, runner, jobs)
    ctx.coverage["batch_wall_s"] = round(time.time() - t0, 1)
    verdicts = ctx.lean_driver("Driver/C20.lean", [obs_line(r) for r in results])
    if len(verdicts) != len(results):
        raise ToolFailure("Driver/C20 returned %d verdicts for %d runs" % (len(verdicts), len(results)))
    bad = 0
    sampled = False
    seen_sigs: set = set()
    nhang = 0
    for job, res, v in zip(jobs, results, verdicts):
        ctx.case(("batch", hashlib.sha1(json.dumps(job["files"], sort_keys=True).encode("utf8", "surrogatepass")).hexdigest(), job["flags"]),
                 nontrivial=True)
        for k in job["kinds"]:
            ctx.dist("mutation", k.split(":")[0])
        ctx.dist("origin", "generated" if job["origin"].startswith("gen:") else job["origin"].split(":")[0])
        ctx.dist("exit_status", str(res["rc"]))
        t = res["trace"] or {}
        ctx.dist("top_level_iterations", str(t.get("top_iters", "?")))
        ctx.dist("checker_pass_num", str(t.get("pass_num", "?")))
        ctx.count("traces_validated_against_impl")
        if res["trace"] is None and res["rc"] is not None and v == "accepted":
            # the run left without passing `hard_exit`/atexit (never seen); treat as machinery failure
            raise ToolFailure(f"no trace written by the observed run {job['id']} (rc={res['rc']}): {res['err'][-400:]}")
        if not sampled and t.get("top_iters", 0) >= 2 and v == "accepted":
            ctx.sample({"batch_run": job["origin"], "mutations": job["kinds"], "observation": obs_line(res), "model": v})
            sampled = True
        if v != "accepted":
            bad += 1
            ctx.count("disagreements_checked")
            sig0 = classify(res, v)
            sigkey = (sig0.get("class"), sig0.get("exc"), sig0.get("file"), sig0.get("frame"), sig0.get("caller"), sig0.get("reason"), sig0.get("loop"))
            if sig0["class"] == "hang":
                # a time-out may be a slow run: each one is re-examined (a few at most)
                nhang += 1
                if nhang <= 4:
                    handle_batch_failure(ctx, runner, job, res, v)
                continue
            if sigkey in seen_sigs:
                continue
            if len(seen_sigs) < ctx.pick(8, 24):
                seen_sigs.add(sigkey)
                handle_batch_failure(ctx, runner, job, res, v)
    ctx.coverage["batch_rejected_traces"] = bad


# ===================================================================================== search: daemon
def make_histories(ctx: Ctx, nhist: int, steps: int) -> list[list[dict]]:
    rng = ctx.rng
    stdlib = os.path.join(REPO, "mypy", "typeshed", "stdlib")

    def shadows(c) -> bool:
        # an extra file named like a stdlib module (builtins.py, typing.pyi …) is rejected up front by a batch run
        # ("shadows library module") but not by the daemon: such cases are left to the batch stream
        for n in c.files:
            top = n.split("/")[0].rsplit(".", 1)[0]
            if os.path.exists(os.path.join(stdlib, top + ".pyi")) or os.path.isdir(os.path.join(stdlib, top)) \
                    or top in ("typing_extensions", "mypy_extensions", "_typeshed"):
                return True
        return False

    cases = [c for c in corpus.load(REPO) if not c.flags and not shadows(c)]
    plain = [c for c in cases if len(c.main) < 4000]
    single = [c for c in plain if not c.files and not re.search(r"^\s*(from|import)\s+(\.|m\b|a\b|b\b|lib\b|mod\b|pkg\b|foo\b|bar\b)", c.main, flags=re.M)]
    hists = []
    for _ in range(nhist):
        hist: list[dict] = []
        present: set[str] = set()
        for s in range(steps):
            probe = (s % 8 == 7) or s == steps - 1
            r = rng.random()
            if probe:
                # the later request that must be answered like a fresh run: a single-file program, every other file
                # gone (multi-module edit equivalence is C03's subject)
                c = rng.choice(single)
                files = {"main.py": c.main}
                kinds = []
                origin = c.name
            elif r < 0.75:
                c = rng.choice(plain)
                files = dict(c.files)
                files["main.py"] = c.main
                kinds: list[str] = []
                origin = c.name
            else:
                # (generated programs whose two modules star-import each other are left to the batch stream: in the
                # daemon they are a separate, fertile crash family — see the known findings C20-daemon-*)
                main, files, shape = gen.program(rng)
                while files:
                    main, files, shape = gen.program(rng)
                files = {"main.py": main}
                kinds = ["generated"]
                origin = "gen:" + shape
            if not probe:
                o = rng.choice(plain)
                for _k in range(rng.choice([1, 1, 2])):
                    k = rng.choice(mutate.KINDS)
                    tgt = "main.py" if rng.random() < 0.8 else rng.choice(sorted(files))
                    files[tgt] = mutate.mutate(k, files[tgt], rng, o.main)
                    kinds.append(k)
                if rng.random() < 0.08:
                    files["main.py"], lab = gen.garble(files["main.py"], rng)
                    kinds.append("malformed:" + lab)
            delete = sorted(present - set(files)) if (rng.random() < 0.7 or probe) else []
            present = (present - set(delete)) | set(files)
            hist.append({"write": files, "delete": delete, "probe": probe, "origin": origin, "kinds": kinds,
                         "present": sorted(present)})
        hists.append(hist)
    return hists


def make_project_histories(ctx: Ctx, nhist: int, steps: int) -> list[list[dict]]:
    """multi-module projects checked through their entry point only (`dmypy check main.py`, follow-imports=normal: the
    imports are followed), with import cycles (incl. self-imports); most steps edit two or more cycle members at once"""
    rng = ctx.rng
    cases = corpus.load(REPO)
    hists = []
    for _ in range(nhist):
        files, meta = gen.project(rng)
        orig = dict(files)
        state = dict(files)
        hist = [{"write": dict(files), "delete": [], "probe": False, "origin": "project", "kinds": ["project:initial"],
                 "present": sorted(files)}]
        for _s in range(steps - 1):
            write, delete, labels = gen.project_step(state, meta, rng, mutate.mutate, rng.choice(cases).main)
            missing = sorted(set(orig) - set(state) - set(write))
            if missing and rng.random() < 0.5:
                back = rng.choice(missing)
                write[back] = orig[back]
                labels.append("restore-module")
            for n in delete:
                state.pop(n, None)
            state.update(write)
            hist.append({"write": write, "delete": delete, "probe": False, "origin": "project",
                         "kinds": ["project:" + l for l in labels], "present": sorted(state)})
        hists.append(hist)
    return hists


def run_history(ctx: Ctx, runner: Runner, hid: int, hist: list[dict], flags: list[str]) -> list[dict]:
    """run one history (restarting the worker after a hang); returns the per-step records"""
    d = os.path.join(ctx.tmp, f"d{hid}")
    records: list[dict] = [None] * len(hist)   # type: ignore[list-item]
    start = 0
    attempt = 0
    step_limit = runner.inner            # CPU seconds for one step (wall clock: 12 ×, for a worker that merely waits)
    tck = os.sysconf("SC_CLK_TCK")

    def cpu_of(pid: int) -> float | None:
        try:
            with open(f"/proc/{pid}/stat") as f:
                parts = f.read().rsplit(")", 1)[1].split()
            return (int(parts[11]) + int(parts[12])) / tck
        except (OSError, ValueError, IndexError):
            return None
    nhang = 0
    while start < len(hist) and attempt < 6 and nhang < 2:      # (a history that hung twice is not continued)
        attempt += 1
        wd = os.path.join(d, f"w{attempt}")
        os.makedirs(wd)
        # files present before `start` must exist for the resumed worker
        state: dict[str, str] = {}
        for st in hist[:start]:
            for n in st["delete"]:
                state.pop(n, None)
            state.update(st["write"])
        steps = [dict(hist[start], write={**state, **hist[start]["write"]})] + hist[start + 1:] if start else hist
        job = {"lines": json.load(open(runner.lines_path)), "dir": wd, "flags": flags,
               "steps": [{"write": s["write"], "delete": s["delete"]} for s in steps]}
        jp, rp = os.path.join(d, f"job{attempt}.json"), os.path.join(d, f"res{attempt}.jsonl")
        with open(jp, "w", encoding="utf8") as f:
            json.dump(job, f)
        p = subprocess.Popen([PY, DWORKER, jp, rp], cwd=wd, env=runner.env, stdout=subprocess.DEVNULL, stderr=subprocess.PIPE)
        hung_at = None
        while True:
            try:
                p.wait(timeout=1.0)
                break
            except subprocess.TimeoutExpired:
                last = None
                try:
                    with open(rp) as f:
                        for line in f:
                            with contextlib.suppress(ValueError):
                                last = json.loads(line)
                except OSError:
                    pass
                used = cpu_of(p.pid)
                if last and "start" in last and ((used is not None and used - last.get("cpu", 0.0) > step_limit)
                                                 or time.time() - last["t"] > 12 * step_limit):
                    hung_at = last["start"]
                    with contextlib.suppress(OSError):
                        p.send_signal(signal.SIGUSR1)      # faulthandler dumps the stack to stderr
                    time.sleep(1.0)
                    p.kill()
                    p.wait()
                    break
        err = (p.stderr.read() or b"").decode("utf8", "backslashreplace") if p.stderr else ""
        done = -1
        finished = False
        if os.path.exists(rp):
            for line in open(rp):
                with contextlib.suppress(ValueError):
                    r = json.loads(line)
                    if "done" in r:
                        records[start + r["done"]] = r
                        done = r["done"]
                    if r.get("finished"):
                        finished = True
        if finished:
            break
        failed = start + done + 1
        if failed >= len(hist):
            break
        records[failed] = {"done": failed - start, "resp": None, "exc": None, "trace": {},
                           "hang": hung_at is not None, "worker_died": hung_at is None,
                           "stderr": (err[err.find("most recent call first"):][:2500] if "most recent call first" in err
                                      else err[-1500:])}
        nhang += hung_at is not None
        start = failed + 1
    shutil.rmtree(d, ignore_errors=True)
    return records


def fresh_output(runner: Runner, idx: str, files: dict[str, str], flags: list[str]) -> tuple[int | None, list[str]]:
    res = runner.run(idx, files, ["--local-partial-types", "--no-error-summary", "--hide-error-context"] + flags, observed=False)
    lines = [l for l in res["out"].split("\n") if l.strip()]
    return res["rc"], lines


def daemon_search(ctx: Ctx, runner: Runner) -> None:
    nhist = ctx.pick(6, 12)
    steps = max(int(ctx.pick(40, 320) * SCALE), 9)
    hists = make_histories(ctx, nhist, steps)
    # + multi-module projects with import cycles, entry point only, several cycle members edited per request
    hists += make_project_histories(ctx, ctx.pick(3, 8), max(int(ctx.pick(30, 160) * SCALE), 8))
    t0 = time.time()
    with ThreadPoolExecutor(max_workers=6) as ex:
        all_records = list(ex.map(lambda a: run_history(ctx, runner, a[0], a[1], []), enumerate(hists)))
    ctx.coverage["daemon_wall_s"] = round(time.time() - t0, 1)
    lines = []
    index = []
    for h, (hist, recs) in enumerate(zip(hists, all_records)):
        for i, (st, r) in enumerate(zip(hist, recs)):
            if r is None:
                continue
            status = (r.get("resp") or {}).get("status")
            fake = {"rc": status, "out": ((r.get("resp") or {}).get("out") or "") + (r.get("printed") or ""),
                    "err": ((r.get("resp") or {}).get("err") or "") + str((r.get("resp") or {}).get("error") or ""),
                    "trace": r.get("trace") or {}}
            lines.append(obs_line(fake, daemon_status=status if status is not None else 99))
            index.append((h, i))
    verdicts = ctx.lean_driver("Driver/C20.lean", lines) if lines else []
    vmap = dict(zip(index, verdicts))
    reported = 0
    seen_sigs: set = set()
    probes: list[tuple[int, int]] = []
    for h, (hist, recs) in enumerate(zip(hists, all_records)):
        state: dict[str, str] = {}
        for i, (st, r) in enumerate(zip(hist, recs)):
            for n in st["delete"]:
                state.pop(n, None)
            state.update(st["write"])
            if r is None:
                continue
            ctx.case(("daemon", h, i, hashlib.sha1(json.dumps(st["write"], sort_keys=True).encode("utf8", "surrogatepass")).hexdigest()))
            ctx.count("traces_validated_against_impl")
            ctx.dist("daemon_step", "probe" if st["probe"] else ("project-edit" if st["origin"] == "project" else "mutant"))
            if st["origin"] == "project":
                for k_ in st["kinds"][:1]:
                    ctx.dist("project_edit", k_.split(":", 1)[1])
            ctx.dist("daemon_fg_iterations", str((r.get("trace") or {}).get("fg_iters", "?")))
            v = vmap.get((h, i), "accepted")
            obs = None
            if r.get("hang"):
                hf, hfn = innermost_from_dump(r.get("stderr") or "")
                obs = {"class": "hang", "mode": "daemon", "file": hf, "frame": hfn}
            elif r.get("worker_died"):
                obs = {"class": "daemon-worker-died", "mode": "daemon", "stderr": None}
            elif r.get("exc"):
                obs = {"class": "daemon-crash", "exc": r["exc"][0], "file": r["exc"][1], "frame": r["exc"][2],
                       "caller": caller_of(r["exc"][3]), "mode": "daemon"}
            elif "Daemon crashed" in str((r.get("resp") or {}).get("error")):
                obs = {"class": "daemon-crash", "exc": "?", "mode": "daemon"}
            elif "maximum semantic analysis iteration count" in ((r.get("resp") or {}).get("out") or "") + (r.get("printed") or ""):
                obs = {"class": "semanal-iteration-cap", "mode": "daemon"}
            elif v != "accepted":
                obs = {"class": "trace-rejected", "reason": v.replace("reject ", ""), "mode": "daemon"}
            if obs is not None:
                ctx.count("disagreements_checked")
                ctx.dist("daemon_failure", obs["class"] + ":" + str(obs.get("frame") or obs.get("reason") or ""))
                known = ctx.match_known(obs)
                if known is not None and any(k == known["id"] for k, _ in ctx.known_hits):
                    continue
                # (a non-terminating loop is sampled at an arbitrary point: unknown hangs are reported once, whatever the frame)
                sigkey = (obs["class"],) if obs["class"] == "hang" else \
                    (obs["class"], obs.get("exc"), obs.get("file"), obs.get("frame"), obs.get("caller"), obs.get("reason"))
                if sigkey in seen_sigs:
                    continue
                seen_sigs.add(sigkey)
                if reported < ctx.pick(6, 20):
                    reported += 1
                    prev = hist[i - 1]["write"] if i else {}
                    steps_min = minimal_history(hist, recs, i)
                    if obs["class"] == "daemon-crash" and known is None:
                        steps_min = shrink_history(ctx, runner, steps_min, obs, budget=ctx.pick(8, 16))
                    elif obs["class"] == "hang" and known is None:
                        steps_min = shrink_history(ctx, runner, steps_min, obs, budget=2)
                    ctx.report(obs, f"daemon {obs['class']} ({obs.get('exc') or obs.get('reason') or ''} in {obs.get('file')}:"
                                    f"{obs.get('frame')}) at step {i} of a history ({st['origin']} after {'+'.join(st['kinds']) or 'no mutation'})",
                               {"daemon_history": [{"write": s["write"], "delete": s["delete"]} for s in steps_min],
                                "failed_step_files": st["write"], "previous_step_files": prev,
                                "exception": (r.get("exc") or [None, None, None, ""])[3][-1500:], "model_verdict": v,
                                "stderr": r.get("stderr")})
                continue
            if st["probe"]:
                probes.append((h, i))
    # ---- a daemon that was given such input keeps answering later requests correctly: probe programs
    def check_probe(hi):
        h, i = hi
        hist, recs = hists[h], all_records[h]
        state: dict[str, str] = {}
        for st in hist[:i + 1]:
            for n in st["delete"]:
                state.pop(n, None)
            state.update(st["write"])
        rc, fresh = fresh_output(runner, f"p{h}_{i}", state, [])
        return rc, fresh
    with ThreadPoolExecutor(max_workers=NPROC) as ex:
        fresh_results = list(ex.map(check_probe, probes))
    ndiff = 0
    for (h, i), (rc, fresh) in zip(probes, fresh_results):
        r = all_records[h][i]
        resp = r.get("resp") or {}
        # (the `--install-types` hint is only given by the batch front end: not part of the comparison)
        hint = '(or run "mypy --install-types" to install all missing stub packages)'
        got = [l for l in (resp.get("out") or "").split("\n") if l.strip() and hint not in l]
        fresh = [l for l in fresh if hint not in l]
        ctx.count("daemon_probes_compared")
        # (the status is not compared: `dmypy check` answers 1 for note-only output, `mypy` exits 0 — C13's subject)
        if sorted(got) == sorted(fresh):
            continue
        ndiff += 1
        ctx.count("disagreements_checked")
        only_daemon = sorted(set(got) - set(fresh))
        only_fresh = sorted(set(fresh) - set(got))
        left = (r.get("trace") or {}).get("left_deferred", 0)
        obs = {"class": "daemon-differs-from-fresh", "mode": "daemon", "left_deferred": bool(left),
               "only_fresh_has_lines": bool(only_fresh), "only_daemon_has_lines": bool(only_daemon)}
        if deleted_module_pattern(only_daemon, only_fresh):
            obs = {"class": "daemon-differs-from-fresh", "mode": "daemon", "detail": "deleted-module-still-known"}
        elif not left and partially_defined_pattern(only_daemon, only_fresh):
            obs = {"class": "daemon-differs-from-fresh", "mode": "daemon", "detail": "partially-defined-errors-lost"}
        elif self_dropped_pattern(only_daemon, only_fresh):
            obs = {"class": "daemon-differs-from-fresh", "mode": "daemon", "detail": "signature-note-without-self"}
        known = ctx.match_known(obs)
        if known is not None and any(k == known["id"] for k, _ in ctx.known_hits):
            continue
        if ndiff <= 4:
            steps_min = [{"write": s_["write"], "delete": s_["delete"]} for s_ in hists[h][:i + 1]]
            if known is None:
                j = i
                while j > 0 and not (all_records[h][j] or {}).get("restarted"):
                    j -= 1
                steps_min = shrink_history(ctx, runner, minimal_history(hists[h], all_records[h], i) if j else steps_min, obs,
                                           budget=ctx.pick(10, 20), fresh=fresh)
            ctx.report(obs, f"daemon answer for an unmutated probe program ({hists[h][i]['origin']}) differs from a fresh run after "
                            f"{i} edits: only daemon {only_daemon[:3]}, only fresh {only_fresh[:3]}",
                       {"daemon_history": steps_min,
                        "daemon_out": got, "fresh_out": fresh, "daemon_status": resp.get("status"), "fresh_status": rc,
                        "left_deferred": left})
    ctx.coverage["daemon_probe_differences"] = ndiff


def shrink_history(ctx: Ctx, runner: Runner, steps: list[dict], obs: dict, budget: int = 8,
                   fresh: list[str] | None = None) -> list[dict]:
    """drop steps (never the last one) while the daemon still fails in the same way at the last step
    (`fresh` given: while its answer for the last step still differs from that fresh-run output)"""
    used = [0]
    hint = '(or run "mypy --install-types" to install all missing stub packages)'

    def fails(cand: list[dict]) -> bool:
        if used[0] >= budget:
            return False
        used[0] += 1
        # deleting a step must keep the files the later steps rely on: each candidate carries full states
        hist = [{"write": s["write"], "delete": s.get("delete", []), "probe": False, "origin": "shrink", "kinds": []} for s in cand]
        recs = run_history(ctx, runner, 700 + used[0], hist, [])
        r = recs[-1] if recs else None
        if fresh is not None:
            if not r or r.get("resp") is None or any(x is None or x.get("exc") for x in recs):
                return False
            got = [l for l in (r["resp"].get("out") or "").split("\n") if l.strip() and hint not in l]
            return sorted(got) != sorted(fresh)
        if obs.get("class") == "hang":
            return bool(r and r.get("hang"))
        if not r or not r.get("exc"):
            return False
        return (r["exc"][0], r["exc"][2]) == (obs.get("exc"), obs.get("frame"))

    # make every step self-contained (full file state), so that steps can be removed independently
    state: dict[str, str] = {}
    full = []
    for s_ in steps:
        for n in s_.get("delete", []):
            state.pop(n, None)
        state.update(s_["write"])
        full.append({"write": dict(state), "delete": []})
    for k, s_ in enumerate(full):
        if k:
            s_["delete"] = sorted(set(full[k - 1]["write"]) - set(s_["write"]))
    cur = full
    # first try the two-step history "state before the failing edit, then the edit"
    if len(cur) > 2:
        cand = [dict(cur[-2], delete=[]), dict(cur[-1], delete=sorted(set(cur[-2]["write"]) - set(cur[-1]["write"])))]
        if fails(cand):
            cur = cand
    chunk = max((len(cur) - 1) // 2, 1)
    while chunk >= 1 and len(cur) > 2 and used[0] < budget:
        i = 0
        changed = False
        while i < len(cur) - 1 and used[0] < budget:
            cand = cur[:i] + cur[i + chunk:] if i + chunk < len(cur) else None
            if cand and len(cand) >= 2:
                for k, s_ in enumerate(cand):
                    s_ = dict(s_)
                    s_["delete"] = sorted(set(cand[k - 1]["write"]) - set(s_["write"])) if k else []
                    cand[k] = s_
                if fails(cand):
                    cur = cand
                    changed = True
                    continue
            i += chunk
        if chunk == 1 and not changed:
            break
        chunk = max(chunk // 2, 1) if chunk > 1 else 1
        if chunk == 1 and not changed and len(cur) <= 2:
            break
    return cur


def deleted_module_pattern(only_daemon: list[str], only_fresh: list[str]) -> bool:
    """every differing line is `Module "m" has no attribute …` (daemon) / `Cannot find implementation or library stub
    for module named "m"` or the missing-imports note (fresh), for the same modules"""
    dm = set()
    for l in only_daemon:
        m = re.search(r'error: Module "([\w.]+)" has no attribute ', l)
        if not m:
            return False
        dm.add(m.group(1))
    fm = set()
    for l in only_fresh:
        m = re.search(r'error: Cannot find implementation or library stub for module named "([\w.]+)"', l)
        if m:
            fm.add(m.group(1))
        elif "note: See https://mypy.readthedocs.io/en/stable/running_mypy.html#missing-imports" not in l:
            return False
    return bool(dm) and dm == fm


def self_dropped_pattern(only_daemon: list[str], only_fresh: list[str]) -> bool:
    """the differing lines are signature notes (`note:   def f(self, …)`) that are equal once the leading `self`
    parameter is removed from the fresh run's lines"""
    def strip(l: str) -> str:
        return re.sub(r"\((self|cls)(, |(?=\)))", "(", l)
    return bool(only_daemon) and len(only_daemon) == len(only_fresh) and all(": note: " in l and "def " in l for l in only_fresh) \
        and sorted(only_daemon) == sorted(strip(l) for l in only_fresh) and sorted(only_daemon) != sorted(only_fresh)


def partially_defined_pattern(only_daemon: list[str], only_fresh: list[str]) -> bool:
    """the daemon has no extra line; every line only the fresh run has is a used-before-def / possibly-undefined error"""
    return not only_daemon and bool(only_fresh) and all(
        re.search(r"error: .*\[(used-before-def|possibly-undefined)\]$", l) for l in only_fresh)


def minimal_history(hist: list[dict], recs: list[dict], i: int) -> list[dict]:
    """the steps since the last (re)start of the server up to step i — what a replay needs"""
    j = i
    while j > 0 and not (recs[j] or {}).get("restarted"):
        j -= 1
    state: dict[str, str] = {}
    for st in hist[:j + 1]:
        for n in st["delete"]:
            state.pop(n, None)
        state.update(st["write"])
    first = {"write": state, "delete": []}
    return [first] + [{"write": s["write"], "delete": s["delete"]} for s in hist[j + 1:i + 1]]


# ===================================================================================== known witnesses
WITNESSES = [
    # (id, files, flags, kind)
    ("F6-pow", {"main.py": "from typing import Final\nX: Final = 10 ** 10 ** 10\n"}, [], "batch"),
    ("F6-shift", {"main.py": "from typing import Final\nX: Final = 1 << 10**12\n"}, [], "batch"),
    ("F6-repeat", {"main.py": "from typing import Final\nX: Final = \"a\" * 10**12\n"}, [], "batch"),
    ("cfg-error-code", {"main.py": "x = 1\n", "cfg.ini": "[mypy]\n[mypy-foo.*]\ndisable_error_code = bogus\n"},
     ["--config-file", "cfg.ini"], "batch"),
    ("cfg-error-code-inline", {"main.py": "# mypy: disable-error-code=bogus\nx = 1\n"}, [], "batch"),
    ("defer-final", {"main.py": "from typing import List\nclass N1(N1, N0): pass\nN0 = List[N1]\n"}, [], "batch"),
    ("semanal-cap", {"main.py": "from typing import NamedTuple\nclass NT(NamedTuple):\n    def get_other(self) -> Other: pass\n"
                                "class C(D): pass\nclass D(C): pass\n"}, [], "batch"),
    ("semanal-cap-typeddict", {"main.py": "from typing import Type\nfrom typing_extensions import TypedDict\n"
                                          "class N6(TypedDict):\n    b: Type[N6]\n"}, [], "batch"),
    ("concatenate-params", {"main.py": "from typing_extensions import Concatenate\n"
                                       "def c(t: tuple[Concatenate[int, ...]]) -> None:\n    bool_f: Field[bool]\n"}, [], "batch"),
    ("partial-indexed-assignment", {"main.py": "d = {}\nd[1] = [d.update({1: 1})]\n"}, [], "batch"),
    ("typevar-self-value", {"main.py": "from typing import TypeVar, Generic, List\nS = TypeVar(\"S\", \"S\", U)\nA = List[C[S]]\n"}, [], "batch"),
    ("unpack-undefined", {"main.py": "from collections.abc import Callable\nfrom typing import Unpack\n"
                                     "type F = Callable[[Unpack[Undefined], int], int]\n"
                                     "def ff(a: float, b: int, c: int) -> int:\n    return 2\nbis: F = ff\nbis(1.0, 2, 3)\n"}, [], "batch"),
    ("daemon-new-import", [{"main.py": "x: int = 1\n"}, {"main.py": "import unittest\nx: int = 1\n"},
                           {"main.py": "import xml.dom.minidom\nx: int = ''\n"}], [], "daemon"),
    ("daemon-flushed-files", [{"main.py": "x: int = 1\n"}, {"main.py": "import json\nx: int = ''\n"},
                              {"main.py": "x: int = ''\n"}, {"main.py": "x: int = 1\n"}], [], "daemon"),
    ("daemon-class-to-typeddict", [{"main.py": "class A: pass\n"},
                                   {"main.py": "from typing import TypedDict\nA = TypedDict(\"A\", {\"foo\": int})\na = A({\"foo\": 1})\n"},
                                   {"main.py": "x = 1\n"}], [], "daemon"),
    ("daemon-blocker-in-reprocess", "corpus/c20/daemon_blocker_in_reprocess.json", [], "daemon"),
    ("daemon-placeholder-snapshot", "corpus/c20/daemon_placeholder_snapshot.json", [], "daemon"),
    ("daemon-deleted-import-after-blocker", "corpus/c20/daemon_deleted_import.json", [], "daemon"),
    ("daemon-partial-type-in-deps", "corpus/c20/daemon_partial_type_in_deps.json", [], "daemon"),
    # a function that has to be deferred twice: the daemon runs a single second pass after an edit
    ("daemon-single-second-pass", [{"main.py": "x: int = 1\n"}, {"main.py": gen.defer_chain(2)}], [], "daemon-compare"),
    # a module-level function `f`, then a method `f` overriding incompatibly: the daemon prints the subclass signature without `self`
    ("daemon-signature-note-without-self",
     [{"main.py": "from functools import partial\ndef f(x: int, y: str) -> str:\n    return y\nfp = partial(f, 1)\nfp('a')\n"},
      {"main.py": "class A(object):\n    def f(self, a: int, b: str) -> None: pass\n\nclass B(A):\n    def f(self, b: int, a: str) -> None: pass\n"}],
     [], "daemon-compare"),
    # used-before-def comes from a separate pass that is not re-run when a dependency changes
    ("daemon-partially-defined-lost", [{"main.py": "import m\ndef f() -> None:\n    print(m.x)\n    print(y)\n    y = 1\n", "m.py": "x = 1\n"},
                                       {"main.py": "import m\ndef f() -> None:\n    print(m.x)\n    print(y)\n    y = 1\n", "m.py": "x = ''\n"}],
     [], "daemon-compare"),
]


def _witness_history(files) -> list[dict]:
    if isinstance(files, str):
        from harness.vlib.core import VERIF
        stored = json.load(open(os.path.join(VERIF, files)))["daemon_history"]
        return [{"write": s_["write"], "delete": s_.get("delete", []), "probe": False, "origin": "witness", "kinds": []}
                for s_ in stored]
    return [{"write": w, "delete": [], "probe": False, "origin": "witness", "kinds": []} for w in files]


def witnesses(ctx: Ctx, runner: Runner, info: dict) -> None:
    """one explicit replay per known class keeps it visible (and shows when a fix removes it)"""
    def run_one(a):
        k, (wid, files, flags, kind) = a
        if kind == "batch":
            return runner.run("w_" + wid, files, flags, timeout=8 if wid == "F6-pow" else None)
        hist = _witness_history(files)
        recs = run_history(ctx, runner, 900 + k, hist, [])
        fresh = fresh_output(runner, "w_" + wid, hist[-1]["write"], [])[1] if kind == "daemon-compare" else None
        return hist, recs, fresh

    with ThreadPoolExecutor(max_workers=6) as ex:
        outcomes = list(ex.map(run_one, enumerate(WITNESSES)))
    batch_lines = [obs_line(o) for (w, o) in zip(WITNESSES, outcomes) if w[3] == "batch"]
    batch_verdicts = iter(ctx.lean_driver("Driver/C20.lean", batch_lines)) if batch_lines else iter(())
    verdicts = ctx.coverage.setdefault("witness_verdicts", {})
    for (wid, files, flags, kind), outcome in zip(WITNESSES, outcomes):
        ctx.dist("witness", wid)
        ctx.case(("witness", wid))
        if kind == "batch":
            res = outcome
            v = next(batch_verdicts)
            ctx.count("traces_validated_against_impl")
            verdicts[wid] = v
            if v != "accepted":
                sig = classify(res, v)
                sig["mode"] = "batch"
                ctx.report(sig, f"mypy {sig['class']} ({sig.get('exc') or ''} in {sig.get('file')}:{sig.get('frame')}) on the witness {wid}",
                           {"files": files, "flags": flags, "cmd": "python -m mypy --show-traceback " + " ".join(flags + ["main.py"]),
                            "output_tail": (res["out"] + res["err"])[-1200:], "model_verdict": v})
            continue
        hist, recs, fresh = outcome
        if kind == "daemon-compare":
            r = recs[-1]
            if not r or r.get("resp") is None:
                raise ToolFailure(f"daemon witness {wid} did not run: {r}")
            got = [l for l in (r["resp"].get("out") or "").split("\n") if l.strip()]
            same = sorted(got) == sorted(fresh)
            verdicts[wid] = "same-as-fresh" if same else "differs-from-fresh"
            if not same:
                obs = {"class": "daemon-differs-from-fresh", "mode": "daemon",
                       "left_deferred": bool((r.get("trace") or {}).get("left_deferred")),
                       "only_fresh_has_lines": bool(set(fresh) - set(got)), "only_daemon_has_lines": bool(set(got) - set(fresh))}
                if not obs["left_deferred"] and partially_defined_pattern(sorted(set(got) - set(fresh)), sorted(set(fresh) - set(got))):
                    obs = {"class": "daemon-differs-from-fresh", "mode": "daemon", "detail": "partially-defined-errors-lost"}
                elif self_dropped_pattern(sorted(set(got) - set(fresh)), sorted(set(fresh) - set(got))):
                    obs = {"class": "daemon-differs-from-fresh", "mode": "daemon", "detail": "signature-note-without-self"}
                ctx.report(obs, f"daemon answer differs from a fresh run on the witness {wid}: only fresh {sorted(set(fresh) - set(got))[:3]}",
                           {"daemon_history": [{"write": s_["write"], "delete": s_["delete"]} for s_ in hist],
                            "daemon_out": got, "fresh_out": fresh})
            continue
        verdict = "accepted"
        for i, r in enumerate(recs):
            if r and r.get("exc"):
                verdict = "daemon-crash"
                obs = {"class": "daemon-crash", "exc": r["exc"][0], "file": r["exc"][1], "frame": r["exc"][2],
                       "caller": caller_of(r["exc"][3]), "mode": "daemon"}
                known = ctx.match_known(obs)
                if known is not None and any(k == known["id"] for k, _ in ctx.known_hits):
                    continue
                ctx.report(obs, f"daemon crash ({obs['exc']} in {obs['file']}:{obs['frame']}) on the witness history {wid}, step {i}",
                           {"daemon_history": [{"write": s_["write"], "delete": s_["delete"]} for s_ in hist[:i + 1]],
                            "exception": r["exc"][3][-1500:]})
            elif r is None or r.get("hang") or r.get("worker_died"):
                raise ToolFailure(f"daemon witness {wid} did not run: {r}")
        verdicts[wid] = verdict
    # what the translator's probe of the folder says must agree with the witness
    guard = info["foldGuard"]
    got = ctx.coverage["witness_verdicts"].get("F6-pow")
    if guard is not None and got != "accepted":
        ctx.broken_ties.append(f"translate/driver_caps: the folder refuses 2**k beyond k={guard}, yet the witness 10**10**10 is {got}")


# ===================================================================================== entry points
def main(ctx: Ctx) -> None:
    ctx.level = "other"       # proof for the mechanism only; the universal no-crash clause is searched (see claim_split)
    ctx.coverage["rule"] = (
        "a case = one scripted-oracle run of a real loop, one deferral-chain program, one observed batch run of a mutant / "
        "generated / malformed program or config, or one daemon edit step; distinct by content (hash of all files + flags); "
        "every batch / daemon case is non-trivial by construction (a corpus program after ≥ 1 mutation, or generated), "
        "scripted cases are non-trivial when the script has > 1 entry")
    ctx.coverage["claim_split"] = {
        "covered_by_theorem": "loop termination within the caps read from the source for ANY oracle (loops_terminate, "
                              "no_model_run_hangs, daemon_request_terminates), the exit funnel (status_in_range, status_funnel, "
                              "quiet_run_clean), soundness of the trace-acceptance predicate w.r.t. the model (clean_run_accepted, "
                              "bad_run_rejected, accepts_sound), F6 (fold_cost_unbounded / fold_guarded_bounded)",
        "searched_only": "the universal clause — no input makes the real analyser / checker raise, stall below the cap, or the "
                         "daemon die — is NOT proved; it is searched by mutation of the repository corpus, generated programs and "
                         "trace validation of every run against the model",
    }
    import translate.driver_caps as dc
    dc.main()
    info = dc.collect()
    ctx.coverage["caps_from_source"] = {k: info[k] for k in (
        "maxIterations", "topOp", "funcOp", "coreWarmup", "nCore", "defaultLastPass", "fgLastPass", "maxIter", "fgOp",
        "deferSites", "deferSitesGuarded", "deferGuarded", "sccLoopRecognised", "foldGuard", "exits", "notes")}
    proved = ctx.prove("MypyVerif.Props.C20", MODEL_FILES)
    ctx.trusted(
        "translator translate/driver_caps.py (AST patterns for the cap tests / exits; values cross-checked with the imported modules)",
        "model: the bounded loops of semanal_main / checker+build / server.update and the exits of main / errors / __main__; "
        "everything the analyser and checker compute is an oracle (universally quantified)",
        "observation from outside: sys.monitoring line events on the counter increments, wrappers that call the original unchanged "
        "(harness/c20/instrument.py); failures are re-confirmed with a plain `python -m mypy` run before they are reported",
        "NOT modelled: parallel workers (-n), the `while True` of FineGrainedBuildManager.update (no cap in the source), "
        "checker-internal fix-points (loop / try-finally re-checking), recursion depth, well-formedness of message tuples (C13)")
    ctx.assume("a run is a hang when it exceeds the CPU-time limit again when re-run alone with 2 × the limit",
               "daemon edits change the mtime of every written file (whole seconds apart)")
    caps_line = ctx.lean_driver("Driver/C20.lean", ["C"])[0] if proved else "(Lean build failed)"
    ctx.sample({"generated_caps": caps_line})
    runner = Runner(ctx, info["lines"])
    runner.warm()
    loop_correspondence(ctx, info, runner) if proved else None
    if not proved:
        # broken proof obligation: the drivers cannot run; the search below still runs on the real code, with the
        # acceptance predicate evaluated by a Python transcription of `accepts` being impossible — so only the
        # externally visible clauses (status, markers, time limit) are evaluated
        search_without_lean(ctx, runner, info)
    else:
        witnesses(ctx, runner, info)
        batch_search(ctx, runner)
        daemon_search(ctx, runner)
    if (not proved or ctx.broken_ties) and not ctx.violations:
        ctx.violation("the C20 development no longer checks against this tree: " + " ; ".join(ctx.broken_ties)[:1500],
                      {"broken": ctx.broken_ties, "caps_from_source": ctx.coverage["caps_from_source"]}, found_input=False)


def search_without_lean(ctx: Ctx, runner: Runner, info: dict | None = None) -> None:
    """the proof obligation is broken (e.g. a cap test is gone): look for a concrete hanging / crashing input among
    deferral-heavy programs and ordinary mutants, judged by what is visible from outside"""
    jobs = []
    # a defer site of checker.py that lost its `pass_num < last_pass` guard: programs that reach THAT site (table
    # gen.DEFER_SITE_FAMILIES: enclosing function of the `self.defer_node(...)` call → program family); with every site
    # guarded (the obligation broke for another reason) the reads of never-determined variables are still run
    sites = (info or {}).get("deferSiteList") or []
    unguarded = sorted({s_["function"] or "?" for s_ in sites if not s_["guarded"]})
    ctx.coverage["unguarded_defer_sites"] = [s_ for s_ in sites if not s_["guarded"]]
    fams = gen.defer_site_programs(unguarded) if unguarded else gen.undetermined_read_family()
    for k, (label, src) in enumerate(fams):
        # small programs (a normal run takes a fraction of a second): a short CPU limit keeps a hanging family cheap
        jobs.append({"id": f"ds{k}", "origin": label, "kinds": ["generated"] + (["defer-site:" + ",".join(unguarded)] if unguarded else []),
                     "files": {"main.py": src}, "flags": [], "timeout": 5})
        ctx.dist("defer_site_family", label.split(":")[0].split("-")[0])
    # the witnesses of the known crash classes: their *exit status* and markers are still judged
    for wid, files, flags, kind in WITNESSES:
        if kind == "batch" and wid != "F6-pow":
            jobs.append({"id": "w_" + wid, "origin": "witness:" + wid, "kinds": ["witness"], "files": files, "flags": flags})
    jobs += make_batch_jobs(ctx, max(int(ctx.pick(300, 2000) * SCALE), 20))
    results = run_batch(ctx, runner, jobs)
    n = nh = 0
    for job, res in zip(jobs, results):
        ctx.case(("batch-nolean", job["id"]))
        text = res["out"] + res["err"]
        if res["rc"] is None or res["rc"] not in (0, 1, 2) or "INTERNAL ERROR" in text or "Traceback (most recent call last)" in text:
            sig0 = dict(classify(res, ""), mode="batch")
            known = ctx.match_known(sig0)
            if known is None:
                n += 1
                nh += sig0["class"] == "hang"
            if known is not None or (n <= 2 and not (sig0["class"] == "hang" and nh > 1)):
                handle_batch_failure_nolean(ctx, runner, job, res)


def handle_batch_failure_nolean(ctx: Ctx, runner: Runner, job: dict, res: dict) -> None:
    sig = classify(res, "")
    sig["mode"] = "batch"
    if sig["class"] == "hang":
        # confirm with a larger limit (the small programs of the defer-site families got 5 s: 4 × that; others 2 × 20 s)
        again = runner.run(job["id"] + "_r", job["files"], job["flags"], observed=True,
                           timeout=4 * job["timeout"] if job.get("timeout") else 2 * runner.inner)
        if again["rc"] is not None:
            return
        sig = classify(again, "")
        sig["mode"] = "batch"
    known = ctx.match_known(sig)
    if known is not None and any(k == known["id"] for k, _ in ctx.known_hits):
        return
    files = job["files"] if known is not None else shrink(runner, job, sig, budget=6 if sig["class"] == "hang" else 30)
    site = next((k for k in job["kinds"] if k.startswith("defer-site:")), "")
    ctx.report(sig, f"mypy {sig['class']} ({sig.get('exc') or ''} in {sig.get('file')}:{sig.get('frame')}) on {job['origin']}"
                    + (f" — reaches the unguarded {site}" if site else ""),
               {"files": files, "flags": job["flags"], "cmd": "python -m mypy --show-traceback " + " ".join(job["flags"]) + " main.py",
                "origin": job["origin"], "kinds": job["kinds"], "unguarded_defer_sites": ctx.coverage.get("unguarded_defer_sites"),
                "output_tail": (res["out"] + res["err"])[-1200:]})


def replay(ctx: Ctx, path: str) -> int:
    body = json.load(open(path))
    det = body["replay"].get("detail", body["replay"])
    import translate.driver_caps as dc
    info = dc.collect()
    runner = Runner(ctx, info["lines"])
    if "daemon_history" in det:
        hist = [{"write": s["write"], "delete": s.get("delete", []), "probe": False, "origin": "replay", "kinds": []}
                for s in det["daemon_history"]]
        recs = run_history(ctx, runner, 0, hist, [])
        for i, r in enumerate(recs):
            print(f"--- step {i}: " + json.dumps({k: (r or {}).get(k) for k in ("resp", "exc", "hang", "worker_died")}, indent=1)[:3000])
        return 0
    if "files" in det:
        res = runner.run("replay", det["files"], det.get("flags", []), observed=False, timeout=60)
        print("$ " + res["cmd"])
        print(res["out"] + res["err"])
        print("exit status:", "TIMEOUT" if res["rc"] is None else res["rc"])
        return 0
    print(json.dumps(det, indent=1)[:4000])
    return 0
