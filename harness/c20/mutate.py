"""Structure-aware mutations of Python programs for C20.

Each mutator takes the source text (and the rng; some take a second program) and returns new text.  They work on
the statement structure when the text parses with `ast` (spans of whole statements, of annotations, of class
headers) and fall back to lines otherwise.  All randomness comes from the `rng` handed in (ctx.rng-derived).
"""
from __future__ import annotations

import ast
import io
import keyword
import re
import tokenize

KINDS = ["delete", "duplicate", "swap", "rename", "crosswire", "retype", "truncate", "splice", "cyclic", "nest", "elements", "misarg"]


def _stmts(src: str) -> list[tuple[int, int]] | None:
    """(first line, last line) — 1-based, inclusive — of every statement at any depth; None if unparsable"""
    try:
        tree = ast.parse(src)
    except (SyntaxError, ValueError, RecursionError, MemoryError):
        return None
    out = []
    for n in ast.walk(tree):
        if isinstance(n, ast.stmt):
            first = n.lineno
            decos = getattr(n, "decorator_list", None)
            if decos:
                first = min([first] + [d.lineno for d in decos])
            out.append((first, n.end_lineno or n.lineno))
    return sorted(set(out))


def _lines(src: str) -> list[str]:
    return src.split("\n")


def _join(lines: list[str]) -> str:
    s = "\n".join(lines)
    return s if s.endswith("\n") else s + "\n"


def delete(src: str, rng) -> str:
    lines = _lines(src)
    st = _stmts(src)
    if st and rng.random() < 0.8:
        a, b = rng.choice(st)
        return _join(lines[:a - 1] + lines[b:])
    if len(lines) > 1:
        i = rng.randrange(len(lines))
        del lines[i]
    return _join(lines)


def duplicate(src: str, rng) -> str:
    lines = _lines(src)
    st = _stmts(src)
    if st and rng.random() < 0.8:
        a, b = rng.choice(st)
        block = lines[a - 1:b]
        if rng.random() < 0.5:
            return _join(lines[:b] + block + lines[b:])
        # copy it somewhere else (after another statement), keeping its own indentation
        c, d = rng.choice(st)
        return _join(lines[:d] + block + lines[d:])
    i = rng.randrange(len(lines))
    lines.insert(i, lines[i])
    return _join(lines)


def swap(src: str, rng) -> str:
    lines = _lines(src)
    st = _stmts(src)
    if st and len(st) >= 2 and rng.random() < 0.8:
        for _ in range(8):
            (a, b), (c, d) = sorted(rng.sample(st, 2))
            if b < c:          # disjoint
                return _join(lines[:a - 1] + lines[c - 1:d] + lines[b:c - 1] + lines[a - 1:b] + lines[d:])
    if len(lines) >= 2:
        i, j = rng.randrange(len(lines)), rng.randrange(len(lines))
        lines[i], lines[j] = lines[j], lines[i]
    return _join(lines)


def _names(src: str) -> list[str]:
    ids = set(re.findall(r"\b[A-Za-z_][A-Za-z0-9_]*\b", src))
    return sorted(i for i in ids if not keyword.iskeyword(i) and i not in ("self", "cls", "E", "N", "W"))


def _replace_name_tokens(src: str, a: str, b: str, rng, prob: float, only_line: int | None = None) -> str:
    """replace NAME tokens `a` by `b` (each with probability prob); token-level when the text tokenizes"""
    try:
        toks = list(tokenize.generate_tokens(io.StringIO(src).readline))
    except (tokenize.TokenError, IndentationError, SyntaxError, ValueError):
        toks = None
    if toks is None:
        lines = _lines(src)
        for i, l in enumerate(lines):
            if only_line is not None and i + 1 != only_line:
                continue
            if rng.random() < prob:
                lines[i] = re.sub(r"\b%s\b" % re.escape(a), b, l)
        return _join(lines)
    lines = _lines(src)
    edits = []
    for t in toks:
        if t.type == tokenize.NAME and t.string == a and t.start[0] == t.end[0]:
            if only_line is not None and t.start[0] != only_line:
                continue
            if rng.random() < prob:
                edits.append((t.start[0], t.start[1], t.end[1]))
    for ln, c0, c1 in sorted(edits, reverse=True):
        l = lines[ln - 1]
        lines[ln - 1] = l[:c0] + b + l[c1:]
    return _join(lines)


def rename(src: str, rng) -> str:
    """rename one identifier on one line only (a definition or a use becomes dangling / captured)"""
    ids = _names(src)
    if len(ids) < 2:
        return delete(src, rng)
    a, b = rng.sample(ids, 2)
    cand = [i + 1 for i, l in enumerate(_lines(src)) if re.search(r"\b%s\b" % re.escape(a), l)]
    if not cand:
        return src
    return _replace_name_tokens(src, a, b, rng, 1.0, only_line=rng.choice(cand))


def crosswire(src: str, rng) -> str:
    """replace about half of the occurrences of one identifier by another identifier of the program"""
    ids = _names(src)
    if len(ids) < 2:
        return duplicate(src, rng)
    a, b = rng.sample(ids, 2)
    return _replace_name_tokens(src, a, b, rng, 0.5)


def _type_spans(src: str) -> list[tuple[int, int, int, int, str]] | None:
    """(line, col, end line, end col, text) of annotation / base-class / type-argument expressions"""
    try:
        tree = ast.parse(src)
    except (SyntaxError, ValueError, RecursionError, MemoryError):
        return None
    found: list[ast.expr] = []
    for n in ast.walk(tree):
        if isinstance(n, ast.arg) and n.annotation is not None:
            found.append(n.annotation)
        elif isinstance(n, (ast.FunctionDef, ast.AsyncFunctionDef)) and n.returns is not None:
            found.append(n.returns)
        elif isinstance(n, ast.AnnAssign):
            found.append(n.annotation)
        elif isinstance(n, ast.ClassDef):
            found += list(n.bases)
        elif isinstance(n, ast.Subscript):
            found.append(n.slice)
            found.append(n)
    out = []
    for e in found:
        if getattr(e, "end_lineno", None) is None:
            continue
        seg = ast.get_source_segment(src, e)
        if seg:
            out.append((e.lineno, e.col_offset, e.end_lineno, e.end_col_offset, seg))
    return out


def _splice_span(src: str, span, text: str) -> str:
    l0, c0, l1, c1, _ = span
    lines = _lines(src)
    # ast columns are utf-8 byte offsets
    first = lines[l0 - 1].encode("utf8")[:c0].decode("utf8", "ignore")
    last = lines[l1 - 1].encode("utf8")[c1:].decode("utf8", "ignore")
    return _join(lines[:l0 - 1] + [first + text + last] + lines[l1:])


def retype(src: str, rng) -> str:
    """replace one type expression by another one taken from the same file"""
    spans = _type_spans(src)
    if not spans or len(spans) < 2:
        return crosswire(src, rng)
    a, b = rng.sample(spans, 2)
    return _splice_span(src, a, b[4])


def truncate(src: str, rng) -> str:
    lines = _lines(src)
    if rng.random() < 0.5:
        st = _stmts(src)
        if st:
            _, b = rng.choice(st)
            return _join(lines[:b])
        return _join(lines[:rng.randrange(1, len(lines) + 1)])
    # cut in the middle of a line (unterminated string / bracket / header)
    i = rng.randrange(len(lines))
    l = lines[i]
    return _join(lines[:i] + [l[:rng.randrange(len(l) + 1)]])


def splice(src: str, rng, other: str) -> str:
    a, b = _lines(src), _lines(other)
    sa, sb = _stmts(src), _stmts(other)
    i = rng.choice(sa)[1] if sa else rng.randrange(len(a) + 1)
    j = (rng.choice(sb)[0] - 1) if sb else rng.randrange(len(b) + 1)
    if rng.random() < 0.3:
        # the other program's tail goes *inside* the last block (keeps indentation of the cut point)
        ind = re.match(r"\s*", a[i - 1] if 0 < i <= len(a) else "").group(0)
        return _join(a[:i] + [ind + x if x.strip() else x for x in b[j:]])
    return _join(a[:i] + b[j:])


def cyclic(src: str, rng) -> str:
    """make definitions refer to each other in a cycle"""
    try:
        tree = ast.parse(src)
    except (SyntaxError, ValueError, RecursionError, MemoryError):
        tree = None
    lines = _lines(src)
    classes = [n for n in ast.walk(tree) if isinstance(n, ast.ClassDef)] if tree else []
    aliases = [n for n in (tree.body if tree else []) if isinstance(n, ast.Assign) and len(n.targets) == 1
               and isinstance(n.targets[0], ast.Name)]
    funcs = [n for n in ast.walk(tree) if isinstance(n, ast.FunctionDef)] if tree else []
    choice = rng.random()
    if len(classes) >= 2 and choice < 0.45:
        a, b = rng.sample(classes, 2)
        for x, y in ((a, b), (b, a)):
            l = lines[x.lineno - 1]
            m = re.match(r"^(\s*class\s+\w+)\s*(\[[^\]]*\])?\s*(\((.*)\))?\s*:(.*)$", l)
            if m:
                bases = (m.group(4) or "").strip()
                bases = (bases + ", " if bases else "") + y.name
                lines[x.lineno - 1] = f"{m.group(1)}{m.group(2) or ''}({bases}):{m.group(5)}"
        return _join(lines)
    if len(classes) >= 1 and choice < 0.6:
        a = rng.choice(classes)
        l = lines[a.lineno - 1]
        m = re.match(r"^(\s*class\s+\w+)\s*(\[[^\]]*\])?\s*(\((.*)\))?\s*:(.*)$", l)
        if m:
            inner = rng.choice([a.name, f"List[{a.name}]", f"Generic[{a.name}]", f"'{a.name}'"])
            bases = (m.group(4) or "").strip()
            lines[a.lineno - 1] = f"{m.group(1)}{m.group(2) or ''}({(bases + ', ') if bases else ''}{inner}):{m.group(5)}"
            return _join(lines)
    if len(aliases) >= 2 and choice < 0.8:
        a, b = rng.sample(aliases, 2)
        na, nb = a.targets[0].id, b.targets[0].id
        form = rng.choice(["{o}", "List[{o}]", "Union[int, {o}]", "Dict[str, {o}]", "Tuple[{o}, ...]", "Callable[[{o}], {o}]"])
        lines[a.lineno - 1:a.end_lineno] = [f"{na} = " + form.format(o=nb)]
        off = (a.end_lineno - a.lineno)
        bl = b.lineno - 1 - (off if b.lineno > a.lineno else 0)
        be = b.end_lineno - (off if b.lineno > a.lineno else 0)
        lines[bl:be] = [f"{nb} = " + form.format(o=na)]
        return _join(lines)
    if len(funcs) >= 2:
        a, b = rng.sample(funcs, 2)
        # each function's default argument / decorator refers to the other
        how = rng.choice(["default", "decorator", "annotation"])
        for x, y in ((a, b), (b, a)):
            l = lines[x.lineno - 1]
            if how == "decorator":
                ind = re.match(r"\s*", l).group(0)
                lines[x.lineno - 1] = f"{ind}@{y.name}\n{l}"
            elif how == "default":
                lines[x.lineno - 1] = re.sub(r"\)\s*(->[^:]*)?:\s*$", lambda m: f", _cyc={y.name}(){m.group(0)}" , l, count=1) if "(" in l else l
                lines[x.lineno - 1] = lines[x.lineno - 1].replace("(, ", "(")
            else:
                lines[x.lineno - 1] = re.sub(r"\)\s*(->[^:]*)?:\s*$", f") -> '{y.name}':", l, count=1)
        return _join(lines)
    # nothing to wire: a self-referential alias + class appended
    tail = rng.choice([
        "_CycA = List['_CycB']\n_CycB = Dict[str, _CycA]\nx_cyc: _CycA\n",
        "class _CycC(_CycD): pass\nclass _CycD(_CycC): pass\n",
        "from typing import NamedTuple\nclass _CycN(NamedTuple):\n    x: '_CycM'\nclass _CycM(NamedTuple):\n    y: _CycN\n",
        "import main\nfrom main import *\n",
    ])
    return _join(lines + tail.split("\n"))


NEST_WRAPPERS = ["[{S}]", "({S}, {V})[1]", "({S},)", "{0: {S}}", "[{S}, {V}]", "str({S})", "({S} or {V})", "{S}",
                 "[{S} for _ in range(2)]", "(lambda: {S})()", "[{V}, {S}][0]"]


def nest(src: str, rng) -> str:
    """nested self-reference: an argument expression of a call statement (or the value of `d[k] = v`, `x += v`) is replaced
    by a copy of the whole statement's expression wrapped in a display / subscript / call:
        x.append(E)  →  x.append([x.append(E)])        d[k] = v  →  d[k] = [d.setdefault(k, v)]
        x += v       →  x += [x.extend(v)]             f(a, b)   →  f(a, (f(a, b), b)[1])"""
    try:
        tree = ast.parse(src)
    except (SyntaxError, ValueError, RecursionError, MemoryError):
        return duplicate(src, rng)
    cands = []
    for n in ast.walk(tree):
        if isinstance(n, ast.Expr) and isinstance(n.value, ast.Call) and (n.value.args or n.value.keywords):
            # method calls on a name first (they are the ones that refine partial types), other calls as well
            w = 4 if isinstance(n.value.func, ast.Attribute) and isinstance(n.value.func.value, ast.Name) else 1
            cands += [("call", n)] * w
        elif isinstance(n, ast.Assign) and len(n.targets) == 1 and isinstance(n.targets[0], ast.Subscript) \
                and isinstance(n.targets[0].value, ast.Name):
            cands += [("setitem", n)] * 3
        elif isinstance(n, ast.AugAssign) and isinstance(n.target, ast.Name):
            cands += [("aug", n)] * 3
    if not cands:
        return duplicate(src, rng)
    kind, n = rng.choice(cands)
    seg = lambda e: ast.get_source_segment(src, e)  # noqa: E731
    wrap = rng.choice(NEST_WRAPPERS)
    if kind == "call":
        call = n.value
        args = list(call.args) + [k.value for k in call.keywords]
        a = rng.choice(args)
        inner, old = seg(call), seg(a)
        if not inner or not old or getattr(a, "end_lineno", None) is None:
            return src
        new = wrap.replace("{S}", inner).replace("{V}", old)
        return _splice_span(src, (a.lineno, a.col_offset, a.end_lineno, a.end_col_offset, old), new)
    if kind == "setitem":
        tgt, val = n.targets[0], n.value
        base, key, v = seg(tgt.value), seg(tgt.slice), seg(val)
        if not base or not key or not v:
            return src
        inner = rng.choice([f"{base}.setdefault({key}, {v})", f"{base}.update({{{key}: {v}}})", f"{base}.__setitem__({key}, {v})",
                            f"{base}.append({v})"])
        new = wrap.replace("{S}", inner).replace("{V}", v)
        return _splice_span(src, (val.lineno, val.col_offset, val.end_lineno, val.end_col_offset, v), new)
    val = n.value
    x, v = n.target.id, seg(val)
    if not v:
        return src
    inner = rng.choice([f"{x}.append({v})", f"{x}.extend({v})", f"{x}.add({v})", f"{x}.update({v})", f"{x}.__iadd__({v})"])
    new = wrap.replace("{S}", inner).replace("{V}", v)
    return _splice_span(src, (val.lineno, val.col_offset, val.end_lineno, val.end_col_offset, v), new)


SPECIAL_CALLS = {"NamedTuple", "TypedDict", "Enum", "IntEnum", "Flag", "IntFlag", "StrEnum", "NewType", "TypeVar", "ParamSpec",
                 "TypeVarTuple", "namedtuple", "field", "ib", "attrib", "attr", "partial", "cast", "dataclass", "make_dataclass",
                 "dataclass_transform", "total_ordering", "singledispatch", "TypeAliasType", "Literal", "Union", "Optional",
                 "Callable", "Tuple", "tuple", "Generic", "Protocol", "Annotated", "Concatenate", "Unpack", "s", "define", "frozen"}
SPECIAL_TARGETS = {"__slots__", "__all__", "__match_args__", "_fields_", "__deletable__", "_ignore_", "_order_"}
SPECIAL_RE = re.compile(r"\b(NamedTuple|TypedDict|Enum|NewType|TypeVar|ParamSpec|namedtuple|field|attr\.ib|attrib|partial|cast|"
                        r"__slots__|__all__|__match_args__|make_dataclass|TypeAliasType)\s*[(=]")


def has_special_forms(src: str) -> bool:
    return SPECIAL_RE.search(src) is not None


def _call_name(c: ast.Call) -> str | None:
    f = c.func
    if isinstance(f, ast.Name):
        return f.id
    if isinstance(f, ast.Attribute):
        return f.attr
    return None


def _displays_in(node: ast.AST) -> list[ast.AST]:
    return [n for n in ast.walk(node) if isinstance(n, (ast.Tuple, ast.List, ast.Set)) and n.elts
            or isinstance(n, ast.Dict) and n.keys]


def elements(src: str, rng) -> str:
    """element-level mutation inside the arguments of special forms and plugin-handled callables: delete / duplicate / swap /
    cross-replace ONE element of a tuple, list, set or dict display (or one positional / keyword argument) that is an argument of
    NamedTuple(), TypedDict(), Enum(), NewType(), TypeVar(), namedtuple(), field(), attr.ib(), partial(), cast(), a subscript such as
    Callable[[…], …] / Literal[…] / Union[…], or the value of `__slots__` / `__all__` / `__match_args__`"""
    try:
        tree = ast.parse(src)
    except (SyntaxError, ValueError, RecursionError, MemoryError):
        return delete(src, rng)
    seg = lambda e: ast.get_source_segment(src, e)  # noqa: E731
    cands: list[tuple[str, ast.AST]] = []
    for n in ast.walk(tree):
        if isinstance(n, ast.Call) and _call_name(n) in SPECIAL_CALLS:
            for a in list(n.args) + [k.value for k in n.keywords]:
                cands += [("display", d) for d in _displays_in(a)] * 3
            if len(n.args) + len(n.keywords) >= 1:
                cands.append(("args", n))
        elif isinstance(n, ast.Subscript):
            base = n.value.id if isinstance(n.value, ast.Name) else (n.value.attr if isinstance(n.value, ast.Attribute) else None)
            if base in SPECIAL_CALLS:
                cands += [("display", d) for d in _displays_in(n.slice)]
        elif isinstance(n, (ast.Assign, ast.AnnAssign)):
            tgts = n.targets if isinstance(n, ast.Assign) else [n.target]
            if any(isinstance(t, ast.Name) and t.id in SPECIAL_TARGETS for t in tgts) and n.value is not None:
                cands += [("display", d) for d in _displays_in(n.value)] * 3
        elif isinstance(n, ast.ClassDef) and len(n.bases) + len(n.keywords) >= 1:
            cands.append(("bases", n))
    if not cands:
        return retype(src, rng)
    kind, n = rng.choice(cands)
    op = rng.choice(["delete", "delete", "duplicate", "swap", "cross", "empty"])
    if kind == "display":
        if isinstance(n, ast.Dict):
            items = [f"{seg(k) if k is not None else '**'}: {seg(v)}" if k is not None else f"**{seg(v)}" for k, v in zip(n.keys, n.values)]
            lb, rb = "{", "}"
        else:
            items = [seg(e) or "..." for e in n.elts]
            whole = seg(n) or ""
            lb, rb = {ast.List: ("[", "]"), ast.Set: ("{", "}")}.get(type(n), ("(", ")") if whole.startswith("(") else ("", ""))
        items = _edit_items(items, op, rng)
        body = ", ".join(items)
        if isinstance(n, ast.Tuple) and len(items) == 1 and lb == "(":
            body += ","
        if isinstance(n, ast.Tuple) and not items and lb == "":
            lb, rb = "(", ")"
        return _splice_span(src, (n.lineno, n.col_offset, n.end_lineno, n.end_col_offset, ""), lb + body + rb)
    if kind == "args":
        items = [seg(a) or "..." for a in n.args] + [f"{k.arg}={seg(k.value)}" if k.arg else f"**{seg(k.value)}" for k in n.keywords]
        items = _edit_items(items, op, rng)
        return _splice_span(src, (n.lineno, n.col_offset, n.end_lineno, n.end_col_offset, ""), f"{seg(n.func)}({', '.join(items)})")
    # class header: bases / keywords
    items = [seg(b) or "object" for b in n.bases] + [f"{k.arg}={seg(k.value)}" if k.arg else f"**{seg(k.value)}" for k in n.keywords]
    items = _edit_items(items, op, rng)
    lines = _lines(src)
    l = lines[n.lineno - 1]
    m = re.match(r"^(\s*class\s+\w+\s*(\[[^\]]*\])?)\s*\(.*\)\s*:(.*)$", l)
    if not m or n.body[0].lineno == n.lineno and not m.group(3).strip():
        return src
    lines[n.lineno - 1] = f"{m.group(1)}({', '.join(items)}):{m.group(3)}"
    return _join(lines)


def _edit_items(items: list[str], op: str, rng) -> list[str]:
    items = list(items)
    if not items:
        return items
    i = rng.randrange(len(items))
    if op == "delete":
        del items[i]
    elif op == "duplicate":
        items.insert(i, items[i])
    elif op == "swap" and len(items) >= 2:
        j = rng.randrange(len(items))
        items[i], items[j] = items[j], items[i]
    elif op == "cross" and len(items) >= 2:
        items[i] = items[rng.randrange(len(items))]
    elif op == "empty":
        items = [] if rng.random() < 0.5 else items[:1]
    else:
        items.append(items[i])
    return items


def misarg(src: str, rng) -> str:
    """error-path amplifier: an argument of a call (or the right-hand side of an annotated assignment / a return value) is
    replaced by another expression of the same file — most likely of a different type, so that an incompatibility error about
    an unusual pair of types is reported and its notes are rendered"""
    try:
        tree = ast.parse(src)
    except (SyntaxError, ValueError, RecursionError, MemoryError):
        return crosswire(src, rng)
    seg = lambda e: ast.get_source_segment(src, e)  # noqa: E731
    pool: list[str] = ["None", "...", "0", "''", "b''", "[]", "{}", "()", "lambda: 0", "type", "object", "int", "NotImplemented",
                       "__name__", "print"]
    sites: list[ast.expr] = []
    for n in ast.walk(tree):
        if isinstance(n, (ast.ClassDef, ast.FunctionDef, ast.AsyncFunctionDef)):
            pool += [n.name, n.name + "()"] if isinstance(n, ast.ClassDef) else [n.name]
        elif isinstance(n, ast.Import):
            pool += [a.asname or a.name.split(".")[0] for a in n.names]
        elif isinstance(n, ast.arg):
            pool.append(n.arg)
        elif isinstance(n, (ast.Assign, ast.AnnAssign)):
            for t in (n.targets if isinstance(n, ast.Assign) else [n.target]):
                if isinstance(t, ast.Name):
                    pool.append(t.id)
            if isinstance(n, ast.AnnAssign) and n.value is not None:
                sites.append(n.value)
        elif isinstance(n, ast.Call):
            for a in list(n.args) + [k.value for k in n.keywords]:
                sites.append(a)
                s_ = seg(a)
                if s_ and len(s_) < 60:
                    pool.append(s_)
        elif isinstance(n, ast.Return) and n.value is not None:
            sites.append(n.value)
    sites = [e for e in sites if getattr(e, "end_lineno", None) is not None]
    if not sites:
        return crosswire(src, rng)
    out = src
    # one to three replacements, applied bottom-up so that earlier spans stay valid
    chosen = sorted(rng.sample(sites, min(len(sites), rng.randint(1, 3))), key=lambda e: (e.lineno, e.col_offset), reverse=True)
    last = None
    for e in chosen:
        if last is not None and (e.end_lineno, e.end_col_offset) > (last.lineno, last.col_offset):
            continue
        old = seg(e) or ""
        new = rng.choice([x for x in pool if x != old] or ["None"])
        if rng.random() < 0.15:
            new = rng.choice(["[{}]", "({}, {})", "type({})", "{} or None", "lambda: {}"]).replace("{}", new)
        out = _splice_span(out, (e.lineno, e.col_offset, e.end_lineno, e.end_col_offset, old), new)
        last = e
    return out


def mutate(kind: str, src: str, rng, other: str) -> str:
    try:
        if kind == "delete":
            return delete(src, rng)
        if kind == "duplicate":
            return duplicate(src, rng)
        if kind == "swap":
            return swap(src, rng)
        if kind == "rename":
            return rename(src, rng)
        if kind == "crosswire":
            return crosswire(src, rng)
        if kind == "retype":
            return retype(src, rng)
        if kind == "truncate":
            return truncate(src, rng)
        if kind == "splice":
            return splice(src, rng, other)
        if kind == "cyclic":
            return cyclic(src, rng)
        if kind == "nest":
            return nest(src, rng)
        if kind == "elements":
            return elements(src, rng)
        if kind == "misarg":
            return misarg(src, rng)
    except (IndexError, ValueError, RecursionError):
        pass
    return src
