"""Successive daemon edits: an in-process `mypy.dmypy_server.Server` is given one program version after the other
(`run_command("check", …)`, as `dmypy check` does) under observation (instrument.py).

    python dworker.py <job.json> <result.jsonl>

job: {"lines": {...}, "dir": path, "flags": [...], "steps": [{"write": {name: text}, "delete": [name], "probe": bool}]}
result lines (flushed one by one, so that the parent knows where a hang happened):
    {"start": i, "t": …}   {"done": i, "resp": {...} | null, "exc": [type, file, func, text] | null, "trace": {...}, "restarted": bool}
After a crash (an exception escaping `run_command` — the real daemon answers "Daemon crashed!" and exits) the
history goes on with a fresh Server, as a user who restarts the daemon would.
"""
import io
import json
import os
import resource
import sys
import time
import traceback


def innermost(exc: BaseException):
    tb = exc.__traceback__
    last = None
    while tb is not None:
        fn = tb.tb_frame.f_code.co_filename
        if "/mypy/" in fn or "/mypyc/" in fn:
            last = (fn.rsplit("/", 1)[-1], tb.tb_frame.f_code.co_name)
        tb = tb.tb_next
    return last or (None, None)


def main() -> None:
    job = json.load(open(sys.argv[1]))
    out = open(sys.argv[2], "a")
    limit = int(os.environ.get("VERIF_C20_AS_LIMIT", str(4 << 30)))
    try:
        resource.setrlimit(resource.RLIMIT_AS, (limit, limit))
    except (ValueError, OSError):
        pass
    os.chdir(job["dir"])
    # the parent asks for the Python stack (SIGUSR1) before it kills a worker that exceeded its time limit
    import faulthandler
    import signal
    faulthandler.register(signal.SIGUSR1, file=sys.stderr, all_threads=False, chain=False)
    import instrument
    import mypy.main
    import mypy.server.update  # noqa: F401
    from mypy.dmypy_server import Server, process_start_options
    instrument.install(job["lines"])

    def new_server():
        options = process_start_options(["--no-error-summary", "--hide-error-context"] + job["flags"], allow_sources=False)
        return Server(options, os.path.join(job["dir"], ".status.json"))

    def emit(obj) -> None:
        out.write(json.dumps(obj) + "\n")
        out.flush()

    server = None
    clock = time.time() - 10_000
    for i, st in enumerate(job["steps"]):
        for name in st.get("delete", []):
            try:
                os.remove(name)
            except OSError:
                pass
        clock += 3
        for name, text in st.get("write", {}).items():
            d = os.path.dirname(name)
            if d:
                os.makedirs(d, exist_ok=True)
            with open(name, "w", encoding="utf8", errors="surrogateescape", newline="") as f:
                f.write(text)
            os.utime(name, (clock, clock))
        emit({"start": i, "t": time.time(), "cpu": time.process_time()})
        instrument.reset()
        restarted = False
        resp = exc = None
        so, se = sys.stdout, sys.stderr
        cap_o, cap_e = io.StringIO(), io.StringIO()
        try:
            if server is None:
                server = new_server()
                restarted = True
            sys.stdout, sys.stderr = cap_o, cap_e
            resp = server.run_command("check", {"files": ["main.py"], "export_types": False,
                                                "is_tty": False, "terminal_width": 80})
        except BaseException as e:  # noqa: BLE001 - SystemExit(2) from report_internal_error included
            sys.stdout, sys.stderr = so, se
            f, fn = innermost(e)
            exc = [type(e).__name__, f, fn, "".join(traceback.format_exception(e))[-3000:]]
            server = None
        finally:
            sys.stdout, sys.stderr = so, se
        if resp is not None:
            resp = {k: resp.get(k) for k in ("out", "err", "status", "error") if k in resp}
        emit({"done": i, "resp": resp, "exc": exc, "trace": dict(instrument.TRACE), "restarted": restarted,
              "printed": (cap_o.getvalue() + cap_e.getvalue())[-2000:]})
    emit({"finished": True})


if __name__ == "__main__":
    main()
