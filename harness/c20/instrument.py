"""Observation of mypy's loop counters *from outside* (no source hooks): `sys.monitoring` line events on the
counter increments of the three capped loops (line numbers found by translate/driver_caps.py in the same
tree), and thin wrappers around `check_first_pass` / `check_second_pass` / `reprocess_nodes` / `report_hang` /
`report_internal_error` / `run_build`.  Nothing mypy computes is changed: every wrapper calls the original
with the original arguments and returns / re-raises what it returned / raised.

Used by child.py (one batch run per process) and dworker.py (in-process daemon).
"""
from __future__ import annotations

import sys

TRACE: dict = {}
_TOOL = 4


def reset() -> None:
    TRACE.clear()
    TRACE.update({
        "top_iters": 0, "func_iters": 0, "top_calls": 0, "func_calls": 0,
        "pass_num": 0, "second_calls": 0, "sweeps": 0,
        "fg_iters": 0, "fg_pass_num": 0, "fg_calls": 0, "fg_rounds": 0,
        "hang_reported": 0, "internal_error": 0, "internal_error_where": None,
        "via_main": 0, "blockers": 0, "n_messages": 0, "n_notes": 0, "left_deferred": 0,
    })


reset()


def install(lines: dict) -> None:
    """`lines`: {function name: line of its counter increment} from translate.driver_caps.collect()"""
    import mypy.semanal_main as sm
    import mypy.server.update as upd
    import mypy.checker as chk
    import mypy.semanal as semanal
    import mypy.errors as errors

    mon = sys.monitoring
    mon.use_tool_id(_TOOL, "verif-c20")
    watch = {}
    for mod, fname, key, calls in ((sm, "process_top_levels", "top_iters", "top_calls"),
                                   (sm, "process_top_level_function", "func_iters", "func_calls"),
                                   (upd, "propagate_changes_using_dependencies", "fg_iters", "fg_rounds")):
        fn = getattr(mod, fname, None)
        line = lines.get(fname) or 0
        if fn is None or not line:
            continue
        watch[fn.__code__] = [line, key, calls, 0]
        mon.set_local_events(_TOOL, fn.__code__, mon.events.LINE | mon.events.PY_START)

    def on_start(code, offset):
        w = watch.get(code)
        if w is not None:
            w[3] = 0
            TRACE[w[2]] += 1

    def on_line(code, line):
        w = watch.get(code)
        if w is None or line != w[0]:
            return mon.DISABLE
        w[3] += 1
        if w[3] > TRACE[w[1]]:
            TRACE[w[1]] = w[3]
        return None

    mon.register_callback(_TOOL, mon.events.PY_START, on_start)
    mon.register_callback(_TOOL, mon.events.LINE, on_line)

    # ---- checker passes
    TC = chk.TypeChecker
    calls: dict[int, int] = {}
    state = {"in_reprocess": 0}
    orig_first, orig_second, orig_reset = TC.check_first_pass, TC.check_second_pass, TC.reset

    def first(self, *a, **k):
        calls[id(self)] = 0
        return orig_first(self, *a, **k)

    def second(self, *a, **k):
        try:
            return orig_second(self, *a, **k)
        finally:
            n = calls.get(id(self), 0) + 1
            calls[id(self)] = n
            if state["in_reprocess"]:
                TRACE["fg_calls"] = max(TRACE["fg_calls"], n)
                TRACE["fg_pass_num"] = max(TRACE["fg_pass_num"], self.pass_num)
            else:
                TRACE["second_calls"] = max(TRACE["second_calls"], n)
                TRACE["sweeps"] = max(TRACE["sweeps"], n)
                TRACE["pass_num"] = max(TRACE["pass_num"], self.pass_num)
                TRACE["left_deferred"] = len(self.deferred_nodes)

    def reset_(self, *a, **k):
        calls[id(self)] = 0
        return orig_reset(self, *a, **k)

    TC.check_first_pass, TC.check_second_pass, TC.reset = first, second, reset_

    orig_reprocess = upd.reprocess_nodes

    def reprocess(*a, **k):
        state["in_reprocess"] += 1
        try:
            return orig_reprocess(*a, **k)
        finally:
            state["in_reprocess"] -= 1

    upd.reprocess_nodes = reprocess

    # ---- the two bad exits
    orig_hang = semanal.SemanticAnalyzer.report_hang

    def hang(self):
        TRACE["hang_reported"] += 1
        return orig_hang(self)

    semanal.SemanticAnalyzer.report_hang = hang

    orig_rie = errors.report_internal_error

    def rie(err, file, line, *a, **k):
        TRACE["internal_error"] += 1
        tb = err.__traceback__
        last = None
        while tb is not None:
            fn = tb.tb_frame.f_code.co_filename
            if "/mypy/" in fn or "/mypyc/" in fn:
                last = (fn.rsplit("/", 1)[-1], tb.tb_frame.f_code.co_name)
            tb = tb.tb_next
        TRACE["internal_error_where"] = [type(err).__name__, last[0] if last else None, last[1] if last else None]
        return orig_rie(err, file, line, *a, **k)

    for m in list(sys.modules.values()):
        if m is not None and getattr(m, "__name__", "").startswith(("mypy.", "mypyc.")) \
                and getattr(m, "report_internal_error", None) is orig_rie:
            m.report_internal_error = rie
    errors.report_internal_error = rie


def install_main() -> None:
    """record what reaches `main`: blockers flag and message counts"""
    import mypy.main as mm
    import mypy.util as util
    orig = mm.run_build

    def run_build(*a, **k):
        res = orig(*a, **k)
        _r, messages, blockers = res
        TRACE["via_main"] = 1
        TRACE["blockers"] = int(bool(blockers))
        TRACE["n_messages"] = len(messages)
        TRACE["n_notes"] = util.count_stats(messages)[1]
        return res

    mm.run_build = run_build
