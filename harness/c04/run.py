"""C04 — a killed run or a failed cache write never makes later runs wrong.

1. Lean: Props/C04 over Model/Store.lean — `update_crash_safe`, `crash_safe_history`,
   `crash_safe_interleaved` (repaired write protocol), `not_crash_safe_old_order` (finding F2).
2. Tie:
   a. trace correspondence — the real store-operation trace of a warm run, projected per re-analysed
      module, must equal the model's `updateOps` (names, order, presence of the data write);
   b. fault enumeration as correspondence — for every generated (program, edit) and store: every crash
      index of the real trace (kill = os._exit inside the wrapped store method of a child process), every
      single failed write, and random subsets of failed writes; the model says every state left behind is
      Safe, so the follow-up run must equal the cold run.
3. Search = (b) itself: the first (tree, edit, store, crash index / fail set) whose follow-up run differs
   from the cold run is the replay.
"""
from __future__ import annotations

import copy
import json
import os
import re
import shutil
from concurrent.futures import ThreadPoolExecutor

from harness.vlib import buildsim as B
from harness.vlib.core import Ctx, ToolFailure

MODEL_FILES = ["MypyVerif/Model/Store.lean", "MypyVerif/Proofs/Store.lean"]
OP_RE = re.compile(r"^(write|remove):(.+?)\.(data|meta|meta_ex)\.(ff|json)$")


def project(ops: list[str]) -> dict[str, list[str]]:
    per: dict[str, list[str]] = {}
    for o in ops:
        m = OP_RE.match(o)
        if m:
            mod = m.group(2).replace("/", ".")
            if mod.endswith(".__init__"):
                mod = mod[: -len(".__init__")]
            per.setdefault(mod, []).append(f"{m.group(1)}:{m.group(3)}")
    return per


def write_world(w, root: str, clock: int) -> dict:
    B.materialize(w, root, clock)
    files = {}
    for dp, _, fs in os.walk(root):
        for fn in fs:
            p = os.path.join(dp, fn)
            files[os.path.relpath(p, root)] = open(p).read()
    return files


def one_pair(ctx: Ctx, pid: str, config: str, w0, w1, rng) -> dict:
    """Everything for one (program, edit, store config): reference runs, trace, fault enumeration."""
    base = os.path.join(ctx.tmp, f"p{pid}")
    shutil.rmtree(base, ignore_errors=True)
    os.makedirs(base)
    root = os.path.join(base, "src")
    args = B.CONFIGS[config]
    files0 = write_world(w0, root, 1_700_000_002)
    first = B.run_mypy(root, os.path.join(base, "cache0"), args, scratch=base)
    files1 = write_world(w1, root, 1_700_000_004)
    cold = B.run_mypy(root, os.path.join(base, "cold"), args, scratch=base)
    shutil.rmtree(os.path.join(base, "cold"), ignore_errors=True)

    def fresh_cache(tag: str) -> str:
        d = os.path.join(base, f"c-{tag}")
        shutil.rmtree(d, ignore_errors=True)
        shutil.copytree(os.path.join(base, "cache0"), d)
        return d

    ref = B.run_mypy(root, fresh_cache("ref"), args, want_oplog=True, scratch=base)
    shutil.rmtree(os.path.join(base, "c-ref"), ignore_errors=True)
    for r in (first, cold, ref):
        if r.get("timeout") or r.get("status") not in (0, 1):
            raise ToolFailure(f"reference run failed: {r.get('status')} {r.get('stderr', '')[-800:]}")
    ops = ref["ops"]
    ccold = B.canon_output(cold)
    out = {"pid": pid, "config": config, "files0": files0, "files1": files1, "ops": ops, "ref": ref, "first": first,
           "cold": cold, "faults": []}

    import threading
    tree_lock = threading.Lock()

    def follow_up(tag: str, crash_at: int = -1, fail_ops=None, revert: bool = False) -> dict:
        if revert:
            return follow_up_revert(tag, crash_at)
        cdir = fresh_cache(tag)
        r1 = B.run_mypy(root, cdir, args, crash_at=crash_at, fail_ops=fail_ops, scratch=base)
        rec = {"crash_at": crash_at, "fail_ops": fail_ops or [], "killed": bool(r1.get("killed"))}
        if not r1.get("killed"):
            if r1.get("timeout") or r1.get("status") not in (0, 1, 2):
                raise ToolFailure(f"faulty run failed oddly: {r1.get('status')} {r1.get('stderr', '')[-800:]}")
            if r1.get("status") == 2:
                # the failed operation stopped the run with a blocking error (a failed write of the plugins
                # snapshot is reported that way): like a killed run, only what the NEXT run reports is judged
                rec["aborted"] = True
            else:
                # a failed write must not change what THIS run reports either
                rec["same_run_diff"] = B.diff_outputs(B.canon_output(r1), ccold)
        r2 = B.run_mypy(root, cdir, args, scratch=base)
        shutil.rmtree(cdir, ignore_errors=True)
        if r2.get("timeout") or r2.get("status") not in (0, 1):
            raise ToolFailure(f"follow-up run failed: {r2.get('status')} {r2.get('stderr', '')[-800:]}")
        rec["diff"] = B.diff_outputs(B.canon_output(r2), ccold)
        rec["rechecked_after"] = B.user_modules(r2.get("rechecked"))
        return rec

    def follow_up_revert(tag: str, crash_at: int) -> dict:
        """Kill right after a data write, then the edit is undone before the next run: the old meta matches the
        old source again, but the data record is the new one — only the data_mtime tie protects the next run.
        Uses a private copy of the tree (the shared one must keep the edited files)."""
        cdir = fresh_cache(tag)
        r1 = B.run_mypy(root, cdir, args, crash_at=crash_at, scratch=base)
        root2 = os.path.join(base, f"src-{tag}")
        shutil.rmtree(root2, ignore_errors=True)
        os.makedirs(root2)
        mm = OP_RE.match(ops[crash_at - 1])
        keep = (mm.group(2) + ".py") if mm else ""          # the module whose data record was just written
        for pth, text in files0.items():
            fp = os.path.join(root2, pth)
            os.makedirs(os.path.dirname(fp), exist_ok=True)
            # every other module gets a (harmless) content change, so that it is re-analysed against the
            # cached data of the reverted module
            if pth != keep and pth.endswith(".py") and text.strip():
                text = text + "# touched\n"
            open(fp, "w").write(text)
            os.utime(fp, (1_700_000_006, 1_700_000_006))
        # same relative layout ⇒ same cache entries; run from the reverted copy
        r2 = B.run_mypy(root2, cdir, args, scratch=base)
        c0 = B.run_mypy(root2, os.path.join(base, f"cold0-{tag}"), args, scratch=base)
        shutil.rmtree(cdir, ignore_errors=True)
        shutil.rmtree(os.path.join(base, f"cold0-{tag}"), ignore_errors=True)
        shutil.rmtree(root2, ignore_errors=True)
        return {"crash_at": crash_at, "fail_ops": [], "killed": bool(r1.get("killed")), "revert": True,
                "diff": B.diff_outputs(B.canon_output(r2), B.canon_output(c0)), "rechecked_after": B.user_modules(r2.get("rechecked"))}

    jobs = []
    for k in range(len(ops) + 1):
        jobs.append((f"k{k}", k, None))
        if k > 0 and ops[k - 1].startswith("write:") and ".data." in ops[k - 1] and not ops[k - 1].startswith("write:@"):
            jobs.append((f"r{k}", k, None, True))
    writes = [i for i, o in enumerate(ops) if o.startswith("write:")]
    for i in writes:
        jobs.append((f"f{i}", -1, [i]))
    # a record that cannot be removed (the removal of the old meta_ex raises), alone and together with the
    # failure of the meta_ex write that follows it for the same module
    removes = [i for i, o in enumerate(ops) if o.startswith("remove:") and ".meta_ex." in o]
    for i in removes:
        jobs.append((f"x{i}", -1, [i]))
        name = ops[i].split(":", 1)[1]
        later = [j for j in writes if j > i and ops[j] == "write:" + name]
        if later:
            jobs.append((f"xw{i}", -1, [i, later[0]]))
    nsub = ctx.pick(3, 20)
    for j in range(nsub):
        sub = sorted(rng.sample(writes, min(len(writes), rng.randint(2, 4)))) if len(writes) >= 2 else []
        if sub:
            jobs.append((f"s{j}", -1, sub))
    with ThreadPoolExecutor(max_workers=4) as ex:
        out["faults"] = list(ex.map(lambda j: follow_up(*j), jobs))
    shutil.rmtree(base, ignore_errors=True)
    return out


def pairs(ctx: Ctx):
    """(name, w0, w1): scripted (program, edit) pairs + random ones."""
    ps = []
    for name, ws in B.scripted_histories():
        ps.append((name, ws[0][1], ws[1][1]))
    import random
    n = ctx.pick(2, 16)
    for i in range(n):
        rng = random.Random(f"c04:{ctx.seed}:{i}")
        w = B.gen_world(rng, (3, 5))
        w0 = copy.deepcopy(w)
        B.random_edit(rng, w, ["signature", "attr", "meth", "toggle_error", "body", "add_import", "remove_import"])
        B.random_edit(rng, w, ["signature", "attr", "toggle_error"])
        ps.append((f"rand{i}", w0, w))
    return ps


PLUGIN_SRC = """from mypy.plugin import Plugin
class P(Plugin):
    def get_function_hook(self, fullname):
        if fullname == "lib.magic":
            return self.hook
        return None
    def hook(self, ctx):
        return ctx.api.named_generic_type("builtins.%s", [])
def plugin(version):
    return P
"""


def plugin_kill(ctx: Ctx) -> None:
    """The edit is a change of a plugin named in the config file (every entry was computed with the old plugin).
    The run after it is killed at sampled points; the next run is made (a) with the changed plugin and (b) after
    the change was reverted; both must report what a cold run reports."""
    for config in (["files-binary", "sqlite-binary"] if ctx.quick() else list(B.CONFIGS)):
        base = os.path.join(ctx.tmp, "plug-" + config)
        root = os.path.join(base, "src")
        os.makedirs(root)
        files = {"lib.py": "def magic() -> object: ...\n", "m1.py": "import lib\nx: int = lib.magic()\n",
                 "m2.py": "import lib\ny: int = lib.magic()\n", "mypy.ini": "[mypy]\nplugins = plug.py\n"}
        for pth, text in files.items():
            open(os.path.join(root, pth), "w").write(text)
            os.utime(os.path.join(root, pth), (1_700_000_002, 1_700_000_002))

        def setplug(typ: str, t: int) -> None:
            fp = os.path.join(root, "plug.py")
            open(fp, "w").write(PLUGIN_SRC % typ)
            os.utime(fp, (t, t))
        args = B.CONFIGS[config] + ["--config-file", "mypy.ini"]
        tg = ["m1.py", "m2.py"]
        setplug("int", 1_700_000_002)
        c0 = os.path.join(base, "cache0")
        first = B.run_mypy(root, c0, args, targets=tg, scratch=base)
        cold_int = B.canon_output(first)
        setplug("str", 1_700_000_004)
        ref = B.run_mypy(root, os.path.join(base, "cref"), args, targets=tg, want_oplog=True, scratch=base)
        shutil.copytree(c0, os.path.join(base, "cw"))
        warm = B.run_mypy(root, os.path.join(base, "cw"), args, targets=tg, want_oplog=True, scratch=base)
        for r in (first, ref, warm):
            if r.get("timeout") or r.get("status") not in (0, 1):
                raise ToolFailure(f"plugin scenario: reference run failed: {r.get('status')} {r.get('stderr', '')[-600:]}")
        ops = warm["ops"]
        cold_str = B.canon_output(ref)
        n = len(ops)
        tail = [k for k in range(max(0, n - 8), n + 1)]
        spread = sorted(set(range(0, n, max(1, n // ctx.pick(4, 16)))))
        points = sorted(set(tail + spread))
        lock = __import__("threading").Lock()

        def one(k: int):
            outs = []
            for revert in (False, True):
                c = os.path.join(base, f"c{k}{int(revert)}")
                shutil.copytree(c0, c)
                srcdir = os.path.join(base, f"s{k}{int(revert)}")
                shutil.copytree(root, srcdir)
                open(os.path.join(srcdir, "plug.py"), "w").write(PLUGIN_SRC % "str")
                os.utime(os.path.join(srcdir, "plug.py"), (1_700_000_004, 1_700_000_004))
                r1 = B.run_mypy(srcdir, c, args, targets=tg, crash_at=k, scratch=base)
                if revert:
                    open(os.path.join(srcdir, "plug.py"), "w").write(PLUGIN_SRC % "int")
                    os.utime(os.path.join(srcdir, "plug.py"), (1_700_000_002, 1_700_000_002))
                r2 = B.run_mypy(srcdir, c, args, targets=tg, scratch=base)
                if r2.get("timeout") or r2.get("status") not in (0, 1):
                    raise ToolFailure(f"plugin scenario: follow-up run failed: {r2.get('status')} {r2.get('stderr', '')[-600:]}")
                d = B.diff_outputs(B.canon_output(r2), cold_int if revert else cold_str)
                outs.append((k, revert, bool(r1.get("killed")), d))
                shutil.rmtree(c, ignore_errors=True)
                shutil.rmtree(srcdir, ignore_errors=True)
            return outs
        with ThreadPoolExecutor(max_workers=4) as ex:
            results = [x for part in ex.map(one, points) for x in part]
        shutil.rmtree(base, ignore_errors=True)
        for k, revert, killed, d in results:
            ctx.case(("plugin-kill", config, k, revert), nontrivial=True)
            ctx.dist("fault_kind", "crash+plugin-revert" if revert else "crash-after-plugin-edit")
            if d and not B.only_once_note_diff(d):
                ctx.count("disagreements_checked")
                prev = ops[k - 1] if 0 < k <= n else "<start>"
                nxt = ops[k] if k < n else "<end>"
                ctx.report({"class": "stale-after-fault", "window": "plugins-snapshot", "store": "sqlite" if "sqlite" in config else "files"},
                           f"next run after a kill between '{prev}' and '{nxt}' of the run that followed a plugin edit"
                           + (" (the plugin edit was then reverted)" if revert else "") + f" differs from the cold run ({config}): {d[:2]}",
                           {"config": config, "files": files, "plugin_first": PLUGIN_SRC % "int", "plugin_edited": PLUGIN_SRC % "str",
                            "crash_at": k, "reverted": revert, "ops_around": ops[max(0, k - 3):k + 2], "diff": d})


def parallel_worker_faults(ctx: Ctx) -> None:
    """Failed store writes INSIDE the workers of a parallel build (injected through the worker shim): the next
    run must still equal the cold run; what the faulty parallel run itself does is recorded."""
    base = os.path.join(ctx.tmp, "pwf")
    root = os.path.join(base, "src")
    os.makedirs(root)
    files = {"a.py": "import b\nx: int = b.f()\n", "b.py": "import c\ndef f() -> str:\n    return c.g()\n",
             "c.py": "def g() -> str:\n    return 1\n"}
    for pth, text in files.items():
        open(os.path.join(root, pth), "w").write(text)
        os.utime(os.path.join(root, pth), (1_700_000_002, 1_700_000_002))
    cold = B.run_mypy(root, os.path.join(base, "cold"), ["--native-parser"], scratch=base)
    for pat in ("b.data", "b.meta_ex", "c.meta."):
        cdir = os.path.join(base, "c-" + pat.replace(".", "_"))
        faulty = B.run_mypy(root, cdir, ["-n", "2"], sched_seed=ctx.seed, env_extra={"VERIF_WORKER_FAIL_WRITE": pat}, scratch=base)
        after = B.run_mypy(root, cdir, ["--native-parser"], scratch=base)
        ctx.case(("parallel-worker-failed-write", pat))
        ctx.dist("fault_kind", "worker-failed-write")
        if after.get("status") not in (0, 1):
            raise ToolFailure(f"follow-up run after a parallel worker fault failed: {after.get('stderr', '')[-800:]}")
        d = B.diff_outputs(B.canon_output(after), B.canon_output(cold))
        rep = {"files": files, "workers": 2, "failing_write_contains": pat, "faulty_run_status": faulty.get("status"),
               "faulty_run_stderr": (faulty.get("stderr") or "")[-1200:], "diff_next_run_vs_cold": d}
        if d and not B.only_once_note_diff(d):
            ctx.report({"class": "stale-after-fault", "window": "parallel-worker-failed-write", "store": "sqlite"},
                       f"next run after a failed write of '{pat}' inside a parallel worker differs from the cold run: {d[:2]}", rep)
        elif faulty.get("status") not in (0, 1):
            ctx.report({"class": "parallel-build-aborts-on-failed-worker-write"},
                       f"a failed write of '{pat}' inside a parallel worker aborts the whole build with an internal error "
                       "(the next run is correct)", rep)
        elif B.diff_outputs(B.canon_output(faulty), B.canon_output(cold)) and not B.only_once_note_diff(B.diff_outputs(B.canon_output(faulty), B.canon_output(cold))):
            ctx.report({"class": "parallel-run-with-failed-worker-write-reports-differently"},
                       f"a parallel run in which the write of '{pat}' fails inside a worker reports different diagnostics", rep)
    shutil.rmtree(base, ignore_errors=True)


def main(ctx: Ctx) -> None:
    ctx.coverage["rule"] = ("a case = one fault scenario (crash before store op k / a set of failed writes) of one (program, edit, store config) "
                            "followed by a normal run compared with the cold run; non-trivial when the faulty run had re-analysed a user "
                            "module; distinct by (pair, config, fault)")
    proved = ctx.prove("MypyVerif.Props.C04", MODEL_FILES)
    from translate import plugcfg
    plugcfg.main()
    proved_plug = ctx.prove("MypyVerif.Props.C04Plug", ["MypyVerif/Model/PlugSnap.lean"])
    ctx.trusted("model: Model/PlugSnap.lean (entries tied to the plugins they were computed with; global record vs the entry's own "
                "options snapshot); the configuration is regenerated by translate/plugcfg.py from options_snapshot (AST)")
    ctx.trusted("model: Model/Store.lean (per-module data/meta/meta_ex records, write order of process_stale_scc and of the parallel "
                "interface/implementation phases, failure control flow); records carry ghost analysis tags",
                "SQLite transaction atomicity under process death and os.replace atomicity; a kill happens between Python-level store calls "
                "(simulated by os._exit inside the wrapped store method of a child process); PRAGMA synchronous=OFF ⇒ power loss is outside the model",
                "data records written by different runs have different mtime stamps (same-second rewrites are the F7 class)")
    allp = pairs(ctx)
    cfgs = ["files-binary", "sqlite-binary"] if ctx.quick() else list(B.CONFIGS)
    import random
    jobs = []
    for i, (name, w0, w1) in enumerate(allp):
        use = [cfgs[(i + ctx.seed) % len(cfgs)]] if ctx.quick() else cfgs
        if ctx.quick() and i < 3:
            use = cfgs            # the first scripted pairs on both stores
        for c in use:
            jobs.append((f"{name}-{c}", c, w0, w1, random.Random(f"{ctx.seed}:{name}:{c}")))
    with ThreadPoolExecutor(max_workers=4) as ex:
        results = list(ex.map(lambda j: one_pair(ctx, *j), jobs))

    # (a) trace correspondence
    lines, keys = [], []
    for res in results:
        per = project(res["ops"])
        rech = B.user_modules(res["ref"].get("rechecked"))
        for m in rech:
            # write_cache writes the data record unless the interface hash equals the old one; the old hash comes
            # from the cache entry that was FOUND for the module (even when validate_meta then rejected the entry
            # because the source changed); a module for which no entry was found has no old hash
            changed = (res["first"]["ifaces"].get(m) != res["ref"]["ifaces"].get(m)
                       or m in (res["ref"].get("nohash") or []))
            had = m in res["first"]["ifaces"]
            lines.append(f"U 1 {int(changed)} 1 {'0' if had else '-'} 0000 {'0' if had else '-'} {'0,0' if had else '-'} {'0' if had else '-'}")
            keys.append((res, m, per.get(m, []), changed))
    model = ctx.lean_driver("Driver/C04.lean", lines) if lines else []
    trace_breaks = []
    for (res, m, real_ops, changed), mline in zip(keys, model):
        mops = [o for o in mline.split(" states=")[0][4:].split(";") if o]
        unsafe = "UNSAFE" in mline
        ctx.count("traces_validated_against_impl")
        ctx.dist("module_update", "interface-changed" if changed else "interface-unchanged")
        if mops != real_ops or unsafe:
            trace_breaks.append({"pair": res["pid"], "module": m, "model_ops": mops, "real_ops": real_ops})
    ctx.coverage["trace_breaks"] = len(trace_breaks)

    # (b) fault enumeration
    found = False
    for res in results:
        nstale = len(B.user_modules(res["ref"].get("rechecked")))
        ctx.dist("config", res["config"])
        for fr in res["faults"]:
            kind = ("crash+revert" if fr.get("revert") else "crash") if fr["crash_at"] >= 0 else ("fail1" if len(fr["fail_ops"]) == 1 else "failN")
            ctx.case((res["pid"], fr["crash_at"], fr["fail_ops"]), nontrivial=nstale > 0)
            ctx.dist("fault_kind", kind)
            bad = fr["diff"] or fr.get("same_run_diff")
            if not bad:
                continue
            ctx.count("disagreements_checked")
            d = fr["diff"] or fr.get("same_run_diff")
            where = None
            if fr["crash_at"] >= 0:
                prev = res["ops"][fr["crash_at"] - 1] if fr["crash_at"] > 0 else "<start>"
                nxt = res["ops"][fr["crash_at"]] if fr["crash_at"] < len(res["ops"]) else "<end>"
                where = f"killed between '{prev}' and '{nxt}'" + (", then the edit was reverted" if fr.get("revert") else "")
            else:
                where = "failed operation(s): " + ", ".join(res["ops"][i] for i in fr["fail_ops"])
            window = "other"
            if fr["crash_at"] > 0 and OP_RE.match(res["ops"][fr["crash_at"] - 1] or "") and \
                    res["ops"][fr["crash_at"] - 1].startswith("write:") and ".meta." in res["ops"][fr["crash_at"] - 1]:
                window = "between-meta-and-meta_ex"
            if fr["fail_ops"] and all(".meta_ex." in res["ops"][i] for i in fr["fail_ops"]):
                window = "failed-meta_ex-write"
            replay = {"config": res["config"], "files_before": res["files0"], "files_after": res["files1"],
                      "crash_at": fr["crash_at"], "fail_ops": fr["fail_ops"], "ops": res["ops"], "where": where, "diff": d,
                      "revert_after_fault": bool(fr.get("revert"))}
            if B.only_once_note_diff(d):
                ctx.report({"class": "only-once-note-moves"}, f"follow-up run differs from cold only in an only_once note ({where})", replay)
            elif not found:
                found = True
                what = "next run after a fault differs from the cold run" if fr["diff"] else "a run with a failed cache write reports different diagnostics"
                ctx.report({"class": "stale-after-fault", "window": window, "store": res["config"].split("-")[0]},
                           f"{what} ({res['config']}; {where}): {d[:2]}", replay)
    parallel_worker_faults(ctx)
    plugin_kill(ctx)
    if not proved_plug and not ctx.violations:
        ctx.violation("Lean development for the plugins part of C04 no longer checks (cfg_records: the entry's options snapshot does not "
                      "record the active plugins, or the model no longer builds); the plugin-kill scenario found no stale follow-up run",
                      {"broken": "Props/C04Plug.lean (cfg_records / trusted_was_computed_with_these_plugins)", "ties": ctx.broken_ties},
                      found_input=False)
    if results:
        r = results[0]
        ctx.sample({"pair": r["pid"], "ops_of_warm_run": r["ops"], "faults_tried": len(r["faults"]),
                    "model_line": lines[0] if lines else None, "model_out": model[0] if model else None})
    if trace_breaks and not ctx.violations:
        ctx.violation("store-operation trace of a re-analysed module differs from the model's write protocol; "
                      "fault enumeration found no stale follow-up run",
                      {"broken": "correspondence Driver/C04 (Store.updateOps) vs mypy.build.process_stale_scc store trace",
                       "examples": trace_breaks[:5]}, found_input=False)
    if not proved and not ctx.violations:
        ctx.violation("Lean development for C04 no longer builds", {"broken": ctx.broken_ties}, found_input=False)


def replay(ctx: Ctx, path: str) -> int:
    body = json.load(open(path))
    det = body["replay"].get("detail", body["replay"])
    base = os.path.join(ctx.tmp, "replay")
    root = os.path.join(base, "src")
    args = B.CONFIGS[det["config"]]

    def put(files, clock):
        shutil.rmtree(root, ignore_errors=True)
        for p, t in files.items():
            fp = os.path.join(root, p)
            os.makedirs(os.path.dirname(fp), exist_ok=True)
            open(fp, "w").write(t)
            os.utime(fp, (clock, clock))
    put(det["files_before"], 1_700_000_002)
    B.run_mypy(root, os.path.join(base, "cache"), args, scratch=base)
    put(det["files_after"], 1_700_000_004)
    cold = B.run_mypy(root, os.path.join(base, "cold"), args, scratch=base)
    r1 = B.run_mypy(root, os.path.join(base, "cache"), args, crash_at=det["crash_at"], fail_ops=det["fail_ops"], scratch=base)
    r2 = B.run_mypy(root, os.path.join(base, "cache"), args, scratch=base)
    print("faulty run:", "killed" if r1.get("killed") else r1.get("status"))
    print("follow-up vs cold:", B.diff_outputs(B.canon_output(r2), B.canon_output(cold)))
    return 0
