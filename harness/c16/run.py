"""C16 — the daemon survives client faults; the channel delivers intact messages.

1. Lean: Props/C16 (frames_intact over all segmentations, serve_survives over all fault sequences).
2. Tie (correspondence):
   a. framing — the real `mypy.ipc.IPCBase.frame_from_buffer/read_bytes` with a scripted `recv`
      vs. the model driver, read for read (returned frame, residual buffer, remembered size);
   b. serve loop — a real daemon subprocess and scripted raw-socket clients vs. the model's `serve`
      (alive, status file, kind of reply after every connection).
3. Search / oracle of the property itself on the real daemon: it must stay alive, keep its status file,
   answer later requests exactly as a daemon that never saw the faulty clients, and leave no status file
   after exiting.
"""
from __future__ import annotations

import itertools
import json
import os
import signal
import socket
import struct
import subprocess
import sys
import time
from concurrent.futures import ThreadPoolExecutor

from harness.vlib.core import Ctx, PY, REPO, ToolFailure, repo_env

MODEL_FILES = ["MypyVerif/Model/Ipc.lean", "MypyVerif/Model/Serve.lean", "MypyVerif/Proofs/Ipc.lean"]


# ------------------------------------------------------------------------------- framing (in-process)
class _FakeConn:
    def __init__(self, chunks):
        self.chunks = list(chunks)

    def recv(self, size):
        if not self.chunks:
            return b""
        return self.chunks.pop(0)


def real_reads(k: int, chunks: list[bytes]) -> str:
    from mypy.ipc import IPCBase
    b = IPCBase("x", None)
    b.connection = _FakeConn(chunks)  # type: ignore[assignment]
    out = []
    for _ in range(k):
        r = b.read_bytes()
        # read_bytes returns b"" both for "closed" and for a zero-length frame; the model says `some []`
        # for the latter — canonicalise both sides to `none` for an empty result.
        m = "none" if not r else "[" + " ".join(str(x) for x in r) + "]"
        out.append(f"msg={m} buf=[{' '.join(str(x) for x in b.buffer)}] ms={'none' if b.message_size is None else b.message_size}")
    return " | ".join(out)


def canon_model_reads(line: str) -> str:
    return line.replace("msg=[]", "msg=none")


def frame(b: bytes) -> bytes:
    return struct.pack("!L", len(b)) + b


def segmentations(ctx: Ctx):
    """(k, chunks, kind) cases.  Short streams: every segmentation; long: random cuts."""
    rng = ctx.rng
    cases = []
    # exhaustive: all segmentations of short streams made of 1–2 small frames (+ optional truncation)
    small_msgs = [[b"\x07"], [b"ab"], [b"a", b"bc"], [b"xyz", b"\x00"], [b"\x00\x00\x00\x01", b"q"]]
    for msgs in small_msgs:
        stream = b"".join(frame(m) for m in msgs)
        n = len(stream)
        for cut in range(n + 1):          # truncated at `cut` (cut == n: complete)
            s = stream[:cut]
            if len(s) > 11:
                continue
            for mask in range(1 << max(len(s) - 1, 0)):
                chunks, cur = [], bytearray()
                for i, byte in enumerate(s):
                    cur.append(byte)
                    if i < len(s) - 1 and (mask >> i) & 1:
                        chunks.append(bytes(cur)); cur = bytearray()
                if cur:
                    chunks.append(bytes(cur))
                cases.append((len(msgs) + 1, chunks, "exhaustive-short"))
    # random: longer messages incl. ones whose length needs 2–3 header bytes, random cuts
    nrand = ctx.pick(400, 6000)
    for _ in range(nrand):
        nm = rng.randint(1, 5)
        msgs = []
        for _ in range(nm):
            ln = rng.choice([1, 2, 3, 4, 5, 255, 256, 257, 300, 65535, 65536, 70000]) if rng.random() < 0.4 else rng.randint(1, 40)
            msgs.append(bytes(rng.getrandbits(8) for _ in range(ln)))
        stream = b"".join(frame(m) for m in msgs)
        if rng.random() < 0.25:
            stream = stream[: rng.randint(0, len(stream))]
        cuts = sorted(set(rng.randint(1, max(len(stream) - 1, 1)) for _ in range(rng.randint(0, 8)))) if len(stream) > 1 else []
        chunks, prev = [], 0
        for c in cuts + [len(stream)]:
            if c > prev:
                chunks.append(stream[prev:c]); prev = c
        cases.append((nm + 1, chunks, "random-long"))
    return cases


def framing_correspondence(ctx: Ctx) -> None:
    cases = segmentations(ctx)
    lines = ["R %d %s" % (k, ";".join(" ".join(str(x) for x in c) for c in chunks)) for k, chunks, _ in cases]
    model = ctx.lean_driver("Driver/C16.lean", lines)
    if len(model) != len(cases):
        raise ToolFailure("driver returned %d lines for %d cases" % (len(model), len(cases)))
    ndiff = 0
    diffs = []
    for (k, chunks, kind), mline in zip(cases, model):
        real = real_reads(k, chunks)
        ctx.case(("R", k, [c.hex() for c in chunks]), nontrivial=len(chunks) > 1)
        ctx.dist("framing_kind", kind)
        ctx.dist("framing_chunks", str(min(len(chunks), 9)))
        if real != canon_model_reads(mline):
            ndiff += 1
            diffs.append((k, chunks, real, mline))
    # search: among all differing cases, is there one where a delivered frame is corrupted / lost?
    corrupt = [d for d in diffs if frames_wrong(*d[:3])]
    for d in corrupt[:2]:
        framing_search(ctx, *d)
    if diffs and not corrupt:
        framing_search(ctx, *diffs[0])
    ctx.count("traces_validated_against_impl", len(cases))
    ctx.sample({"framing_case": lines[len(lines) // 2], "model_and_impl": model[len(lines) // 2]})
    ctx.coverage["framing_disagreements"] = ndiff
    ctx.count("disagreements_checked", ndiff)


def frames_wrong(k, chunks, real) -> bool:
    stream = b"".join(chunks)
    expect, pos = [], 0
    while pos + 4 <= len(stream):
        n = struct.unpack("!L", stream[pos:pos + 4])[0]
        if pos + 4 + n > len(stream):
            break
        expect.append(stream[pos + 4: pos + 4 + n]); pos += 4 + n
    got = []
    for part in real.split(" | "):
        m = part.split(" buf=")[0][4:]
        if m != "none":
            got.append(bytes(int(x) for x in m.strip("[]").split()))
    expect_ne = [e for e in expect if e]
    return got != expect_ne[: len(got)] or len(got) < min(len(expect_ne), k)


def framing_search(ctx: Ctx, k, chunks, real, mline) -> None:
    """A correspondence difference: decide from the property itself.  The stream is a concatenation of
    frames (possibly truncated); the property says the complete frames come out intact and in order."""
    stream = b"".join(chunks)
    expect, pos = [], 0
    while pos + 4 <= len(stream):
        n = struct.unpack("!L", stream[pos:pos + 4])[0]
        if pos + 4 + n > len(stream):
            break
        expect.append(stream[pos + 4: pos + 4 + n]); pos += 4 + n
    got = []
    for part in real.split(" | "):
        m = part.split(" buf=")[0][4:]
        if m != "none":
            got.append(bytes(int(x) for x in m.strip("[]").split()))
    expect_ne = [e for e in expect if e]          # zero-length frames are outside the property
    if got != expect_ne[: len(got)] or len(got) < min(len(expect_ne), k):
        ctx.report({"class": "frame-corrupted"},
                   "IPCBase.read_bytes delivered %r, the stream contained %r" % (got, expect),
                   {"chunks_hex": [c.hex() for c in chunks], "reads": k, "impl": real, "model": mline})
    else:
        ctx.violation("framing correspondence broken (model ≠ mypy.ipc.IPCBase) but delivered frames are intact",
                      {"broken": "correspondence Driver/C16 `R` vs mypy.ipc.IPCBase.read_bytes",
                       "chunks_hex": [c.hex() for c in chunks], "impl": real, "model": mline}, found_input=False)


# ------------------------------------------------------------------------------- serve loop (subprocess)
GOOD_STATUS = {"command": "status", "is_tty": False, "terminal_width": 80}


def good_check(files):
    return {"command": "check", "files": files, "is_tty": False, "terminal_width": 80, "export_types": False}


BEHAVIOURS = {
    # name: (model class, builder(tree files) -> (list of byte chunks to send, hangup?, wants reply?))
    "close-before-send": ("badJson", lambda f: ([], True)),
    "partial-header": ("badJson", lambda f: ([frame(json.dumps(GOOD_STATUS).encode())[:2]], True)),
    "partial-body": ("badJson", lambda f: ([frame(json.dumps(GOOD_STATUS).encode())[:11]], True)),
    "oversized-header": ("badJson", lambda f: ([struct.pack("!L", 2 ** 31) + b"abc"], True)),
    "zero-length-frame": ("badJson", lambda f: ([frame(b"")], False)),
    "garbage-frame": ("badJson", lambda f: ([frame(b"\x01\x02 not json {")], False)),
    "invalid-utf8": ("badUtf8", lambda f: ([frame(b"\xc3\x28\xff")], False)),
    "non-dict-json": ("notDict", lambda f: ([frame(b"[1, 2]")], False)),
    "no-command": ("noCommand", lambda f: ([frame(b'{"x": 1}')], False)),
    "command-not-str": ("cmdNotStr", lambda f: ([frame(b'{"command": 5}')], False)),
    "unknown-command": ("unknown", lambda f: ([frame(json.dumps({"command": "bogus", "is_tty": False, "terminal_width": 80}).encode())], False)),
    # status without the formatting keys is a well-formed request (they are optional for it)
    "status-without-tty-keys": ("good", lambda f: ([frame(b'{"command": "status"}')], False)),
    "check-missing-arguments": ("badArgs", lambda f: ([frame(b'{"command": "check", "is_tty": false}')], False)),
    "extra-argument": ("badArgs", lambda f: ([frame(json.dumps(dict(GOOD_STATUS, zzz=1)).encode())], False)),
    "stop-with-unexpected-argument": ("badArgs", lambda f: ([frame(json.dumps({"command": "stop", "is_tty": False, "terminal_width": 80, "bogus": 1}).encode())], False)),
    # well-named but ill-typed arguments (JSON types): the client's error, answered with an error
    "check-files-not-a-list": ("badArgs", lambda f: ([frame(json.dumps(dict(good_check(f), files=5)).encode())], False)),
    "check-width-is-a-string": ("badArgs", lambda f: ([frame(json.dumps(dict(good_check(f), terminal_width="80")).encode())], False)),
    "recheck-remove-not-a-list": ("badArgs", lambda f: ([frame(json.dumps({"command": "recheck", "is_tty": False, "terminal_width": 80,
                                                                             "export_types": False, "remove": "a.py"}).encode())], False)),
    "inspect-unknown-kind": ("badArgs", lambda f: ([frame(json.dumps({"command": "inspect", "show": "bogus", "location": "a.py:1:1"}).encode())], False)),
    "inspect-show-not-a-string": ("badArgs", lambda f: ([frame(json.dumps({"command": "inspect", "show": 3, "location": "a.py:1:1"}).encode())], False)),
    "hangup-before-reply": ("good", lambda f: ([frame(json.dumps(good_check(f)).encode())], True)),
    "fragmented-good": ("good", lambda f: ([bytes([b]) for b in frame(json.dumps(GOOD_STATUS).encode())[:9]]
                                            + [frame(json.dumps(GOOD_STATUS).encode())[9:]], False)),
    "good-then-partial-tail": ("good", lambda f: ([frame(json.dumps(GOOD_STATUS).encode()) + b"\x00\x00\x00\x09{\"comm"], False)),
    "good-status": ("good", lambda f: ([frame(json.dumps(GOOD_STATUS).encode())], False)),
    "good-check": ("good", lambda f: ([frame(json.dumps(good_check(f)).encode())], False)),
}
FAULTS = [k for k, v in BEHAVIOURS.items() if not k.startswith("good-s") and k != "good-check"]
NOT_FAULT = {"status-without-tty-keys", "fragmented-good", "good-status", "good-check"}


def recv_frames(s: socket.socket, timeout: float) -> dict | None:
    """Read frames until one carries "final" (like dmypy's client).  None = no reply / closed."""
    s.settimeout(timeout)
    buf = b""
    try:
        while True:
            while len(buf) < 4 or len(buf) < 4 + struct.unpack("!L", buf[:4])[0]:
                more = s.recv(1 << 16)
                if not more:
                    return None
                buf += more
            n = struct.unpack("!L", buf[:4])[0]
            body, buf = buf[4:4 + n], buf[4 + n:]
            d = json.loads(body)
            if d.get("final"):
                return d
    except (OSError, ValueError):
        return None


def reply_kind(d: dict | None) -> str:
    if d is None:
        return "none"
    e = d.get("error")
    if e is None:
        return "result"
    if "No command found" in e:
        return "error 1"
    if "not a string" in e:
        return "error 2"
    if "Unrecognized command" in e:
        return "error 3"
    if "Daemon crashed" in e:
        return "crashed"
    return "error 4"


class Daemon:
    def __init__(self, ctx: Ctx, name: str, timeout: int | None = None, flags: list[str] | None = None):
        self.dir = os.path.join(ctx.tmp, name)
        os.makedirs(self.dir)
        with open(os.path.join(self.dir, "a.py"), "w") as f:
            f.write("def f(x: int) -> str:\n    return x\nf('a')\n")
        with open(os.path.join(self.dir, "b.py"), "w") as f:
            f.write("import a\nreveal_type(a.f(1))\n")
        self.status = os.path.join(self.dir, "status.json")
        self.env = repo_env({"MYPY_CACHE_DIR": os.path.join(self.dir, "cache")})
        cmd = [PY, "-m", "mypy.dmypy", "--status-file", self.status, "start"]
        if timeout is not None:
            cmd += ["--timeout", str(timeout)]
        cmd += ["--", "--no-error-summary", "--cache-dir", os.path.join(self.dir, "cache")] + (flags or [])
        p = subprocess.run(cmd, cwd=self.dir, env=self.env, capture_output=True, text=True, timeout=120)
        if p.returncode != 0 or not os.path.exists(self.status):
            raise ToolFailure("could not start daemon: " + p.stdout + p.stderr)
        st = json.load(open(self.status))
        self.pid, self.sock = st["pid"], st["connection_name"]

    def alive(self) -> bool:
        try:
            os.kill(self.pid, 0)
        except OSError:
            return False
        try:  # a zombie still answers kill(0); look at /proc
            with open(f"/proc/{self.pid}/stat") as f:
                return f.read().split(")")[-1].split()[0] != "Z"
        except OSError:
            return False

    def wait_settled(self, want_dead: bool = False, t: float = 6.0) -> None:
        end = time.time() + t
        while time.time() < end:
            if self.alive() != (not want_dead):
                time.sleep(0.05)
            else:
                return

    def connect(self) -> socket.socket | None:
        s = socket.socket(socket.AF_UNIX)
        s.settimeout(10)
        try:
            s.connect(self.sock)
            return s
        except OSError:
            s.close()
            return None

    def do(self, name: str) -> str:
        """Run one client behaviour; return the kind of reply observed ("none", "result", "error k" …)."""
        cls, build = BEHAVIOURS.get(name, (None, None))
        if name == "stop":
            chunks, hang = [frame(json.dumps({"command": "stop", "is_tty": False, "terminal_width": 80}).encode())], False
        else:
            chunks, hang = build(["a.py", "b.py"])
        s = self.connect()
        if s is None:
            return "refused"
        try:
            for i, c in enumerate(chunks):
                s.sendall(c)
                if len(chunks) > 1:
                    time.sleep(0.01)
            if hang:
                s.close()
                return "none"
            if cls in ("badJson", "badUtf8", "notDict"):
                r = recv_frames(s, 3.0)
                return reply_kind(r)
            return_kind = reply_kind(recv_frames(s, 120.0))
            return return_kind
        except OSError:
            return "none"
        finally:
            try:
                s.close()
            except OSError:
                pass

    def request(self, req: dict) -> dict | None:
        s = self.connect()
        if s is None:
            return None
        try:
            s.sendall(frame(json.dumps(req).encode()))
            return recv_frames(s, 180.0)
        finally:
            s.close()

    def kill(self) -> None:
        try:
            os.kill(self.pid, signal.SIGKILL)
        except OSError:
            pass


def strip_meta(d: dict | None):
    if d is None:
        return None
    return {k: v for k, v in d.items() if k in ("out", "err", "status", "error")}


def run_script(ctx: Ctx, idx, script: list[str], flags: list[str] | None = None) -> dict:
    """Run `script` (behaviour names; good-check entries are the observation points) on one daemon and
    the fault-free version on another; return observations."""
    d = Daemon(ctx, f"d{idx}", flags=flags)
    ref = Daemon(ctx, f"r{idx}", flags=flags)
    obs = []
    try:
        for step in script:
            if step == "edit":
                for dd in (d, ref):
                    with open(os.path.join(dd.dir, "a.py"), "a") as f:
                        f.write("f(None)\n")
                continue
            if step == "good-check":
                a = strip_meta(d.request(good_check(["a.py", "b.py"]))) if d.alive() else None
                b = strip_meta(ref.request(good_check(["a.py", "b.py"])))
                kind = reply_kind(a)
                obs.append({"step": step, "reply": kind, "alive": d.alive(), "status": os.path.exists(d.status),
                            "same_as_fault_free": a == b, "got": a, "fault_free": b})
                continue
            kind = d.do(step)
            if BEHAVIOURS[step][0] == "good":
                # the fault-free daemon sees the same well-formed requests (without the hang-up)
                ref.do("good-check" if step == "hangup-before-reply" else step)
            # let the daemon finish handling this connection before looking at it
            time.sleep(0.15)
            if step == "hangup-before-reply":
                time.sleep(0.1)
            probe_alive = d.alive()
            if not probe_alive:
                d.wait_settled(want_dead=True, t=1.0)
            obs.append({"step": step, "reply": kind, "alive": d.alive(), "status": os.path.exists(d.status)})
        # exit path: stop must remove the status file and end the process
        if d.alive():
            d.do("stop")
            d.wait_settled(want_dead=True)
            obs.append({"step": "stop", "reply": "stopped", "alive": d.alive(), "status": os.path.exists(d.status)})
        return {"script": script, "obs": obs}
    finally:
        d.kill(); ref.kill()


def model_serve(ctx: Ctx, scripts: list[list[str]]) -> list[list[dict]]:
    lines = []
    for sc in scripts:
        conns = []
        for step in sc + ["stop"]:
            if step == "edit":
                continue
            if step == "stop":
                conns.append("0 0 0 1 1#stop#0")
                continue
            cls, build = BEHAVIOURS[step]
            chunks, hang = build(["a.py", "b.py"])
            # the model serves the *first* frame of the connection; give it the chunk script as sent
            conns.append(";".join(" ".join(str(x) for x in c) for c in chunks) + f"#{cls}#{int(hang)}")
        lines.append("S " + " / ".join(conns))
    out = ctx.lean_driver("Driver/C16.lean", lines)
    res = []
    for line in out:
        res.append([dict(kv.split("=", 1) for kv in part.replace("reply=error ", "reply=error_").split()) for part in line.split(" | ")])
    return res


def serve_correspondence(ctx: Ctx) -> None:
    rng = ctx.rng
    nscripts = ctx.pick(6, 30)
    scripts: list[list[str]] = []
    faults = list(FAULTS)
    rng.shuffle(faults)
    # every fault kind appears at least once across the scripts; each script interleaves faults with
    # good requests and an edit, and ends with the observation `good-check`
    per = max(1, (len(faults) + nscripts - 1) // nscripts)
    for i in range(nscripts):
        mine = faults[i * per:(i + 1) * per] or [rng.choice(FAULTS)]
        sc = ["good-check"]
        for fkind in mine:
            # block: fault [, another fault] , then — directly, with no delivered reply in between — an
            # edit and a check whose answer must not depend on the fault
            sc.append(fkind)
            if rng.random() < 0.3:
                sc.append(rng.choice(FAULTS))
            # every fault kind is followed at least once by edit + check; extra random blocks vary
            sc += ["edit", "good-check"]
            if rng.random() < 0.3:
                sc += [rng.choice(FAULTS), rng.choice(["good-status", "edit", "good-check"])]
        if sc[-1] != "good-check":
            sc += ["edit", "good-check"]
        scripts.append(sc)
    # a fixed script on a *verbose* daemon (its log goes to the connected client): served request, a client that
    # leaves before the reply, a client that leaves at once, then edit + check
    scripts.append(["good-check", "hangup-before-reply", "close-before-send", "garbage-frame", "edit", "good-check"])
    verbose_idx = len(scripts) - 1
    model = model_serve(ctx, scripts)
    with ThreadPoolExecutor(max_workers=6) as ex:
        results = list(ex.map(lambda a: run_script(ctx, a[0], a[1], flags=["-v"] if a[0] == verbose_idx else None), enumerate(scripts)))
    ctx.sample({"serve_script": scripts[0], "observed": [(o["step"], o["reply"], o["alive"]) for o in results[0]["obs"]]})
    for sc, res, mod in zip(scripts, results, model):
        steps = [s for s in sc if s != "edit"] + ["stop"]
        ctx.case(("S", sc))
        ctx.count("traces_validated_against_impl")
        for s in steps:
            ctx.dist("client_behaviour", s)
        reported = False
        obs = res["obs"]
        for i, (step, m) in enumerate(zip(steps, mod)):
            o = obs[i] if i < len(obs) else {"step": step, "reply": "refused", "alive": False, "status": os.path.exists("/nonexistent")}
            m_reply = m["reply"].replace("error_", "error ")
            real = (int(o["alive"]), int(o["status"]), "none" if (o["reply"] == "none") else o["reply"])
            want = (int(m["alive"]), int(m["status"]), m_reply)
            hang = step == "hangup-before-reply"
            same = real[:2] == want[:2] and (hang or real[2] == want[2])
            good_ok = o.get("same_as_fault_free", True)
            if same and good_ok:
                continue
            ctx.count("disagreements_checked")
            if reported:
                continue
            reported = True
            # --- search: which clause of the property fails on the real daemon?
            prior = steps[:i + 1]
            if step != "stop" and BEHAVIOURS.get(step, ("",))[0] != "good" and (not o["alive"] or not o["status"]):
                ctx.report({"class": "daemon-dies-on-client-fault", "behaviour": step},
                           f"daemon exited / lost its status file after client behaviour '{step}'",
                           {"script": sc, "failed_at": i, "observations": obs})
            elif not o["alive"] and step != "stop":
                culprit = next((p for p in reversed(prior) if BEHAVIOURS.get(p, ("",))[0] != "good"), step)
                ctx.report({"class": "daemon-dies-on-client-fault", "behaviour": culprit},
                           f"daemon not serving at step '{step}' after client behaviour '{culprit}'",
                           {"script": sc, "failed_at": i, "observations": obs})
            elif (step == "good-check" or BEHAVIOURS.get(step, ("",))[0] == "good") and step != "hangup-before-reply" \
                    and m_reply == "result" and real[2] != "result":
                ctx.report({"class": "later-request-affected", "behaviour": ",".join(p for p in prior[:-1] if p not in NOT_FAULT)},
                           f"well-formed request '{step}' got reply '{real[2]}' instead of a result after earlier client faults",
                           {"script": sc, "failed_at": i, "observations": obs})
            elif not good_ok:
                ctx.report({"class": "later-check-affected", "behaviour": ",".join(p for p in prior if p in FAULTS)},
                           "a later check request was answered differently from a daemon that never saw the faulty clients",
                           {"script": sc, "failed_at": i, "observations": obs})
            elif step == "stop" and (o["alive"] or o["status"]):
                ctx.report({"class": "status-file-survives-exit"},
                           "after `stop` the daemon is still there or its status file remains",
                           {"script": sc, "observations": obs})
            else:
                ctx.violation(f"serve-loop correspondence broken at step {i} ('{step}'): daemon {real}, model {want}; "
                              "no clause of the property was seen to fail",
                              {"broken": "correspondence Driver/C16 `S` vs dmypy_server.Server.serve",
                               "script": sc, "observations": obs, "model": mod}, found_input=False)


def timeout_exit(ctx: Ctx) -> None:
    """Exit by idle timeout must also remove the status file."""
    d = Daemon(ctx, "tmo", timeout=1)
    try:
        d.wait_settled(want_dead=True, t=15)
        ctx.case(("timeout-exit",))
        if d.alive():
            raise ToolFailure("daemon with --timeout 1 did not exit")
        if os.path.exists(d.status):
            ctx.report({"class": "status-file-survives-exit", "exit": "timeout"},
                       "status file remains after the daemon exited by idle timeout", {"status_file": d.status})
    finally:
        d.kill()


def timeout_exit_after(ctx: Ctx) -> None:
    """Whatever the last clients did, an exit by idle timeout removes the status file."""
    pres = ["stop-with-unexpected-argument", "garbage-frame", "close-before-send", "unknown-command", ctx.rng.choice(FAULTS)]
    if ctx.quick():
        pres = pres[:3]

    def one(a):
        i, pre = a
        d = Daemon(ctx, f"tmo{i}", timeout=3)
        try:
            kind = d.do(pre)
            d.wait_settled(want_dead=True, t=40)
            return pre, kind, d.alive(), os.path.exists(d.status)
        finally:
            d.kill()
    with ThreadPoolExecutor(max_workers=5) as ex:
        for pre, kind, alive, status in ex.map(one, enumerate(pres)):
            ctx.case(("timeout-exit-after", pre))
            ctx.dist("client_behaviour", pre)
            if alive:
                ctx.report({"class": "daemon-ignores-idle-timeout", "behaviour": pre},
                           f"daemon with --timeout 3 still runs 40 s after client behaviour '{pre}'", {"behaviour": pre, "reply": kind})
            elif status:
                ctx.report({"class": "status-file-survives-exit", "exit": "timeout", "behaviour": pre},
                           f"status file remains after the daemon exited by idle timeout following client behaviour '{pre}'",
                           {"behaviour": pre, "reply": kind})


def rejected_check_then_new_file(ctx: Ctx) -> None:
    """A check that is rejected (invalid source list) is a served request like any other: the next check must
    answer for the files as they are then — compared with a daemon started afterwards."""
    d = Daemon(ctx, "rej")
    late = None
    try:
        os.makedirs(os.path.join(d.dir, "pk"))
        r1 = strip_meta(d.request(good_check(["pk"])))
        with open(os.path.join(d.dir, "pk", "m.py"), "w") as f:
            f.write("x: int = ''\n")
        r2 = strip_meta(d.request(good_check(["pk"])))
        late = Daemon(ctx, "rej-late")
        os.makedirs(os.path.join(late.dir, "pk"))
        with open(os.path.join(late.dir, "pk", "m.py"), "w") as f:
            f.write("x: int = ''\n")
        want = strip_meta(late.request(good_check(["pk"])))
        ctx.case(("rejected-check-then-new-file",))
        ctx.dist("client_behaviour", "rejected-check")
        if r2 != want:
            ctx.report({"class": "later-check-affected", "behaviour": "rejected-check"},
                       "after a check rejected for an invalid source list, the next check does not see a file added in between",
                       {"first": r1, "second": r2, "daemon_started_afterwards": want})
    finally:
        d.kill()
        if late:
            late.kill()


class _CapConn:
    def __init__(self) -> None:
        self.data = bytearray()

    def sendall(self, b) -> None:
        self.data += bytes(b)

    def send(self, b) -> int:
        self.data += bytes(b)
        return len(b)


def write_roundtrip(ctx: Ctx) -> None:
    """Write side: what `write_bytes` puts on the wire is `Ipc.frame` (4-byte big-endian length ++ payload), for
    payload sizes around every boundary the implementation knows (MAX_READ multiples, header size), and what the
    real reader takes from that stream — cut at arbitrary places — is the payloads, complete and in order."""
    from mypy.ipc import IPCBase, MAX_READ
    rng = ctx.rng
    sizes = sorted({n for k in (1, 2) for dlt in range(-6, 7) for n in (k * MAX_READ + dlt,)} | set(range(0, 6)) | {65535, 65536, MAX_READ // 2})
    nz = [n for n in sizes if n > 0]      # zero-length frames are outside the property (read_bytes returns b"" for them and for EOF)
    groups = [[n] for n in sizes] + [[rng.choice(nz), rng.randrange(1, 50), rng.choice(nz)] for _ in range(ctx.pick(4, 20))]
    for g in groups:
        payloads = [bytes(rng.randrange(1, 256) for _ in range(min(n, 64))) * (n // 64 + 1) for n in g]
        payloads = [p[:n] for p, n in zip(payloads, g)]
        w = IPCBase("w", None)
        cap = _CapConn()
        w.connection = cap  # type: ignore[assignment]
        for pl in payloads:
            w.write_bytes(pl)
        wire = bytes(cap.data)
        expect_wire = b"".join(frame(pl) for pl in payloads)
        cuts = sorted({rng.randrange(1, max(len(wire), 2)) for _ in range(rng.randrange(0, 6))} | {c for c in range(MAX_READ, len(wire), MAX_READ)})
        chunks = [wire[a:b] for a, b in zip([0] + cuts, cuts + [len(wire)]) if a < b]
        r = IPCBase("r", None)
        r.connection = _FakeConn(chunks)  # type: ignore[assignment]
        got = [r.read_bytes() for pl in payloads if pl]
        ctx.case(("W", tuple(g), tuple(cuts)), nontrivial=len(chunks) > 1)
        ctx.dist("write_sizes", "boundary" if len(g) == 1 else "mixed")
        ctx.count("traces_validated_against_impl")
        want = [pl for pl in payloads if pl]
        if wire != expect_wire or got != want or r.buffer:
            where = next((i for i, (a, b) in enumerate(zip(got, want)) if a != b), len(got))
            ctx.report({"class": "frame-corrupted", "side": "write"},
                       f"messages of {g} bytes written with IPCBase.write_bytes do not arrive intact: wire has {len(wire)} bytes "
                       f"(expected {len(expect_wire)}), message {where} differs or bytes are left over ({len(r.buffer)})",
                       {"payload_sizes": g, "cuts": cuts, "wire_len": len(wire), "expected_wire_len": len(expect_wire)})


def main(ctx: Ctx) -> None:
    ctx.level = "proof"
    ctx.coverage["rule"] = ("framing: every segmentation of short framed streams (≤ 11 bytes, incl. truncated ones) "
                            "plus random long streams; serve: scripted client-behaviour sequences against a real daemon. "
                            "A case is non-trivial when the stream is cut into > 1 chunk / the script contains a fault; "
                            "distinct by content.")
    proved = ctx.prove("MypyVerif.Props.C16", MODEL_FILES)
    ctx.trusted("models: IPCBase.frame_from_buffer/read_bytes/write_bytes (POSIX branch) and the Server.serve loop; "
                "utf-8 decoding, JSON parsing and the command handlers are parameters (classify/handle)",
                "correspondence harness harness/c16/run.py (scripted recv; raw-socket clients against a daemon subprocess)",
                "not exhibited by the model: kernel socket buffers, Windows named pipes, accept timeouts other than the idle exit")
    framing_correspondence(ctx)
    serve_correspondence(ctx)
    timeout_exit(ctx)
    timeout_exit_after(ctx)
    rejected_check_then_new_file(ctx)
    write_roundtrip(ctx)
    if not proved and not ctx.violations:
        ctx.violation("Lean development for C16 no longer builds", {"broken": ctx.broken_ties}, found_input=False)


def replay(ctx: Ctx, path: str) -> int:
    body = json.load(open(path))
    det = body["replay"].get("detail", body["replay"])
    if "script" in det:
        res = run_script(ctx, 0, det["script"])
        print(json.dumps(res["obs"], indent=1))
    elif "chunks_hex" in det:
        chunks = [bytes.fromhex(c) for c in det["chunks_hex"]]
        print(real_reads(det.get("reads", 3), chunks))
    return 0
