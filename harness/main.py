"""Entry point: ./check Cxx [--tier quick|thorough] [--replay path] [--seed n]"""
from __future__ import annotations

import argparse
import importlib
import os
import sys
import traceback

from harness.vlib.core import Ctx, ToolFailure


def main() -> int:
    ap = argparse.ArgumentParser()
    ap.add_argument("prop")
    ap.add_argument("--tier", default=os.environ.get("VERIF_TIER", "quick"))
    ap.add_argument("--seed", type=int, default=None)
    ap.add_argument("--replay", default=None)
    a = ap.parse_args()
    prop = a.prop.upper()
    seed = a.seed if a.seed is not None else int(os.environ.get("VERIF_SEED", "0") or 0)
    tier = "thorough" if a.tier.startswith("t") else "quick"
    ctx = Ctx(prop, tier, seed, a.replay)
    try:
        mod = importlib.import_module(f"harness.{prop.lower()}.run")
        if a.replay:
            return int(mod.replay(ctx, a.replay) or 0)
        mod.main(ctx)
        rc = ctx.finish()
        if rc == 0:
            print(f"OK property={prop} tier={tier} seed={seed} obligations={ctx.coverage['discharged']}/"
                  f"{ctx.coverage['obligations']} evaluations={ctx.coverage['evaluations']} "
                  f"known_findings={len(ctx.known_hits)} wall={ctx.coverage and round(__import__('time').time()-ctx.t0,1)}s")
        return rc
    except ToolFailure as e:
        print(f"TOOL-FAILURE property={prop}: {e}", file=sys.stderr)
        return 2
    except Exception:
        traceback.print_exc()
        print(f"TOOL-FAILURE property={prop}: unexpected exception in the check machinery", file=sys.stderr)
        return 2
    finally:
        ctx.cleanup()


if __name__ == "__main__":
    sys.exit(main())
