"""BuildSim: generated multi-module programs, semantic edit histories, and observed mypy runs.

Shared by C02 (warm = cold), C04 (crash / failed writes), C07 (parallel), C09 (options), C10 (determinism).
Programs are described by specs (not raw text) so that edits are *semantic*: a signature change in one
module creates/fixes errors in its importers, `via_*` functions create indirect dependencies, function-level
imports allow cycles, stubs shadow sources.
"""
from __future__ import annotations

import copy
import json
import os
import shutil
import subprocess
from dataclasses import dataclass, field
from typing import Any

from harness.vlib.core import PY, REPO, VERIF, ToolFailure, repo_env

TYPES = ["int", "str", "int | None", "list[int]"]
LIT = {"int": "1", "str": "'s'", "int | None": "None", "list[int]": "[1]"}
NAMES = ["m0", "m1", "m2", "m3", "m4", "pkg.s0", "pkg.s1", "pkg.sub.t0"]
CONFIGS = {
    "sqlite-binary": ["--sqlite-cache"],
    "sqlite-json": ["--sqlite-cache", "--no-fixed-format-cache"],
    "files-binary": ["--no-sqlite-cache"],
    "files-json": ["--no-sqlite-cache", "--no-fixed-format-cache"],
}


def ident(m: str) -> str:
    return m.replace(".", "_")


@dataclass
class Mod:
    name: str
    val_t: str = "int"          # C_m.val
    meth_t: str = "int"         # C_m.meth(a: T) -> T
    par_t: str = "int"          # f_m(x: T)
    ret_t: str = "int"          # f_m -> T
    body: int = 0               # literal inside f_m's body (no interface change)
    local_error: bool = False   # `bad_m: int = 'oops'`
    imports: dict = field(default_factory=dict)   # dep -> style: "import" | "from" | "func"
    uses: dict = field(default_factory=dict)      # dep -> list of use kinds
    via: str | None = None      # dep whose class this module re-exposes: via_m() -> dep.C_dep
    ignore_missing: bool = False
    base: str | None = None     # dep whose class C_m subclasses
    ignored: set = field(default_factory=set)     # deps whose import line carries `# type: ignore`
    extra: str = ""             # free text appended to the module (used by single checks for special constructs)
    from_extra: dict = field(default_factory=dict)   # dep -> extra names for its from-import line


USE_KINDS = ["call", "val", "sub", "via", "final"]


def render(m: Mod, world: "World") -> str:
    me = ident(m.name)
    top, lazy, body = [], [], []
    pref = {}
    for dep, style in m.imports.items():
        d = ident(dep)
        ign = "  # type: ignore" if dep in m.ignored else ""
        if style == "import":
            top.append(f"import {dep}{ign}")
            pref[dep] = f"{dep}."
        elif style == "from":
            top.append(f"from {dep} import f_{d}, mk_{d}, C_{d}, K_{d}")
            if world.mods.get(dep) is not None and world.mods[dep].via:
                top[-1] += f", via_{d}"
            for nm in m.from_extra.get(dep, []):
                top[-1] += f", {nm}"
            top[-1] += ign
            pref[dep] = ""
        else:
            pref[dep] = None
    if m.ignore_missing:
        top.append("import missing_mod_zz  # type: ignore")
    base = ""
    if m.base and pref.get(m.base) is not None:
        base = f"({pref[m.base]}C_{ident(m.base)})"
    body.append(f"class C_{me}{base}:\n    val: {m.val_t}\n    def meth(self, a: {m.meth_t}) -> {m.meth_t}:\n        return a")
    ret = LIT[m.ret_t]
    body.append(f"def f_{me}(x: {m.par_t}) -> {m.ret_t}:\n    k = {m.body}\n    return {ret}")
    body.append(f"def mk_{me}() -> C_{me}:\n    return C_{me}()")
    # a falsy Final constant and a tuple it indexes: what importers see depends on the constant's stored value
    body.append(f"K_{me}: Final = 0\nROW_{me}: tuple[int, str] = (1, 'a')")
    if m.via and pref.get(m.via) is not None:
        d = ident(m.via)
        body.append(f"def via_{me}() -> {pref[m.via]}C_{d}:\n    return {pref[m.via]}mk_{d}()")
    for dep, kinds in m.uses.items():
        d = ident(dep)
        style = m.imports.get(dep)
        if style is None:
            continue
        p = pref[dep] if pref[dep] is not None else f"{dep}."
        stmts = []
        for k in kinds:
            if k == "call":
                stmts.append(f"u_call_{me}_{d}: int = {p}f_{d}(1)")
            elif k == "val":
                stmts.append(f"u_val_{me}_{d}: int = {p}mk_{d}().val")
            elif k == "via":
                dm = world.mods.get(dep)
                if dm is not None and dm.via:
                    stmts.append(f"u_via_{me}_{d}: int = {p}via_{d}().val")
            elif k == "final" and style != "from":
                stmts.append(f"u_fin_{me}_{d}: int = {p}ROW_{d}[{p}K_{d}]")
            elif k == "final":
                # narrowing of an index expression works only when the index is a literal: a Final name counts as
                # one when its Var carries the constant value
                stmts.append(f"def fin_{me}_{d}(row: list[int | None]) -> int:\n    if row[K_{d}] is not None:\n        return row[K_{d}]\n    return -1")
            elif k == "sub" and style != "func":
                stmts.append(f"class D_{me}_{d}({p}C_{d}):\n    def meth(self, a: int) -> int:\n        return a")
        if style == "func":
            inner = "\n".join("    " + s.replace("\n", "\n    ") for s in stmts) or "    pass"
            lazy.append(f"def lazy_{me}_{d}() -> None:\n    import {dep}\n{inner}")
        else:
            body.extend(stmts)
    if m.local_error:
        body.append(f"bad_{me}: int = 'oops'")
    if m.extra:
        body.append(m.extra.rstrip("\n"))
    return "\n".join(["from typing import Final"] + top + body + lazy) + "\n"


def render_stub(m: Mod) -> str:
    me = ident(m.name)
    return (f"from typing import Final\nK_{me}: Final = 0\nROW_{me}: tuple[int, str]\nclass C_{me}:\n    val: {m.val_t}\n    def meth(self, a: {m.meth_t}) -> {m.meth_t}: ...\n"
            f"def f_{me}(x: {m.par_t}) -> {m.ret_t}: ...\ndef mk_{me}() -> C_{me}: ...\n")


@dataclass
class World:
    mods: dict = field(default_factory=dict)     # name -> Mod
    stubs: dict = field(default_factory=dict)    # name -> Mod (types of the .pyi)
    touched: set = field(default_factory=set)    # modules whose mtime must be bumped without content change
    clock: int = 1_700_000_000

    def files(self) -> dict:
        out = {}
        pkgs = set()
        for name, m in self.mods.items():
            out[name.replace(".", "/") + ".py"] = render(m, self)
            parts = name.split(".")
            for i in range(1, len(parts)):
                pkgs.add("/".join(parts[:i]))
        for name, m in self.stubs.items():
            if name in self.mods:
                out[name.replace(".", "/") + ".pyi"] = render_stub(m)
        for p in pkgs:
            out[p + "/__init__.py"] = ""
        return out


def _attach(rng, world: World, m: Mod, dep: str, allow_cycle: bool) -> None:
    style = rng.choice(["import", "import", "from", "func"])
    if not allow_cycle and _reaches(world, dep, m.name):
        style = "func"
    m.imports[dep] = style
    if rng.random() < 0.15:
        m.ignored.add(dep)
    m.uses[dep] = rng.sample(USE_KINDS, rng.randint(1, 3))
    if m.via is None and style != "func" and rng.random() < 0.4:
        m.via = dep
    if m.base is None and style != "func" and rng.random() < 0.15 and not _reaches(world, dep, m.name):
        m.base = dep


def _reaches(world: World, a: str, b: str) -> bool:
    seen, todo = set(), [a]
    while todo:
        x = todo.pop()
        if x == b:
            return True
        if x in seen or x not in world.mods:
            continue
        seen.add(x)
        todo.extend(d for d, s in world.mods[x].imports.items() if s != "func")
    return False


def gen_world(rng, nmods: tuple[int, int] = (3, 6)) -> World:
    w = World()
    names = rng.sample(NAMES, rng.randint(*nmods))
    for n in names:
        w.mods[n] = Mod(n, val_t=rng.choice(TYPES), meth_t=rng.choice(TYPES[:2]), par_t=rng.choice(TYPES),
                        ret_t=rng.choice(TYPES), ignore_missing=rng.random() < 0.15,
                        local_error=rng.random() < 0.2)
    for n in names:
        others = [x for x in names if x != n]
        for dep in rng.sample(others, rng.randint(0, min(3, len(others)))):
            _attach(rng, w, w.mods[n], dep, allow_cycle=rng.random() < 0.3)
    return w


EDIT_KINDS = ["add_two_modules", "body", "signature", "signature", "attr", "meth", "toggle_error", "add_import", "remove_import",
              "add_module", "delete_module", "rename_module", "add_stub", "remove_stub", "touch", "make_cycle",
              "break_cycle", "change_via"]


def random_edit(rng, w: World, kinds: list[str] | None = None) -> dict:
    """Apply one semantic edit in place; returns its description."""
    for _ in range(20):
        kind = rng.choice(kinds or EDIT_KINDS)
        names = sorted(w.mods)
        m = w.mods[rng.choice(names)]
        if kind == "body":
            m.body += 1
        elif kind == "signature":
            which = rng.choice(["par_t", "ret_t"])
            new = rng.choice([t for t in TYPES if t != getattr(m, which)])
            setattr(m, which, new)
        elif kind == "attr":
            m.val_t = rng.choice([t for t in TYPES if t != m.val_t])
        elif kind == "meth":
            m.meth_t = rng.choice([t for t in TYPES if t != m.meth_t])
        elif kind == "toggle_error":
            m.local_error = not m.local_error
        elif kind == "add_import":
            cand = [x for x in names if x != m.name and x not in m.imports]
            if not cand:
                continue
            _attach(rng, w, m, rng.choice(cand), allow_cycle=False)
        elif kind == "remove_import":
            if not m.imports:
                continue
            dep = rng.choice(sorted(m.imports))
            del m.imports[dep]
            m.uses.pop(dep, None)
            if m.via == dep:
                m.via = None
            if m.base == dep:
                m.base = None
        elif kind == "add_module":
            cand = [x for x in NAMES if x not in w.mods]
            if not cand:
                continue
            n = rng.choice(cand)
            w.mods[n] = Mod(n, val_t=rng.choice(TYPES), par_t=rng.choice(TYPES), ret_t=rng.choice(TYPES))
            importer = w.mods[rng.choice(names)]
            _attach(rng, w, importer, n, allow_cycle=False)
            if rng.random() < 0.5:
                _attach(rng, w, w.mods[n], rng.choice(names), allow_cycle=False)
            return {"kind": kind, "module": n, "importer": importer.name}
        elif kind == "add_two_modules":
            cand = [x for x in NAMES if x not in w.mods]
            if len(cand) < 2:
                continue
            n1, n2 = rng.sample(cand, 2)
            importer = w.mods[rng.choice(names)]
            for n in (n1, n2):
                w.mods[n] = Mod(n, val_t=rng.choice(TYPES), par_t=rng.choice(TYPES), ret_t=rng.choice(TYPES))
                importer.imports[n] = rng.choice(["import", "from"])
                importer.uses[n] = rng.sample(["call", "val"], 1)
            if rng.random() < 0.6:      # one of the new modules imports the importer back (a new cycle)
                w.mods[n2].imports[importer.name] = "import"
                w.mods[n2].uses[importer.name] = ["call"]
            return {"kind": kind, "modules": [n1, n2], "importer": importer.name}
        elif kind == "delete_module":
            if len(names) <= 2:
                continue
            # delete together with the imports that refer to it (a dangling import is a separate, rarer edit)
            dangling = rng.random() < 0.25
            del w.mods[m.name]
            w.stubs.pop(m.name, None)
            for o in w.mods.values():
                if m.name in o.imports and not dangling:
                    del o.imports[m.name]
                    o.uses.pop(m.name, None)
                    if o.via == m.name:
                        o.via = None
                    if o.base == m.name:
                        o.base = None
            return {"kind": kind, "module": m.name, "dangling_imports": dangling}
        elif kind == "rename_module":
            cand = [x for x in NAMES if x not in w.mods]
            if not cand:
                continue
            new = rng.choice(cand)
            old = m.name
            del w.mods[old]
            st = w.stubs.pop(old, None)
            m.name = new
            w.mods[new] = m
            if st is not None:
                st.name = new
                w.stubs[new] = st
            for o in w.mods.values():
                for dct in (o.imports, o.uses):
                    if old in dct:
                        dct[new] = dct.pop(old)
                if o.via == old:
                    o.via = new
                if o.base == old:
                    o.base = new
            return {"kind": kind, "module": old, "to": new}
        elif kind == "add_stub":
            if m.name in w.stubs:
                continue
            s = copy.deepcopy(m)
            s.par_t = rng.choice(TYPES)
            s.val_t = rng.choice(TYPES)
            w.stubs[m.name] = s
        elif kind == "remove_stub":
            if m.name not in w.stubs:
                continue
            del w.stubs[m.name]
        elif kind == "touch":
            w.touched.add(m.name)
        elif kind == "make_cycle":
            cand = [d for d, s in m.imports.items() if s != "func" and d in w.mods and m.name not in w.mods[d].imports]
            if not cand:
                continue
            d = rng.choice(cand)
            w.mods[d].imports[m.name] = rng.choice(["import", "from"])
            w.mods[d].uses[m.name] = rng.sample(["call", "val"], 1)
            return {"kind": kind, "module": d, "imports": m.name}
        elif kind == "break_cycle":
            cyc = [d for d, s in m.imports.items() if s != "func" and _reaches(w, d, m.name)]
            if not cyc:
                continue
            d = rng.choice(cyc)
            m.imports[d] = "func"
            if m.via == d:
                m.via = None
            if m.base == d:
                m.base = None
            return {"kind": kind, "module": m.name, "lazy_import_of": d}
        elif kind == "change_via":
            cand = [d for d, s in m.imports.items() if s != "func"]
            if not cand:
                continue
            m.via = rng.choice(cand + [None])
        return {"kind": kind, "module": m.name}
    return {"kind": "none"}


def scripted_histories() -> list:
    """Small hand-shaped histories, one per mechanism of the cache protocol (run first, every time)."""
    import copy
    out = []

    def hist(name, w0, *edits):
        ws = [([], copy.deepcopy(w0))]
        w = copy.deepcopy(w0)
        for desc, fn in edits:
            fn(w)
            ws.append(([{"kind": desc}], copy.deepcopy(w)))
        out.append((name, ws))

    def base3():
        # m0 -> m1 -> m2 ; m0 reads m2's class only through m1.via_m1()  (indirect dependency)
        w = World()
        w.mods["m2"] = Mod("m2", val_t="int")
        w.mods["m1"] = Mod("m1", imports={"m2": "import"}, uses={"m2": ["call", "final"]}, via="m2")
        w.mods["m0"] = Mod("m0", imports={"m1": "import"}, uses={"m1": ["via", "call", "final"]})
        return w

    hist("indirect", base3(),
         ("attr-of-indirect-dep", lambda w: setattr(w.mods["m2"], "val_t", "str")),
         ("body-only", lambda w: setattr(w.mods["m2"], "body", 5)),
         ("attr-back", lambda w: setattr(w.mods["m2"], "val_t", "int")))
    def fin2():
        w = World()
        w.mods["m2"] = Mod("m2", val_t="int")
        w.mods["m1"] = Mod("m1", imports={"m2": "from"}, uses={"m2": ["final", "call"]})
        w.mods["m0"] = Mod("m0", imports={"m1": "import", "m2": "import"}, uses={"m1": ["call"], "m2": ["final"]})
        return w
    hist("final-constant", fin2(),
         ("body-of-importer", lambda w: setattr(w.mods["m1"], "body", 7)),
         ("signature-of-importer", lambda w: setattr(w.mods["m1"], "ret_t", "str")),
         ("touch-constant-module", lambda w: w.touched.add("m2")))
    hist("signature", base3(),
         ("ret-type", lambda w: setattr(w.mods["m1"], "ret_t", "str")),
         ("par-type", lambda w: setattr(w.mods["m1"], "par_t", "list[int]")),
         ("touch", lambda w: w.touched.add("m1")))

    def add_stub(w):
        s = copy.deepcopy(w.mods["m2"]); s.val_t = "str"; s.par_t = "str"; w.stubs["m2"] = s
    hist("stub", base3(), ("add-stub", add_stub), ("remove-stub", lambda w: w.stubs.pop("m2")))

    def del_m2(w):
        del w.mods["m2"]
    def readd_m2(w):
        w.mods["m2"] = Mod("m2", val_t="str")
    hist("delete-readd", base3(), ("delete-dep-dangling", del_m2), ("re-add-dep", readd_m2))

    def pk():
        w = World()
        w.mods["pkg.s0"] = Mod("pkg.s0", val_t="int")
        w.mods["pkg.s1"] = Mod("pkg.s1", imports={"pkg.s0": "from"}, uses={"pkg.s0": ["val", "sub"]})
        w.mods["m0"] = Mod("m0", imports={"pkg.s1": "import", "pkg.s0": "func"}, uses={"pkg.s1": ["call"], "pkg.s0": ["call"]})
        return w
    def drop_s0(w):
        del w.mods["pkg.s0"]
        for o in w.mods.values():
            o.imports.pop("pkg.s0", None); o.uses.pop("pkg.s0", None)
    hist("package", pk(), ("meth-in-submodule", lambda w: setattr(w.mods["pkg.s0"], "meth_t", "str")),
         ("remove-submodule", drop_s0),
         ("add-submodule", lambda w: w.mods.__setitem__("pkg.sub.t0", Mod("pkg.sub.t0", imports={"pkg.s1": "import"}, uses={"pkg.s1": ["call"]}))))

    def cyc():
        w = World()
        w.mods["m0"] = Mod("m0", imports={"m1": "import"}, uses={"m1": ["call", "val"]})
        w.mods["m1"] = Mod("m1", imports={"m0": "import", "m2": "import"}, uses={"m0": ["call"], "m2": ["val"]})
        w.mods["m2"] = Mod("m2", imports={"m0": "from"}, uses={"m0": ["val"]})
        w.mods["m3"] = Mod("m3", imports={"m0": "import"}, uses={"m0": ["call", "sub"]})
        return w
    def brk(w):
        w.mods["m2"].imports["m0"] = "func"
    hist("cycle", cyc(), ("edit-in-cycle", lambda w: setattr(w.mods["m1"], "ret_t", "str")),
         ("shrink-cycle", brk), ("edit-former-member", lambda w: setattr(w.mods["m2"], "val_t", "str")),
         ("regrow-cycle", lambda w: w.mods["m2"].imports.__setitem__("m0", "import")))

    def ren(w):
        m = w.mods.pop("m2"); m.name = "m4"; w.mods["m4"] = m
        o = w.mods["m1"]; o.imports["m4"] = o.imports.pop("m2"); o.uses["m4"] = o.uses.pop("m2"); o.via = "m4"
    hist("rename", base3(), ("rename-dep", ren), ("error-in-renamed", lambda w: setattr(w.mods["m4"], "local_error", True)))
    return out


def materialize(w: World, root: str, step_clock: int) -> list[str]:
    """Write the world's files under root; changed/new/touched files get mtime `step_clock`, removed files
    are deleted.  Returns the list of source files (relative)."""
    files = w.files()
    os.makedirs(root, exist_ok=True)
    for rel, src in files.items():
        p = os.path.join(root, rel)
        os.makedirs(os.path.dirname(p), exist_ok=True)
        old = open(p).read() if os.path.exists(p) else None
        mod = rel[:-3].replace("/", ".") if rel.endswith(".py") else None
        if old != src or (mod in w.touched):
            with open(p, "w") as f:
                f.write(src)
            os.utime(p, (step_clock, step_clock))
    w.touched.clear()
    for dp, dns, fs in os.walk(root, topdown=False):
        for fn in fs:
            rel = os.path.relpath(os.path.join(dp, fn), root)
            if (rel.endswith(".py") or rel.endswith(".pyi")) and rel not in files:
                os.remove(os.path.join(dp, fn))
        if dp != root and not os.listdir(dp):
            os.rmdir(dp)
    return sorted(files)


def run_mypy(root: str, cache_dir: str, extra_args: list[str], *, targets: list[str] | None = None,
             crash_at: int = -1, fail_ops: list[int] | None = None, want_oplog: bool = False,
             env_extra: dict | None = None, timeout: int = 600, scratch: str | None = None,
             sched_log: bool = False, sched_seed: int | None = None) -> dict:
    """One observed mypy run in a fresh process.  Returns the child's result dict; a simulated kill gives
    {"killed": True, "ops": [...]}."""
    scratch = scratch or os.path.dirname(cache_dir.rstrip("/"))
    tag = f"{os.getpid()}-{id(extra_args)}-{abs(hash((root, cache_dir, crash_at)))}"
    spec_path = os.path.join(scratch, f"spec-{tag}.json")
    res_path = os.path.join(scratch, f"res-{tag}.json")
    oplog = os.path.join(scratch, f"ops-{tag}.log") if (want_oplog or crash_at >= 0 or fail_ops) else None
    for p in (res_path, oplog):
        if p and os.path.exists(p):
            os.remove(p)
    args = ["--cache-dir", cache_dir, "--no-error-summary", "--no-color-output", "--show-traceback"] + list(extra_args) + (targets or ["."])
    with open(spec_path, "w") as f:
        slog = os.path.join(scratch, f"sched-{tag}.log") if sched_log else None
        json.dump({"args": args, "result": res_path, "oplog": oplog, "crash_at": crash_at, "fail_ops": fail_ops or [],
                   "sched_log": slog, "sched_seed": sched_seed}, f)
    env = repo_env(env_extra)
    if sched_seed is not None:
        env["VERIF_SCHED_SEED"] = str(sched_seed)
        env["PYTHONPATH"] = os.path.join(VERIF, "harness", "shim") + os.pathsep + env["PYTHONPATH"]
    env["MYPY_CACHE_DIR"] = cache_dir
    env.pop("MYPYPATH", None)
    try:
        p = subprocess.run([PY, os.path.join(VERIF, "harness", "vlib", "buildrun.py"), spec_path], cwd=root, env=env,
                           capture_output=True, text=True, timeout=timeout)
    except subprocess.TimeoutExpired:
        return {"timeout": True, "status": None, "stdout": "", "stderr": "TIMEOUT"}
    finally:
        if os.path.exists(spec_path):
            os.remove(spec_path)
    ops = []
    if oplog and os.path.exists(oplog):
        ops = [l.split(" ", 1)[1] for l in open(oplog).read().splitlines()]
        os.remove(oplog)
    if p.returncode == 77 and not os.path.exists(res_path):
        return {"killed": True, "ops": ops}
    if not os.path.exists(res_path):
        raise ToolFailure(f"mypy child produced no result (rc={p.returncode}):\n{p.stdout[-1500:]}\n{p.stderr[-3000:]}")
    res = json.load(open(res_path))
    os.remove(res_path)
    res["ops"] = ops
    if sched_log and slog and os.path.exists(slog):
        res["sched"] = open(slog).read().splitlines()
        os.remove(slog)
    return res


def canon_output(res: dict) -> dict:
    """Per-file message lists (in-file order kept), exit status.  Cross-file order is not compared."""
    per: dict[str, list[str]] = {}
    other = []
    for line in res.get("stdout", "").splitlines():
        head = line.split(":", 1)[0]
        if head.endswith((".py", ".pyi")):
            per.setdefault(head, []).append(line)
        elif line.strip():
            other.append(line)
    return {"status": res.get("status"), "files": per, "other": sorted(other),
            "stderr": res.get("stderr", "")[-2000:] if res.get("status") not in (0, 1) else ""}


ONLY_ONCE_NOTES = (
    "note: See https://mypy.readthedocs.io/en/stable/running_mypy.html#missing-imports",
    "note: (Using --follow-imports=error, module not passed on command line)",
    "note: (Using --follow-imports=error, submodule passed on command line)",
    "note: Error code \"",   # "Error code X not covered by type: ignore" style notes are not only_once; kept out below
)


def diff_outputs(a: dict, b: dict) -> list[str]:
    """Multiset symmetric difference of the message lines + status."""
    la = [l for f in sorted(a["files"]) for l in a["files"][f]] + a["other"]
    lb = [l for f in sorted(b["files"]) for l in b["files"][f]] + b["other"]
    out = []
    ca, cb = {}, {}
    for l in la:
        ca[l] = ca.get(l, 0) + 1
    for l in lb:
        cb[l] = cb.get(l, 0) + 1
    for l in sorted(set(ca) | set(cb)):
        d = ca.get(l, 0) - cb.get(l, 0)
        if d:
            out.append(("+" if d > 0 else "-") + l)
    # in-file order
    if not out:
        for f in a["files"]:
            if a["files"][f] != b["files"].get(f):
                out.append(f"~order differs in {f}")
    if a["status"] != b["status"]:
        out.append(f"!status {a['status']} vs {b['status']}")
    return out


def only_once_note_diff(diff: list[str]) -> bool:
    """F13 predicate: the whole difference consists of moved/duplicated/missing `only_once` notes."""
    if not diff:
        return False
    for d in diff:
        if d.startswith("!") or d.startswith("~"):
            return False
        if not any(n in d for n in ONLY_ONCE_NOTES[:3]):
            return False
    return True


def import_error_order_diff(a: dict, b: dict, diff: list[str]) -> bool:
    """F36 predicate: the two outputs have the same lines; the only difference is the relative order, within one
    source line, of 'Cannot find implementation or library stub' errors (a package and its submodule named by one
    import statement) and the only_once note that follows the first of them."""
    if not diff or not all(d.startswith("~order differs in ") for d in diff):
        return False
    import re
    for d in diff:
        f = d[len("~order differs in "):]
        la, lb = a["files"].get(f, []), b["files"].get(f, [])
        if sorted(la) != sorted(lb):
            return False
        movable = lambda l: ("Cannot find implementation or library stub" in l or "module is installed, but missing library stubs" in l
                             or any(n in l for n in ONLY_ONCE_NOTES[:3]))
        if [l for l in la if not movable(l)] != [l for l in lb if not movable(l)]:
            return False
        linenos = {m.group(1) for l in la if movable(l) and l in la and (m := re.match(r"[^:]+:(\d+):", l))}
        moved = {m.group(1) for l, r in zip(la, lb) if l != r for x in (l, r) if (m := re.match(r"[^:]+:(\d+):", x))}
        if len(moved) != 1:
            return False
    return True


USER_PREFIXES = ("m0", "m1", "m2", "m3", "m4", "pkg")


def user_modules(mods) -> list[str]:
    return sorted(m for m in (mods or []) if m.split(".")[0] in USER_PREFIXES)


def entry_targets(rng, w: World) -> list[str]:
    """Entry-point mode: check only 1–2 root files and let import following find the rest."""
    imported = {d for m in w.mods.values() for d in m.imports}
    roots = sorted(n for n in w.mods if n not in imported) or sorted(w.mods)
    pick = rng.sample(roots, min(len(roots), rng.randint(1, 2)))
    return [n.replace(".", "/") + ".py" for n in pick]
