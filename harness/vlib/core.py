"""Shared plumbing for every property check.

A check is a module ``harness/cXX/run.py`` with ``def main(ctx: Ctx) -> None``.  It uses the context to
  * build / audit the Lean development (``lean_build``, ``lean_audit``),
  * run a Lean line-protocol driver over the *model* (``lean_driver``),
  * record what it covered (``cover`` / ``sample`` / ``count``),
  * report ``violation`` (with a replay file) or ``known`` (known finding reproduced exactly as listed),
and returns; ``finish`` writes ``evidence/<id>.json`` and turns the recorded verdict into the exit code:
0 = property held on everything explored, 1 = VIOLATION line(s) printed, 2 = tool failure / timeout.
"""
from __future__ import annotations

import json
import os
import random
import re
import shutil
import subprocess
import sys
import tempfile
import time
from typing import Any, Iterable

VERIF = os.path.dirname(os.path.dirname(os.path.dirname(os.path.abspath(__file__))))
LEAN = os.path.join(VERIF, "lean")
REPO = os.environ.get("VERIF_REPO", "/repo")
PY = "/venv/bin/python"
GUARD = "PYTHON_MYPY_VERIF"
ALLOWED_AXIOMS = {"propext", "Classical.choice", "Quot.sound"}
FORBIDDEN = re.compile(r"\b(sorry|admit|native_decide|bv_decide|implemented_by|unsafe)\b|^\s*axiom\s|maxHeartbeats\s+0")


class ToolFailure(Exception):
    """Something in the machinery (not the property) failed: exit 2, never a VIOLATION line."""


def strip_lean_comments(src: str) -> str:
    out = []
    i, n, depth = 0, len(src), 0
    while i < n:
        if src.startswith("/-", i):
            depth += 1
            i += 2
        elif depth and src.startswith("-/", i):
            depth -= 1
            i += 2
        elif depth:
            if src[i] == "\n":
                out.append("\n")
            i += 1
        elif src.startswith("--", i):
            while i < n and src[i] != "\n":
                i += 1
        else:
            out.append(src[i])
            i += 1
    return "".join(out)


def scan_theorems(src: str) -> list[str]:
    """Fully qualified names of the `theorem`s of a Lean file (tracks namespace … end)."""
    stack: list[str] = []
    out: list[str] = []
    for line in strip_lean_comments(src).splitlines():
        m = re.match(r"^namespace\s+([\w.]+)", line)
        if m:
            stack.append(m.group(1)); continue
        m = re.match(r"^end\s+([\w.]+)", line)
        if m and stack and stack[-1] == m.group(1):
            stack.pop(); continue
        m = re.match(r"^(?:private\s+|protected\s+)?theorem\s+([A-Za-z_][\w.']*)", line)
        if m:
            out.append(".".join(stack + [m.group(1)]))
    return out


class Ctx:
    def __init__(self, prop: str, tier: str, seed: int, replay: str | None = None):
        self.prop = prop
        self.tier = tier
        self.seed = seed
        self.replay = replay
        self.rng = random.Random(f"{prop}:{seed}")
        self.t0 = time.time()
        self.level = "proof"
        self.coverage: dict[str, Any] = {
            "evaluations": 0, "distinct_nontrivial": 0, "rule": "", "samples": [],
            "obligations": 0, "discharged": 0, "checker_cmd": "", "trusted_base": [],
            "traces_validated_against_impl": 0, "disagreements_checked": 0,
        }
        self.assumptions: list[str] = []
        self.violations: list[tuple[str, str]] = []
        self.known_hits: list[tuple[str, str]] = []
        self._distinct: set[str] = set()
        self._tmp: str | None = None
        self._nreplay = 0
        self.findings = load_findings(prop)
        self.broken_ties: list[str] = []

    # ---- scratch -------------------------------------------------------------------------------
    @property
    def tmp(self) -> str:
        if self._tmp is None:
            base = os.environ.get("VERIF_SCRATCH", "/var/tmp")
            os.makedirs(base, exist_ok=True)
            self._tmp = tempfile.mkdtemp(prefix=f"verif-{self.prop}-", dir=base)
        return self._tmp

    def cleanup(self) -> None:
        if self._tmp and os.path.isdir(self._tmp):
            shutil.rmtree(self._tmp, ignore_errors=True)

    def quick(self) -> bool:
        return self.tier != "thorough"

    def pick(self, quick: Any, thorough: Any) -> Any:
        return quick if self.quick() else thorough

    # ---- Lean ----------------------------------------------------------------------------------
    def lean_build(self, targets: list[str], timeout: int = 1800) -> tuple[bool, str]:
        """lake build the given modules (rebuilds what regenerated Gen/ files invalidate)."""
        cmd = ["lake", "build"] + targets
        try:
            p = subprocess.run(cmd, cwd=LEAN, capture_output=True, text=True, timeout=timeout)
        except subprocess.TimeoutExpired:
            raise ToolFailure(f"lake build timed out: {targets}")
        log = p.stdout + p.stderr
        return p.returncode == 0, log

    def lean_source_audit(self, files: Iterable[str]) -> list[str]:
        bad = []
        for f in files:
            path = f if os.path.isabs(f) else os.path.join(LEAN, f)
            src = strip_lean_comments(open(path).read())
            for ln, line in enumerate(src.splitlines(), 1):
                line = re.sub(r'"(?:[^"\\]|\\.)*"', '""', line)     # words inside string literals are data
                if FORBIDDEN.search(line):
                    bad.append(f"{f}:{ln}: {line.strip()[:100]}")
        return bad

    def lean_audit(self, module: str, theorems: list[str] | None = None,
                   extra_allowed: Iterable[str] = ()) -> dict[str, list[str]]:
        """#print axioms on every property theorem of `module` (MypyVerif.Props.Cxx).
        Returns {theorem: axioms}.  Raises ToolFailure if lean cannot run the audit file."""
        rel = module.replace(".", "/") + ".lean"
        src = open(os.path.join(LEAN, rel)).read()
        if theorems is None:
            theorems = scan_theorems(src)
        prefix = ""
        os.makedirs(os.path.join(LEAN, "Audit"), exist_ok=True)
        audit = os.path.join(LEAN, "Audit", module.split(".")[-1] + ".lean")
        with open(audit, "w") as f:
            f.write(f"import {module}\n")
            for t in theorems:
                f.write(f"#print axioms {prefix}{t}\n")
        p = subprocess.run(["lake", "env", "lean", audit], cwd=LEAN, capture_output=True, text=True, timeout=900)
        if p.returncode != 0:
            raise ToolFailure("axiom audit failed to run:\n" + (p.stdout + p.stderr)[-2000:])
        res: dict[str, list[str]] = {}
        text = p.stdout.replace("\n  ", " ").replace("\n ", " ")
        for m in re.finditer(r"'([^']+)' (depends on axioms: \[([^\]]*)\]|does not depend on any axioms)", text):
            name = m.group(1)
            axs = [a.strip() for a in (m.group(3) or "").split(",") if a.strip()]
            res[name[len(prefix):] if name.startswith(prefix) else name] = axs
        allowed = ALLOWED_AXIOMS | set(extra_allowed)
        for t in theorems:
            if t not in res:
                raise ToolFailure(f"axiom audit: no output for theorem {t}")
            extra = [a for a in res[t] if a not in allowed]
            if extra:
                raise ToolFailure(f"theorem {t} depends on non-allowed axioms {extra}")
        return res

    def prove(self, module: str, model_files: list[str], extra_targets: list[str] = ()) -> bool:
        """Build `module`, audit sources + axioms, record obligations.  Returns False when the build
        fails (a broken proof obligation: caller must run its failing-input search)."""
        ok, log = self.lean_build([module] + list(extra_targets))
        rel = module.replace(".", "/") + ".lean"
        theorems = scan_theorems(open(os.path.join(LEAN, rel)).read())
        self.coverage["obligations"] += len(theorems)
        self.coverage["checker_cmd"] = (self.coverage["checker_cmd"] + " ; " if self.coverage["checker_cmd"] else "") + \
            f"cd lean && lake build {module} && lake env lean Audit/{module.split('.')[-1]}.lean (#print axioms)"
        if not ok:
            self.build_log = log
            failing = sorted(set(re.findall(r"error: ([^\n]*)", log)))[:12]
            self.broken_ties.append(f"lake build {module} failed: " + " | ".join(failing)[:1500])
            return False
        bad = self.lean_source_audit([rel] + model_files)
        if bad:
            raise ToolFailure("forbidden constructs in Lean sources: " + "; ".join(bad))
        axioms = self.lean_audit(module, theorems)
        self.coverage["discharged"] += len(theorems)
        used = sorted({a for v in axioms.values() for a in v})
        self.coverage.setdefault("theorems", {}).update({t: axioms[t] for t in theorems})
        tb = self.coverage["trusted_base"]
        for item in ["Lean 4 kernel (lake build; leanchecker re-check in thorough tier)",
                     "axioms used by the property theorems: " + (", ".join(used) if used else "none")]:
            if item not in tb:
                tb.append(item)
        if not self.quick():
            p = subprocess.run(["lake", "env", "leanchecker", module], cwd=LEAN, capture_output=True, text=True, timeout=3600)
            self.coverage["leanchecker"] = "ok" if p.returncode == 0 else ("FAILED: " + (p.stdout + p.stderr)[-500:])
            if p.returncode != 0:
                raise ToolFailure("leanchecker rejected " + module)
        return True

    def lean_driver(self, driver: str, lines: list[str], timeout: int = 1200) -> list[str]:
        """Run a line-protocol driver (Driver/X.lean) on `lines`, return its output lines."""
        inp = "\n".join(lines) + "\n"
        try:
            p = subprocess.run(["lake", "env", "lean", "--run", driver], cwd=LEAN, input=inp,
                               capture_output=True, text=True, timeout=timeout)
        except subprocess.TimeoutExpired:
            raise ToolFailure(f"Lean driver {driver} timed out")
        if p.returncode != 0:
            raise ToolFailure(f"Lean driver {driver} failed:\n" + (p.stdout + p.stderr)[-3000:])
        out = p.stdout.split("\n")
        if out and out[-1] == "":
            out.pop()
        return out

    # ---- coverage ------------------------------------------------------------------------------
    def count(self, key: str, n: int = 1) -> None:
        self.coverage[key] = self.coverage.get(key, 0) + n

    def case(self, key: Any, nontrivial: bool = True) -> None:
        """Register one explored case; `key` identifies it for distinctness."""
        self.coverage["evaluations"] += 1
        if nontrivial:
            k = key if isinstance(key, str) else json.dumps(key, sort_keys=True, default=str)
            if k not in self._distinct:
                self._distinct.add(k)
                self.coverage["distinct_nontrivial"] += 1

    def sample(self, obj: Any, limit: int = 6) -> None:
        if len(self.coverage["samples"]) < limit:
            self.coverage["samples"].append(obj)

    def dist(self, name: str, key: str, n: int = 1) -> None:
        d = self.coverage.setdefault("distribution", {}).setdefault(name, {})
        d[key] = d.get(key, 0) + n

    def trusted(self, *items: str) -> None:
        for i in items:
            if i not in self.coverage["trusted_base"]:
                self.coverage["trusted_base"].append(i)

    def assume(self, *items: str) -> None:
        for i in items:
            if i not in self.assumptions:
                self.assumptions.append(i)

    # ---- verdicts ------------------------------------------------------------------------------
    def write_replay(self, obj: Any) -> str:
        d = os.path.join(VERIF, "evidence", "replays")
        os.makedirs(d, exist_ok=True)
        self._nreplay += 1
        path = os.path.join(d, f"{self.prop}-{self.tier}-{self.seed}-{self._nreplay}.json")
        with open(path, "w") as f:
            json.dump(obj, f, indent=1, default=str)
        return path

    def violation(self, what: str, replay: Any, found_input: bool = True) -> None:
        """A violation of the property.  With found_input=False the replay names the theorem or
        correspondence that no longer checks, and the line ends with no-failing-input-found."""
        body = {"property": self.prop, "what": what, "seed": self.seed, "tier": self.tier,
                "failing_input_found": found_input, "replay": replay}
        path = self.write_replay(body)
        line = f"VIOLATION property={self.prop} replay={path}"
        if not found_input:
            line += " no-failing-input-found"
        print(line, flush=True)
        print(f"  ({what})", flush=True)
        self.violations.append((what, path))

    def match_known(self, observed: dict) -> dict | None:
        """Return the known-finding entry whose `match` dict is a sub-dict of `observed`."""
        for e in self.findings:
            if e.get("kind") != "known":
                continue
            m = e.get("match", {})
            if all(observed.get(k) == v for k, v in m.items()):
                return e
        return None

    def known(self, entry: dict, what: str) -> None:
        key = entry["id"]
        if not any(k == key for k, _ in self.known_hits):
            print(f"KNOWN-FINDING: property={self.prop} {entry['id']} {what}", flush=True)
            self.known_hits.append((key, what))

    def report(self, observed: dict, what: str, replay: Any) -> None:
        """Report a concrete property failure: KNOWN-FINDING if it matches a listed entry exactly,
        VIOLATION otherwise."""
        e = self.match_known(observed)
        if e is not None:
            self.known(e, what)
        else:
            self.violation(what, {"observed": observed, "detail": replay})

    def finish(self) -> int:
        cov = self.coverage
        if not cov["rule"]:
            cov["rule"] = "see explanation"
        level = self.level
        if level == "partial":
            # the schema has no "partial" level: the proved slices are reported as level "proof" and the
            # evidence says explicitly that the rest of the property is only searched
            level = "proof"
            cov.setdefault("claim", "PARTIAL: the theorems cover the modelled slices only; the remaining clauses of the "
                                    "property are searched (differential testing), as listed in trusted_base / explanation")
        ev = {
            "property_id": self.prop, "tier": "thorough" if self.tier == "thorough" else "quick",
            "seed": self.seed, "level": level, "coverage": cov,
            "assumptions": self.assumptions, "wall_s": round(time.time() - self.t0, 2),
            "violations": len(self.violations),
            "known_findings_reproduced": [f"{k}: {w}" for k, w in self.known_hits],
        }
        os.makedirs(os.path.join(VERIF, "evidence"), exist_ok=True)
        with open(os.path.join(VERIF, "evidence", f"{self.prop}.json"), "w") as f:
            json.dump(ev, f, indent=1, default=str)
        return 1 if self.violations else 0


def load_findings(prop: str) -> list[dict]:
    """Entries for `prop` from /verif/known_findings.json (the committed list) plus, while a slice is being
    built, from harness/<prop>/known_findings.json (same format; merged into the main file by the lead)."""
    out: list[dict] = []
    for path in (os.path.join(VERIF, "known_findings.json"),
                 os.path.join(VERIF, "harness", prop.lower(), "known_findings.json")):
        if os.path.exists(path):
            data = json.load(open(path))
            out += [e for e in data.get("findings", []) if e.get("property") == prop]
    return out


def repo_env(extra: dict | None = None) -> dict:
    env = dict(os.environ)
    env[GUARD] = "1"
    env.setdefault("PYTHONHASHSEED", "0")
    pp = [p for p in env.get("PYTHONPATH", "").split(os.pathsep) if p and p != REPO]
    env["PYTHONPATH"] = os.pathsep.join([REPO] + pp)
    if extra:
        env.update(extra)
    return env
