"""Child process: ONE mypy run (full CLI path, `mypy.main.main`) observed from outside.

usage: python buildrun.py spec.json      (cwd = the source tree; PYTHONPATH selects the mypy checkout)

spec: {"args": [...],            mypy command-line arguments
       "result": path,           where the JSON result is written (absent after a simulated kill)
       "oplog": path | null,     cache-store operation log (append, one line per op, written BEFORE the op)
       "crash_at": int,          simulate a kill: os._exit(77) right before store op number k (-1 = never)
       "fail_ops": [int],        store `write` ops that fail (return False without writing)
       "ops_filter": "module"    only count/log ops whose name does not start with '@' (plugins snapshot etc.)
      }
result: {"status", "stdout", "stderr", "rechecked", "stale", "ifaces", "deps", "sccs_processed", "nops"}

Nothing here changes mypy's behaviour unless crash_at/fail_ops are given; the wrappers only record.
"""
from __future__ import annotations

import io
import json
import os
import sys


def _instrument_coordinator(build, path: str, seed) -> None:
    """Log the coordinator's scheduling events of a parallel build (and, with a seed, make the arbitrary
    choice of the free worker seed-dependent).  Events, one per line:
        G <topo index>:<dep indices>;...     the SCC graph (once)
        N <topo index>:<module ids>          names
        F<i>  S<i+i+..>@<w>  I<w>:<i+..>  M<w>
    """
    import random
    ev: list[str] = []
    state = {"graph_done": False, "idx": None, "index": {}}

    def flush():
        with open(path, "w") as f:
            f.write("\n".join(ev) + "\n")

    def ensure_graph(manager):
        if state["graph_done"] or not getattr(manager, "top_order", None):
            return
        order = list(manager.top_order)
        state["index"] = {sid: i for i, sid in enumerate(order)}
        rows = []
        for sid in order:
            scc = manager.scc_by_id[sid]
            rows.append(f"{state['index'][sid]}:" + ",".join(str(state["index"][d]) for d in sorted(scc.deps, key=lambda d: state["index"][d])))
            ev.append(f"N {state['index'][sid]}:" + ",".join(sorted(scc.mod_ids)))
        ev.insert(0, "G " + ";".join(rows))
        state["graph_done"] = True

    orig_find = build.find_stale_sccs

    def find_stale_sccs(sccs, graph, manager):
        ensure_graph(manager)
        stale, fresh = orig_find(sccs, graph, manager)
        for scc in fresh:
            ev.append(f"F{state['index'][scc.id]}")
        if not manager.workers:
            for scc in stale:           # in-process processing: the coordinator itself computes the SCC
                ev.append(f"F{state['index'][scc.id]}")
        flush()
        return stale, fresh
    build.find_stale_sccs = find_stale_sccs

    orig_send = build.send

    def send(conn, msg, *a, **k):
        if type(msg).__name__ == "SccRequestMessage" and getattr(msg, "scc_ids", None):
            man = state.get("manager")
            w = "?"
            if man is not None:
                for i, wk in enumerate(man.workers):
                    if wk.conn is conn:
                        w = i
            ev.append("S" + "+".join(str(state["index"][s]) for s in msg.scc_ids) + f"@{w}")
            flush()
        return orig_send(conn, msg, *a, **k)
    build.send = send

    BM = build.BuildManager
    orig_recv = BM.receive_worker_message

    def receive_worker_message(self, idx):
        state["idx"] = idx
        state["manager"] = self
        return orig_recv(self, idx)
    BM.receive_worker_message = receive_worker_message
    orig_submit = BM.submit_to_workers

    def submit_to_workers(self, graph, sccs=None):
        state["manager"] = self
        ensure_graph(self)
        if seed is not None and not isinstance(self.free_workers, _RandSet):
            self.free_workers = _RandSet(self.free_workers, random.Random(f"fw:{seed}"))
        return orig_submit(self, graph, sccs)
    BM.submit_to_workers = submit_to_workers

    if seed is not None and hasattr(build, "ready_to_read"):
        import time as _time
        prng = random.Random(f"poll:{seed}")
        orig_rtr = build.ready_to_read

        def ready_to_read(conns, timeout=None):
            # a slow coordinator: replies of several workers may be pending in the same poll
            # VERIF_COORD_SLOW: a coordinator that is slow at every poll, so that both replies of a worker
            # (interface, then implementation) are usually pending in the same poll
            slow = os.environ.get("VERIF_COORD_SLOW")
            _time.sleep(float(slow) if slow else prng.choice([0, 0, 0.05, 0.15, 0.4]))
            return orig_rtr(conns, timeout)
        build.ready_to_read = ready_to_read

    orig_read = build.SccResponseMessage.read.__func__

    def read(cls, buf):
        data = orig_read(cls, buf)
        ids = "+".join(str(state["index"].get(s, s)) for s in data.scc_ids)
        ev.append((f"I{state['idx']}:" if data.is_interface else f"M{state['idx']}:") + ids)
        flush()
        return data
    build.SccResponseMessage.read = classmethod(read)


class _RandSet(set):
    def __init__(self, it, rng):
        super().__init__(it)
        self._rng = rng

    def pop(self):
        x = self._rng.choice(sorted(self))
        self.remove(x)
        return x


def main() -> None:
    spec = json.load(open(sys.argv[1]))
    oplog = spec.get("oplog")
    crash_at = int(spec.get("crash_at", -1))
    fail_ops = set(spec.get("fail_ops", []))
    counter = [0]

    import mypy.metastore as ms

    def wrap(cls, name):
        orig = getattr(cls, name)

        def w(self, *a, **k):
            desc = name + ":" + (str(a[0]) if a and isinstance(a[0], str) else "")
            idx = counter[0]
            counter[0] += 1
            if oplog:
                with open(oplog, "a") as f:
                    f.write(f"{idx} {desc}\n")
            if idx == crash_at:
                os._exit(77)
            if idx in fail_ops and name == "write":
                return False
            if idx in fail_ops and name == "remove":
                raise PermissionError(13, "simulated failure to remove a cache record", str(a[0]) if a else "")
            return orig(self, *a, **k)

        setattr(cls, name, w)

    for cls in (ms.FilesystemMetadataStore, ms.SqliteMetadataStore):
        for name in ("write", "remove", "commit", "commit_path"):
            if name in cls.__dict__:
                wrap(cls, name)

    import mypy.build as build
    import mypy.main as mmain

    info: dict = {"rechecked": None, "stale": None, "ifaces": {}, "deps": {}}
    orig_build = build.build

    def recording_build(*a, **k):
        res = orig_build(*a, **k)
        try:
            man = res.manager
            info["rechecked"] = sorted(man.rechecked_modules)
            info["stale"] = sorted(man.stale_modules)
            for mid, st in res.graph.items():
                h = st.interface_hash
                info["ifaces"][mid] = h.hex() if isinstance(h, (bytes, bytearray)) else str(h)
                info["deps"][mid] = [[d, st.priorities.get(d, -1)] for d in st.dependencies]
                info.setdefault("paths", {})[mid] = st.path
                info.setdefault("suppressed", {})[mid] = sorted(st.suppressed)
                info.setdefault("suppressed_pri", {})[mid] = [[d, st.priorities.get(d, -1)] for d in st.suppressed]
                info.setdefault("ancestors", {})[mid] = list(st.ancestors or [])
            top = getattr(man, "top_order", None)
            by_id = getattr(man, "scc_by_id", None)
            if top is not None and by_id is not None:
                info["sccs"] = [sorted(by_id[i].mod_ids) for i in top]
        except Exception as e:  # observation must never change the outcome
            info["observe_error"] = repr(e)
        return res

    orig_load_graph = build.load_graph

    def recording_load_graph(*a, **k):
        g = orig_load_graph(*a, **k)
        try:    # modules that start this run without a usable cache entry (meta missing or abandoned)
            if "nometa" not in info:
                info["nometa"] = sorted(i for i, st in g.items() if st.meta is None)
                # modules that start without an old interface hash: no cache entry was *found* for them (an entry
                # that was found and then rejected by validate_meta still hands its interface hash on)
                info["nohash"] = sorted(i for i, st in g.items() if not st.interface_hash)
                # the cached lists load_graph followed for modules with a usable entry (user modules only)
                mv = {}
                for i, st in g.items():
                    if st.meta is None or not st.path or "typeshed" in st.path:
                        continue
                    mv[i] = {"deps": [[d, st.priorities.get(d, -1)] for d in st.meta.dependencies],
                             "supp": [[d, st.priorities.get(d, -1)] for d in st.meta.suppressed]}
                info["meta_view"] = mv
                info["roots"] = [bs.module for bs in a[0]] if a else None
        except Exception as e:
            info["observe_error"] = repr(e)
        return g
    build.load_graph = recording_load_graph

    sched_log = spec.get("sched_log")
    if sched_log:
        _instrument_coordinator(build, sched_log, spec.get("sched_seed"))

    build.build = recording_build
    if hasattr(mmain, "build") and getattr(mmain.build, "build", None) is orig_build:
        mmain.build.build = recording_build

    out, err = io.StringIO(), io.StringIO()
    status = None
    try:
        mmain.main(args=list(spec["args"]), stdout=out, stderr=err, clean_exit=True)
        status = 0
    except SystemExit as e:
        status = e.code if isinstance(e.code, int) else (0 if e.code is None else 1)
    except BaseException as e:  # an internal failure of mypy: report it, the caller decides
        import traceback
        err.write("UNCAUGHT " + "".join(traceback.format_exception(type(e), e, e.__traceback__)))
        status = 70
    info.update({"status": status, "stdout": out.getvalue(), "stderr": err.getvalue(), "nops": counter[0]})
    tmp = spec["result"] + ".tmp"
    with open(tmp, "w") as f:
        json.dump(info, f)
    os.replace(tmp, spec["result"])
    sys.stdout.flush()
    os._exit(0)


if __name__ == "__main__":
    main()
