"""Child process: ONE mypy run (full CLI path, `mypy.main.main`) observed from outside.

usage: python buildrun.py spec.json      (cwd = the source tree; PYTHONPATH selects the mypy checkout)

spec: {"args": [...],            mypy command-line arguments
       "result": path,           where the JSON result is written (absent after a simulated kill)
       "oplog": path | null,     cache-store operation log (append, one line per op, written BEFORE the op)
       "crash_at": int,          simulate a kill: os._exit(77) right before store op number k (-1 = never)
       "fail_ops": [int],        store `write` ops that fail (return False without writing)
       "ops_filter": "module"    only count/log ops whose name does not start with '@' (plugins snapshot etc.)
      }
result: {"status", "stdout", "stderr", "rechecked", "stale", "ifaces", "deps", "sccs_processed", "nops"}

Nothing here changes mypy's behaviour unless crash_at/fail_ops are given; the wrappers only record.
"""
from __future__ import annotations

import io
import json
import os
import sys


def main() -> None:
    spec = json.load(open(sys.argv[1]))
    oplog = spec.get("oplog")
    crash_at = int(spec.get("crash_at", -1))
    fail_ops = set(spec.get("fail_ops", []))
    counter = [0]

    import mypy.metastore as ms

    def wrap(cls, name):
        orig = getattr(cls, name)

        def w(self, *a, **k):
            desc = name + ":" + (str(a[0]) if a and isinstance(a[0], str) else "")
            idx = counter[0]
            counter[0] += 1
            if oplog:
                with open(oplog, "a") as f:
                    f.write(f"{idx} {desc}\n")
            if idx == crash_at:
                os._exit(77)
            if idx in fail_ops and name == "write":
                return False
            return orig(self, *a, **k)

        setattr(cls, name, w)

    for cls in (ms.FilesystemMetadataStore, ms.SqliteMetadataStore):
        for name in ("write", "remove", "commit", "commit_path"):
            if name in cls.__dict__:
                wrap(cls, name)

    import mypy.build as build
    import mypy.main as mmain

    info: dict = {"rechecked": None, "stale": None, "ifaces": {}, "deps": {}}
    orig_build = build.build

    def recording_build(*a, **k):
        res = orig_build(*a, **k)
        try:
            man = res.manager
            info["rechecked"] = sorted(man.rechecked_modules)
            info["stale"] = sorted(man.stale_modules)
            for mid, st in res.graph.items():
                h = st.interface_hash
                info["ifaces"][mid] = h.hex() if isinstance(h, (bytes, bytearray)) else str(h)
                info["deps"][mid] = [[d, st.priorities.get(d, -1)] for d in st.dependencies]
                info.setdefault("paths", {})[mid] = st.path
                info.setdefault("suppressed", {})[mid] = sorted(st.suppressed)
            top = getattr(man, "top_order", None)
            by_id = getattr(man, "scc_by_id", None)
            if top is not None and by_id is not None:
                info["sccs"] = [sorted(by_id[i].mod_ids) for i in top]
        except Exception as e:  # observation must never change the outcome
            info["observe_error"] = repr(e)
        return res

    build.build = recording_build
    if hasattr(mmain, "build") and getattr(mmain.build, "build", None) is orig_build:
        mmain.build.build = recording_build

    out, err = io.StringIO(), io.StringIO()
    status = None
    try:
        mmain.main(args=list(spec["args"]), stdout=out, stderr=err, clean_exit=True)
        status = 0
    except SystemExit as e:
        status = e.code if isinstance(e.code, int) else (0 if e.code is None else 1)
    except BaseException as e:  # an internal failure of mypy: report it, the caller decides
        import traceback
        err.write("UNCAUGHT " + "".join(traceback.format_exception(type(e), e, e.__traceback__)))
        status = 70
    info.update({"status": status, "stdout": out.getvalue(), "stderr": err.getvalue(), "nops": counter[0]})
    tmp = spec["result"] + ".tmp"
    with open(tmp, "w") as f:
        json.dump(info, f)
    os.replace(tmp, spec["result"])
    sys.stdout.flush()
    os._exit(0)


if __name__ == "__main__":
    main()
