"""Driving the real `mypy.errors.Errors` with an event stream, canonical form shared with Driver/C13.lean,
and the property's own oracles evaluated on the real sink (independent of the Lean model).

Event encoding = the JSON arrays documented in lean/Driver/C13.lean.  File ids are numbers (path "f<N>.py"),
import contexts are numbers (0 = [], n = [("imp.py", n)]), message ids are numbers (text "m<N>"),
code names are the alphabetical indices of translate/errorcodes.py (unknown names: 1000+).
"""
from __future__ import annotations

import re
from typing import Any

from translate.errorcodes import load_table

_T: dict[str, Any] = {}


def table() -> dict[str, Any]:
    if not _T:
        names, id_of, objs, ec, er = load_table()
        _T.update(names=names, id_of=dict(id_of), objs=objs, ec=ec, er=er, extra={})
        _T["name_of"] = {i: n for n, i in id_of.items()}
    return _T


def code_id(name: str) -> int:
    t = table()
    if name in t["id_of"]:
        return t["id_of"][name]
    if name not in t["extra"]:
        t["extra"][name] = 1000 + len(t["extra"])
        t["name_of"][t["extra"][name]] = name
    return t["extra"][name]


def code_name(i: int) -> str:
    t = table()
    if i not in t["name_of"]:
        t["name_of"][i] = "unknown-%d" % i
        t["extra"][t["name_of"][i]] = i
    return t["name_of"][i]


def code_json(c) -> list | None:
    """ErrorCode object -> [name, subOf|null, defaultEnabled, linkable]"""
    if c is None:
        return None
    er = table()["er"]
    return [code_id(c.code), None if c.sub_code_of is None else code_id(c.sub_code_of.code),
            bool(c.default_enabled), bool((c not in er.HIDE_LINK_CODES) and (c.code in er.mypy_error_codes))]


def code_obj(cj):
    """inverse of code_json on the objects of mypy.errorcodes"""
    if cj is None:
        return None
    for _, o in table()["objs"]:
        if code_json(o) == list(cj):
            return o
    raise KeyError(cj)


def path_of(f: int) -> str:
    return "f%d.py" % f


# ------------------------------------------------------------------ message text -> model `Msg` (JSON)
_RE_NC = re.compile(r'^Error code "([^"]*)" not covered by "type: ignore\[(.*)\]" comment$')
_RE_CC = re.compile(r'^Error code changed to ([^;]*); "type: ignore" comment may be out of date$')
_RE_UI = re.compile(r'^Unused "type: ignore(?:\[([^\]]*)\])?" comment((?:, use narrower \[[^\]]*\] instead of \[[^\]]*\] code)*)$')
_RE_NARROW = re.compile(r', use narrower \[([^\]]*)\] instead of \[([^\]]*)\] code')
_RE_IW = re.compile(r'^"type: ignore" comment without error code(?: \(consider "type: ignore\[([^\]]*)\]" instead\))?$')
_RE_SL = re.compile(r'^See https://mypy\.rtfd\.io/en/stable/_refs\.html#code-(\S+) for more info$')
_SKIP = "(Skipping most remaining errors due to unresolved imports or missing stubs; fix these first)"
_RE_USER = re.compile(r'^( *)m(\d+)$')


def _ids(s: str | None) -> list[int]:
    if not s:
        return []
    return [code_id(x) for x in s.split(", ")]


def msg_json(text: str, intern=None) -> list:
    """Structured form of a message text.  `intern` maps caller texts to numbers (recorded streams);
    without it caller texts must be of the form ' '*offset + 'm<N>'."""
    m = _RE_NC.match(text)
    if m:
        return ["nc", code_id(m.group(1)), _ids(m.group(2))]
    m = _RE_CC.match(text)
    if m:
        return ["cc", code_id(m.group(1))]
    m = _RE_UI.match(text)
    if m:
        nar = [[code_id(u), sorted(_ids(n))] for n, u in _RE_NARROW.findall(m.group(2) or "")]
        return ["ui", _ids(m.group(1)), nar]
    m = _RE_IW.match(text)
    if m:
        return ["iw", _ids(m.group(1))]
    m = _RE_SL.match(text)
    if m:
        return ["sl", code_id(m.group(1))]
    if text == _SKIP:
        return ["sk"]
    if intern is not None:
        return ["u", intern(text), 0]
    m = _RE_USER.match(text)
    if m:
        return ["u", int(m.group(2)), len(m.group(1))]
    return ["?", text]


def canon_model_msg(m: list) -> list:
    """model side: sort the `narrower` sets (Python joins a set — order is not defined)"""
    if m and m[0] == "ui":
        return ["ui", m[1], [[u, sorted(n)] for u, n in m[2]]]
    return m


def canon_real_tuple(t, intern=None) -> list:
    _file, line, col, el, ecol, sev, msg, code = t
    return [line, col, el, ecol, "e" if sev == "error" else "n", msg_json(msg, intern),
            None if code is None else code_id(code)]


def canon_model_obs(o):
    if isinstance(o, list) and o and o[0] == "M":
        return ["M", [t[:5] + [canon_model_msg(t[5]), t[6]] for t in o[1]]]
    if isinstance(o, list) and o and o[0] == "S":
        used: dict[tuple, list] = {}
        for f, l, c in o[1]:
            used.setdefault((f, l), []).append(c)
        return ["S", sorted([f, l, cs] for (f, l), cs in used.items()), sorted(set(o[2])), bool(o[3]), o[4]]
    return o


# ------------------------------------------------------------------ the real sink
class RealSink:
    """Feeds events to a real mypy.errors.Errors and answers the observations."""

    def __init__(self) -> None:
        from mypy.errors import Errors
        from mypy.options import Options
        self.Options = Options
        self.errors = Errors(Options())
        self.by_uid: dict[int, Any] = {}
        self.reported: list[tuple[int, Any, str]] = []      # (uid, ErrorInfo, path) of every R/A event
        self.file_of_path: dict[str, int] = {}

    def _opts(self, enabled, disabled, show_links, thr):
        t = table()
        o = self.Options()
        reg = t["ec"].error_codes
        o.enabled_error_codes = {reg[code_name(c)] for c in enabled}
        o.disabled_error_codes = {reg[code_name(c)] for c in disabled}
        o.show_error_code_links = bool(show_links)
        o.hide_error_codes = False
        o.many_errors_threshold = thr
        return o

    def feed(self, ev: list):
        from mypy.errors import ErrorInfo
        E = self.errors
        k = ev[0]
        if k == "F":
            self.file_of_path[path_of(ev[1])] = ev[1]
            E.set_file(path_of(ev[1]), "mod%d" % ev[1], self._opts(ev[2], ev[3], ev[4], ev[5]))
        elif k == "C":
            E.set_import_context([] if ev[1] == 0 else [("imp.py", ev[1])])
        elif k == "I":
            self.file_of_path[path_of(ev[1])] = ev[1]
            E.set_file_ignored_lines(path_of(ev[1]), {l: [code_name(c) for c in cs] for l, cs in ev[2]}, bool(ev[3]))
        elif k == "K":
            E.set_skipped_lines(path_of(ev[1]), set(ev[2]))
        elif k == "X":
            E.ignored_files.add(path_of(ev[1]))
        elif k == "R":
            (_, uid, line, col, mid, code, blocker, sev, once, span, offset, el, ecol, parent) = ev
            info = E.report(line, col, "m%d" % mid, code_obj(code), blocker=bool(blocker),
                            severity="error" if sev == "e" else "note", only_once=bool(once),
                            origin_span=list(span), offset=offset, end_line=el, end_column=ecol,
                            parent_error=None if parent is None else self.by_uid[parent[0]])
            self.by_uid[uid] = info
            self.reported.append((uid, info, E.file))
        elif k == "A":
            (uid, ctx, line, col, el, ecol, sev, mid, code, blocker, once, span, prio, hidden, parent) = ev[1]
            info = ErrorInfo(import_ctx=[] if ctx == 0 else [("imp.py", ctx)], local_ctx=(None, None), line=line,
                             column=col, end_line=el, end_column=ecol, severity="error" if sev == "e" else "note",
                             message="m%d" % mid, code=code_obj(code), blocker=bool(blocker), only_once=bool(once),
                             module=None, target=None, origin_span=list(span), priority=prio,
                             parent_error=None if parent is None else self.by_uid.get(parent))
            if hidden:
                info.hidden = True
            self.by_uid[uid] = info
            path = path_of(ev[2]) if ev[2] is not None else None
            E.add_error_info(info, file=path)
            self.reported.append((uid, info, path or E.file))
        elif k == "U":
            E.generate_unused_ignore_errors(path_of(ev[1]), bool(ev[2]))
        elif k == "N":
            E.generate_ignore_without_code_errors(path_of(ev[1]), bool(ev[2]), bool(ev[3]))
        elif k == "M":
            return ["M", [canon_real_tuple(t) for t in E.file_messages(path_of(ev[1]))]]
        elif k == "S":
            used = []
            for p, d in E.used_ignored_lines.items():
                for l, cs in d.items():
                    if cs:
                        used.append([self.file_of_path.get(p, -1), l, [code_id(c) for c in cs]])
            return ["S", sorted(used), sorted(self.file_of_path.get(p, -1) for p in E.has_blockers),
                    bool(E.seen_import_error), sum(len(v) for v in E.error_info_map.values())]
        else:
            raise ValueError(ev)
        return None


def run_real(evs: list[list]) -> tuple[list, RealSink]:
    s = RealSink()
    out = []
    for ev in evs:
        r = s.feed(ev)
        if r is not None:
            out.append(r)
    return out, s


# ------------------------------------------------------------------ the property's own oracles (real sink only)
def _enabled_spec(code, opts) -> bool:
    """C13: `disabling an error code removes precisely the diagnostics carrying that code` (a sub-code is
    carried along with its parent unless it was enabled explicitly; enabling overrides disabling)."""
    if code in opts.disabled_error_codes:
        return False
    if code in opts.enabled_error_codes:
        return True
    if code.sub_code_of is not None and code.sub_code_of in opts.disabled_error_codes:
        return False
    return code.default_enabled


def _matches_spec(code, tags: list[str]) -> bool:
    if not tags:
        return True
    if code is None:
        return False
    return code.code in tags or (code.sub_code_of is not None and code.sub_code_of.code in tags)


def oracle_sink(evs: list[list]) -> list[dict]:
    """Replays `evs` on a fresh real sink, checking after every report the clauses of C13 that speak about
    the sink; returns a list of failures {class, ...}.  Only clauses that hold unconditionally are checked:
      blockers-ignored   a blocking report (not only_once) must be stored and mark its file
      wrongly-suppressed a stored-or-not decision that contradicts `type: ignore`/disabled-code matching
                         (checked when no only_once / many-errors mechanism can interfere)
      ignore-used-wrong  `used_ignored_lines` gets exactly one entry, on the first matching line of the span
      position           end_line >= line, and end_column > column on one line (infos built by report())
    and at every U event
      unused-wrong       an unused-ignore error is produced for a line iff some listed code (or, for a bare
                         ignore, everything) suppressed nothing
    """
    from mypy import errorcodes as codes
    s = RealSink()
    E = s.errors
    fails: list[dict] = []
    for idx, ev in enumerate(evs):
        k = ev[0]
        if k not in ("R", "A", "U"):
            s.feed(ev)
            continue
        if k == "U":
            path = path_of(ev[1])
            before = len(E.error_info_map.get(path, []))
            s.feed(ev)
            new = E.error_info_map.get(path, [])[before:]
            got = {i.line for i in new}
            if ev[2] or path in E.ignored_files:
                want = set()
            else:
                want = set()
                for line, tags in E.ignored_lines.get(path, {}).items():
                    if line in E.skipped_lines.get(path, set()) or codes.UNUSED_IGNORE.code in tags:
                        continue
                    used = set(E.used_ignored_lines[path][line]) if line in E.used_ignored_lines.get(path, {}) else set()
                    if (not tags and not used) or any(t not in used for t in tags):
                        want.add(line)
            if got != want:
                fails.append({"class": "unused-wrong", "event": idx, "got": sorted(got), "want": sorted(want)})
            continue
        # a report
        path = path_of(ev[2]) if (k == "A" and ev[2] is not None) else E.file
        used_before = {l: list(v) for l, v in E.used_ignored_lines.get(path, {}).items()}
        n_before = len(E.error_info_map.get(path, []))
        once_before = set(E.only_once_messages)
        opts = E.options
        s.feed(ev)
        uid, info, _p = s.reported[-1]
        stored = any(x is info for x in E.error_info_map.get(path, [])[n_before:])
        used_after = {l: list(v) for l, v in E.used_ignored_lines.get(path, {}).items()}
        new_used = [(l, c) for l, v in used_after.items() for c in v[len(used_before.get(l, [])):]]
        if k == "R":
            if info.end_line < info.line or (info.end_line == info.line and info.end_column <= info.column):
                fails.append({"class": "position", "event": idx,
                              "pos": [info.line, info.column, info.end_line, info.end_column]})
        if info.blocker:
            if not (info.only_once and info.message in once_before):
                if not stored or path not in E.has_blockers or new_used:
                    fails.append({"class": "blockers-ignored", "event": idx})
            continue
        ign = E.ignored_lines.get(path)
        eff = info.code or codes.MISC
        disabled = info.code is not None and not _enabled_spec(info.code, opts)
        first = None
        if ign is not None:
            for l in info.origin_span:
                if l in ign and _matches_spec(info.code, ign[l]):
                    first = l
                    break
        if disabled and ign is not None:
            want_stored, want_used = False, []
        elif first is not None:
            want_stored = False
            want_used = [(first, eff.code)] if _enabled_spec(eff, opts) else []
        elif path in E.ignored_files:
            want_stored, want_used = False, []
        else:
            want_stored, want_used = True, []
        if info.only_once and info.message in once_before:
            want_stored = False
        if stored != want_stored:
            fails.append({"class": "wrongly-suppressed" if not stored else "not-suppressed", "event": idx,
                          "code": None if info.code is None else info.code.code, "line": info.line,
                          "span": list(info.origin_span), "ignores": None if ign is None else {str(l): ign[l] for l in info.origin_span if l in ign},
                          "disabled": disabled})
        if new_used != want_used:
            fails.append({"class": "ignore-used-wrong", "event": idx, "got": new_used, "want": want_used})
    return fails
