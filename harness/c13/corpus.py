"""Real builds observed from outside: corpus extraction, the recorder (monkeypatches on mypy.errors.Errors),
running the real tool through mypy.api.run, and the transformations (add an ignore / disable a code)."""
from __future__ import annotations

import contextlib
import glob
import hashlib
import os
import re
from typing import Any

from harness.vlib.core import REPO

from .sink import canon_real_tuple, code_id, code_json, table


# ------------------------------------------------------------------ corpus
def corpus_cases(rng) -> list[tuple[str, str]]:
    """(name, main program) for the single-file cases of test-data/unit/check-*.test that expect an error."""
    cases = []
    for f in sorted(glob.glob(os.path.join(REPO, "test-data", "unit", "check-*.test"))):
        txt = open(f, encoding="utf8").read()
        parts = re.split(r"^\[case ([^\]]+)\]\n", txt, flags=re.M)
        for i in range(1, len(parts), 2):
            name, body = parts[i], parts[i + 1]
            if re.search(r"^\[file |^# flags:|^# cmd:|^# mypy:|^\[delete|^\[stale|^\[rechecked|^\[out2|type: *ignore|^-- ?skip", body, flags=re.M):
                continue
            main = re.split(r"^\[[a-z]", body, flags=re.M)[0]
            if "# E:" not in main:
                continue
            main = re.sub(r"\s*# (E|N|W):.*$", "", main, flags=re.M)
            main = "\n".join(l for l in main.split("\n") if not l.startswith("--"))
            cases.append((os.path.basename(f) + ":" + name, main))
    rng.shuffle(cases)
    return cases


# programs whose diagnostics contain caller-controlled text, for the exit-status clause
TEXT_TOKENS = [": note:", ": error:", "note:", ": note", "error:", " : note: ", "x: note: y", "a", "main.py:1: note: hi"]


def gen_text_programs(rng, n: int) -> list[tuple[str, str]]:
    out = []
    for i in range(n):
        tok = rng.choice(TEXT_TOKENS)
        tok2 = rng.choice(TEXT_TOKENS)
        shape = rng.randint(0, 6)
        if shape == 0:
            src = "from typing import Literal\nx: Literal[%r] = 1\n" % tok
        elif shape == 1:
            src = "from typing import TypedDict\nclass D(TypedDict):\n    a: int\nd: D = {'a': 1}\nd[%r]\n" % tok
        elif shape == 2:
            src = "from typing import Literal\ndef f(x: Literal[%r]) -> None: ...\nf(%r + 'z')\nreveal_type(f)\n" % (tok, tok2)
        elif shape == 3:
            src = "from typing import Literal\nx: Literal[%r] = 1\ny: int = 'a'\n" % tok
        elif shape == 4:
            src = "from typing import Literal\nx: Literal[%r]\nreveal_type(x)\n" % tok
        elif shape == 5:
            src = "from typing import Literal\nx: Literal[%r] = 1\ny: Literal[%r] = 2\n1 +\n" % (tok, tok2)
        else:
            src = "from typing import Literal\nx: Literal[%r] = %r\n" % (tok, tok2)
        out.append(("gen-text-%d-%d" % (shape, i), src))
    return out


def gen_multiline_programs(rng, n: int) -> list[tuple[str, str]]:
    """Programs whose diagnostics originate from multi-line statements, one (possibly) error-producing element per
    physical line: override signatures, calls, displays, decorators, with statements, operator chains."""
    out = []
    for i in range(n):
        shape = i % 7
        k = rng.randint(3, 5)

        def elem(good: str, bad_type: str) -> str:
            r = rng.random()
            return good if r < 0.35 else (bad_type if r < 0.8 else "undefined_%d" % rng.randint(1, 3))
        if shape == 0:      # override with a multi-line signature: errors on parameter lines, ignorable at `def`
            names = "abcde"[:k]
            sup = ", ".join("%s: int" % c for c in names)
            params = []
            for c in names:
                r = rng.random()
                params.append("        %s: %s," % (c, "int" if r < 0.35 else ("str" if r < 0.8 else "Undefined%d" % rng.randint(1, 2))))
            deco = "    @staticmethod_like\n" if rng.random() < 0.15 else ""
            src = ("class A:\n    def f(self, %s) -> None: pass\n\nclass B(A):\n%s    def f(\n        self,\n%s\n    ) -> %s:\n        pass\n"
                   % (sup, deco, "\n".join(params), rng.choice(["None", "None", "int"])))
            if deco:
                src = "def staticmethod_like(f): return f\n" + src
        elif shape == 1:    # multi-line call
            sig = ", ".join("p%d: int" % j for j in range(k))
            args = "\n".join("    %s," % elem(str(j), '"s%d"' % j) for j in range(k))
            src = "def g(%s) -> None: ...\ng(\n%s\n)\n" % (sig, args)
        elif shape == 2:    # multi-line list / dict display in an annotated assignment
            if rng.random() < 0.5:
                items = "\n".join("    %s," % elem(str(j), '"s%d"' % j) for j in range(k))
                src = "x: list[int] = [\n%s\n]\n" % items
            else:
                items = "\n".join("    %d: %s," % (j, elem(str(j), '"s%d"' % j)) for j in range(k))
                src = "x: dict[int, int] = {\n%s\n}\n" % items
        elif shape == 3:    # decorator call over several lines + the decorated def
            args = "\n".join("    %s," % elem(str(j), '"s%d"' % j) for j in range(k))
            sig = ", ".join("p%d: int" % j for j in range(k))
            src = ("from typing import Callable, TypeVar\nF = TypeVar('F')\ndef dec(%s) -> Callable[[F], F]: ...\n@dec(\n%s\n)\ndef h(\n    a: int = %s,\n    b: int = %s,\n) -> None: ...\n"
                   % (sig, args, elem("0", '"x"'), elem("1", '"y"')))
        elif shape == 4:    # with statement, one context manager per line
            items = ",\n".join("    cm(%s) as v%d" % (elem(str(j), '"s%d"' % j), j) for j in range(k))
            src = ("from typing import ContextManager\ndef cm(x: int) -> ContextManager[int]: ...\nwith (\n%s\n):\n    reveal_type(v0)\n" % items)
        elif shape == 5:    # parenthesised operator chain
            terms = "\n".join("    %s %s" % ("+" if j else " ", elem(str(j), '"s%d"' % j)) for j in range(k))
            src = "y = (\n%s\n)\n" % terms
        else:               # nested multi-line calls and a method chain
            inner = "\n".join("        %s," % elem(str(j), '"t%d"' % j) for j in range(k - 1))
            src = ("def f(a: int, b: int = 0, c: int = 0, d: int = 0) -> int: ...\nclass C:\n    def m(self, x: int) -> 'C': ...\nz = f(\n    f(\n%s\n    ),\n    %s,\n)\nw = (\n    C()\n    .m(%s)\n    .m(%s)\n    .n()\n)\n"
                   % (inner, elem("1", '"u"'), elem("2", '"v"'), elem("3", '"w"')))
        out.append(("gen-ml-%d-%d" % (shape, i), src))
    return out


def sweep_lines(name: str, src: str, err_lines: list[int], cap: int) -> list[int]:
    """Physical lines on which to try an ignore in turn: every line of a generated multi-line program; for a corpus
    program the lines of the multi-line statements that contain a reported error."""
    import ast
    nlines = len(src.split("\n"))
    if name.startswith("gen-ml"):
        return list(range(1, nlines + 1))
    try:
        tree = ast.parse(src)
    except (SyntaxError, ValueError, RecursionError):
        return []
    lines: set[int] = set()
    for node in ast.walk(tree):
        if isinstance(node, ast.stmt) and (node.end_lineno or node.lineno) > node.lineno:
            hi = node.end_lineno or node.lineno
            if isinstance(node, (ast.FunctionDef, ast.AsyncFunctionDef, ast.ClassDef, ast.If, ast.For, ast.While, ast.With, ast.Try)) and node.body:
                hi = node.body[0].lineno - 1          # only the header of a compound statement
            if hi > node.lineno and any(node.lineno <= e <= hi for e in err_lines):
                lines.update(range(node.lineno, hi + 1))
    return sorted(lines)[:cap]


# every output mode that changes how messages are rendered (the exit status must not depend on any of them)
OUTPUT_MODES: list[tuple[str, list[str], bool]] = [      # (name, flags, with error summary)
    ("plain", [], False),
    ("summary", [], True),
    ("json", ["--output", "json"], False),
    ("json+summary", ["--output", "json"], True),
    ("pretty", ["--pretty"], False),
    ("pretty+summary", ["--pretty"], True),
    ("context", ["--show-error-context"], False),
    ("hide-codes", ["--hide-error-codes"], False),
    ("absolute-path", ["--show-absolute-path"], False),
    ("columns+end", ["--show-column-numbers", "--show-error-end"], False),
    ("code-links", ["--show-error-code-links"], True),
    ("pretty+context+hide-codes", ["--pretty", "--show-error-context", "--hide-error-codes"], True),
    ("json+hide-codes+context", ["--output", "json", "--hide-error-codes", "--show-error-context"], False),
]


def mode_programs(rng, per_class: int) -> list[tuple[str, str]]:
    """(class, program) — (a) only errors, (b) only notes, (c) errors + notes, (d) unused ignore only, (e) a blocker,
    (f) nothing; the texts vary (incl. the marker-like tokens of the exit-status clause)."""
    out = []
    for _ in range(per_class):
        tok = rng.choice(TEXT_TOKENS + ["plain", "x"])
        n = rng.randint(1, 9)
        out += [
            ("only-errors", rng.choice(["x: int = %r\n" % tok, "def f(a: int) -> None: pass\nf(%r)\nf(undefined_%d)\n" % (tok, n),
                                        "from typing import Literal\nx: Literal[%r] = %d\n" % (tok, n)])),
            ("only-notes", rng.choice(["reveal_type(%d)\n" % n, "from typing import Literal\nx: Literal[%r]\nreveal_type(x)\n" % tok,
                                       "def f():\n    x: int = %r\n" % tok])),
            ("errors+notes", rng.choice(["x: int = %r\nreveal_type(x)\n" % tok,
                                         "class A:\n    def f(self, a: int) -> None: pass\nclass B(A):\n    def f(self, a: str) -> None: pass\n",
                                         "def f():\n    x: int = %r\ny: str = %d\n" % (tok, n)])),
            ("unused-ignore-only", rng.choice(["x = %d  # type: ignore\n" % n, "x = %r  # type: ignore[misc]\ny = 2\n" % tok])),
            ("blocker", rng.choice(["x = (%d +\n" % n, "def f(:\n    pass\n", "x: int = %r\ny = ]\n" % tok])),
            ("nothing", rng.choice(["x = %d\n" % n, "def f(a: int) -> int:\n    return a + %d\n" % n, ""])),
        ]
    return out


# ------------------------------------------------------------------ recorder
class Recording:
    def __init__(self) -> None:
        self.events: list[list] = []          # model events + ["M", file] observation points
        self.outputs: list[list] = []         # the real file_messages result at each "M"
        self.raw_tuples: list[tuple] = []     # every ErrorTuple handed out by file_messages
        self.blockers = False                 # raise_error was called
        self.files: dict[str, int] = {}
        self.ctxs: dict[tuple, int] = {(): 0}
        self.msgs: dict[str, int] = {}
        self.uids: dict[int, int] = {}
        self.keep: list[Any] = []             # keeps ErrorInfo objects alive so that id() stays unique
        self.state: dict[str, Any] = {"file": None, "opts": None, "ctx": 0, "ign": {}, "skip": {}, "igf": set()}
        self.spans: dict[int, list[int]] = {}
        self.unsupported: list[str] = []

    def file_id(self, p: str) -> int:
        if p not in self.files:
            self.files[p] = len(self.files) + 1
        return self.files[p]

    def intern_msg(self, t: str) -> int:
        # a number that depends on the text only, so that runs of P and of P' can be compared
        if t not in self.msgs:
            self.msgs[t] = int(hashlib.sha1(t.encode("utf8", "backslashreplace")).hexdigest()[:11], 16)
        return self.msgs[t]

    def uid(self, info) -> int:
        k = id(info)
        if k not in self.uids:
            self.uids[k] = len(self.uids) + 1
            self.keep.append(info)
        return self.uids[k]

    def ctx_id(self, ctx) -> int:
        k = tuple(ctx)
        if k not in self.ctxs:
            self.ctxs[k] = len(self.ctxs)
        return self.ctxs[k]

    def sync(self, E) -> None:
        """Emit configuration events for whatever changed in the sink's configuration since the last event."""
        st = self.state
        o = E.options
        opts = (sorted(code_id(c.code) for c in o.enabled_error_codes), sorted(code_id(c.code) for c in o.disabled_error_codes),
                bool(o.show_error_code_links and not o.hide_error_codes), o.many_errors_threshold)
        if o.show_error_context:
            self.unsupported.append("show_error_context")
        if st["file"] != E.file or st["opts"] != opts:
            st["file"], st["opts"] = E.file, opts
            self.events.append(["F", self.file_id(E.file), opts[0], opts[1], opts[2], opts[3]])
        c = self.ctx_id(E.import_ctx)
        if c != st["ctx"]:
            st["ctx"] = c
            self.events.append(["C", c])
        for p, d in E.ignored_lines.items():
            snap = [[l, [code_id(x) for x in cs]] for l, cs in d.items()]
            if st["ign"].get(p) != snap:
                st["ign"][p] = snap
                self.events.append(["I", self.file_id(p), snap, False])
        for p, s in E.skipped_lines.items():
            snap = sorted(s)
            if st["skip"].get(p) != snap:
                st["skip"][p] = snap
                self.events.append(["K", self.file_id(p), snap])
        for p in E.ignored_files:
            if p not in st["igf"]:
                st["igf"].add(p)
                self.events.append(["X", self.file_id(p)])

    def info_json(self, info) -> list:
        return [self.uid(info), self.ctx_id(info.import_ctx), info.line, info.column, info.end_line, info.end_column,
                "e" if info.severity == "error" else "n", self.intern_msg(info.message), code_json(info.code),
                bool(info.blocker), bool(info.only_once), [int(x) for x in info.origin_span], info.priority,
                bool(info.hidden), None if info.parent_error is None else self.uid(info.parent_error)]


class RecordingSet:
    """One Recording per Errors instance seen; `main()` is the build's sink (the one that was flushed)."""

    def __init__(self) -> None:
        self.by_sink: dict[int, Recording] = {}
        self.sinks: list[Any] = []

    def of(self, sink) -> Recording:
        k = id(sink)
        if k not in self.by_sink:
            self.by_sink[k] = Recording()
            self.sinks.append(sink)
        return self.by_sink[k]

    def main(self) -> Recording:
        recs = list(self.by_sink.values())
        if not recs:
            return Recording()
        flushed = [r for r in recs if r.outputs or r.blockers]
        pool = flushed or recs
        return max(pool, key=lambda r: len(r.events))


@contextlib.contextmanager
def recording():
    """Observe every Errors instance of the process while the block runs."""
    from mypy.errors import Errors
    rs = RecordingSet()
    orig = {n: getattr(Errors, n) for n in ("add_error_info", "_filter_error", "generate_unused_ignore_errors",
                                            "generate_ignore_without_code_errors", "file_messages", "raise_error")}
    flt: dict[str, Any] = {"in_add": 0, "first_filter": None}

    def _filter_error(self, file, info):
        r = orig["_filter_error"](self, file, info)
        if flt["in_add"] and flt["first_filter"] is None:
            flt["first_filter"] = bool(r)
        return r

    def add_error_info(self, info, *, file=None):
        rec = rs.of(self)
        # origin_span may be a one-shot iterator (itertools.chain): materialise it for both observers
        info.origin_span = list(info.origin_span)
        rec.sync(self)
        flt["in_add"] += 1
        flt["first_filter"] = None
        try:
            return orig["add_error_info"](self, info, file=file)
        finally:
            flt["in_add"] -= 1
            if not flt["first_filter"]:
                rec.events.append(["A", rec.info_json(info), None if not file else rec.file_id(file)])
                rec.spans[rec.uid(info)] = list(info.origin_span)

    def gen_unused(self, file, is_typeshed=False):
        rec = rs.of(self)
        rec.sync(self)
        rec.events.append(["U", rec.file_id(file), bool(is_typeshed)])
        return orig["generate_unused_ignore_errors"](self, file, is_typeshed)

    def gen_nocode(self, file, is_warning_unused_ignores, is_typeshed=False):
        rec = rs.of(self)
        rec.sync(self)
        rec.events.append(["N", rec.file_id(file), bool(is_warning_unused_ignores), bool(is_typeshed)])
        return orig["generate_ignore_without_code_errors"](self, file, is_warning_unused_ignores, is_typeshed)

    def file_messages(self, path):
        r = orig["file_messages"](self, path)
        rec = rs.of(self)
        rec.sync(self)
        rec.events.append(["M", rec.file_id(path)])
        rec.outputs.append(["M", [canon_real_tuple(t, rec.intern_msg) for t in r]])
        rec.raw_tuples.extend(r)
        return r

    def raise_error(self, use_stdout=True):
        rs.of(self).blockers = True
        return orig["raise_error"](self, use_stdout)

    Errors.add_error_info = add_error_info
    Errors._filter_error = _filter_error
    Errors.generate_unused_ignore_errors = gen_unused
    Errors.generate_ignore_without_code_errors = gen_nocode
    Errors.file_messages = file_messages
    Errors.raise_error = raise_error
    try:
        yield rs
    finally:
        for n, f in orig.items():
            setattr(Errors, n, f)


# ------------------------------------------------------------------ running the real tool
MAIN = "<string>"


def run_tool(workdir: str, cache: str, src: str, flags: list[str], inline: list[str] = (), summary: bool = False) -> dict:
    """`mypy <flags> -c <src>` through mypy.api.run while recording the sink.  `inline` are per-module
    settings appended as trailing `# mypy: ...` comment lines (they do not move any line and leave the options
    of every other module — hence the incremental cache of typeshed — untouched)."""
    from mypy import api
    text = src + ("" if not inline else ("" if src.endswith("\n") else "\n") + "".join("# mypy: %s\n" % i for i in inline))
    cwd = os.getcwd()
    os.makedirs(workdir, exist_ok=True)
    os.chdir(workdir)
    try:
        with recording() as rs:
            out, err, status = api.run(["--cache-dir", cache, "--no-color-output", "--show-traceback"]
                                       + ([] if summary else ["--no-error-summary"]) + flags + ["-c", text])
    finally:
        os.chdir(cwd)
    return {"stdout": out, "stderr": err, "status": status, "rec": rs.main()}


def add_ignores(src: str, annots: dict[int, list[str] | None]) -> str | None:
    """Append `# type: ignore[...]` to the given (1-based) lines; None when a line cannot take a comment."""
    lines = src.split("\n")
    for ln, tags in annots.items():
        if ln < 1 or ln > len(lines):
            return None
        s = lines[ln - 1]
        if "#" in s or s.rstrip().endswith("\\") or '"""' in s or "'''" in s or not s.strip():
            return None
        lines[ln - 1] = s + "  # type: ignore" + ("" if not tags else "[" + ", ".join(tags) + "]")
    return "\n".join(lines)


def transform_events(events: list[list], main_file: int, annots: dict[int, list[int]], disable: list[int],
                     inline: bool = True) -> list[list]:
    """The recorded stream of P as the model should see it for P + annotations / + disabled codes:
    every ignore map of `main_file` gets the new lines (dict order = line order, as fastparse builds it);
    options snapshots get the extra disabled codes — `inline` (`# mypy: disable-error-code=`, Options.apply_changes):
    only the program's own snapshots, the code is added to `disabled` and dropped from `enabled`; command line
    (`--disable-error-code`, Options.process_error_codes): every snapshot, and an explicitly enabled code stays enabled."""
    out = []
    for ev in events:
        if ev[0] == "I" and ev[1] == main_file and annots:
            d = {l: cs for l, cs in ev[2]}
            for l, cs in annots.items():
                d[l] = cs
            out.append(["I", ev[1], [[l, d[l]] for l in sorted(d)], ev[3]])
        elif ev[0] == "F" and disable and inline and ev[1] == main_file:
            out.append(["F", ev[1], [c for c in ev[2] if c not in disable], sorted(set(ev[3]) | set(disable)), ev[4], ev[5]])
        elif ev[0] == "F" and disable and not inline:
            out.append(["F", ev[1], ev[2], sorted(set(ev[3]) | {c for c in disable if c not in ev[2]}), ev[4], ev[5]])
        else:
            out.append(ev)
    return out
