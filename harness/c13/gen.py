"""Synthetic event streams for the sink correspondence (structured, mostly valid + a malformed share)."""
from __future__ import annotations

from .sink import code_id, code_json, table

# attribute names in mypy.errorcodes: parents, their sub-codes, a default-disabled one, the two
# `original_error_codes` keys, the codes the generators themselves use, the import family
POOL = ["MISC", "CALL_ARG", "CALL_ARG_MISC", "OVERLOAD_OVERLAP", "ASSIGNMENT", "METHOD_ASSIGN", "ARG_TYPE",
        "IMPORT", "IMPORT_NOT_FOUND", "IMPORT_UNTYPED", "TYPEDDICT_ITEM", "TYPEDDICT_UNKNOWN_KEY",
        "LITERAL_REQ", "TYPE_ABSTRACT", "UNUSED_IGNORE", "IGNORE_WITHOUT_CODE", "TRUTHY_BOOL", "NAME_DEFINED",
        "RETURN_VALUE", "SYNTAX", "DEPRECATED", "ANNOTATION_UNCHECKED"]


def pool_objs():
    ec = table()["ec"]
    return [getattr(ec, a) for a in POOL if hasattr(ec, a)]


def gen_stream(rng, malformed: bool = False) -> tuple[list[list], dict]:
    """Returns (events, features)."""
    objs = pool_objs()
    feats = {"malformed": malformed, "blockers": 0, "notes_with_parent": 0, "only_once": 0, "multi_span": 0,
             "dups": 0, "hidden_possible": False, "links": False, "files": 0, "disabled": 0, "ignore_all": False}
    nfiles = rng.choice([1, 1, 1, 2, 3])
    feats["files"] = nfiles
    maxline = rng.choice([6, 9, 12])
    evs: list[list] = []
    uid = [0]
    all_reports: list[list] = []
    names_pool = [o.code for o in objs] + ["foo", "no-such-code"]

    def mk_opts(f):
        k = rng.random()
        en, dis = [], []
        if k < 0.45:
            dis = [code_id(o.code) for o in rng.sample(objs, rng.randint(1, 3)) if o.code in table()["ec"].error_codes]
        if rng.random() < 0.3:
            en = [code_id(o.code) for o in rng.sample(objs, rng.randint(1, 2))]
            if not malformed:
                dis = [d for d in dis if d not in en]      # process_error_codes: enabling overrides disabling
        feats["disabled"] += len(dis)
        links = rng.random() < 0.12
        feats["links"] = feats["links"] or links
        thr = rng.choice([-1] * 6 + [200, 0, 2, 4, 7])
        if thr != 200 and thr >= 0:
            feats["hidden_possible"] = True
        return ["F", f, sorted(set(en)), sorted(set(dis)), links, thr]

    def mk_ign():
        ign = []
        lines = rng.sample(range(1, maxline + 1), rng.randint(0, min(maxline, 5)))
        for l in lines:
            r = rng.random()
            if r < 0.35:
                tags = []
            elif r < 0.8:
                tags = [rng.choice(names_pool)]
            else:
                tags = [rng.choice(names_pool) for _ in range(rng.randint(2, 3))]
            ign.append([l, [code_id(t) for t in tags]])
        if malformed and rng.random() < 0.3:
            ign.append([-1, []])
        return ign

    file_setup = {}
    for f in range(1, nfiles + 1):
        ia = rng.random() < 0.05
        feats["ignore_all"] = feats["ignore_all"] or ia
        file_setup[f] = (mk_opts(f), ["I", f, mk_ign(), ia], ["K", f, sorted(rng.sample(range(1, maxline + 1), rng.choice([0, 0, 0, 1, 2])))])

    def mk_report(cur_reports):
        uid[0] += 1
        if cur_reports and rng.random() < 0.15:
            base = list(rng.choice(cur_reports))      # duplicate of an earlier report (deferred re-check)
            feats["dups"] += 1
            base[1] = uid[0]
            if base[13] is not None:
                base[13] = list(base[13])
            return base
        line = rng.randint(1, maxline)
        col = rng.choice([None, 0, 0, 4, 8, rng.randint(0, 30)])
        r = rng.random()
        blocker = r < 0.05
        sev = "n" if (not blocker and rng.random() < 0.3) else "e"
        code = code_json(rng.choice(objs)) if rng.random() < 0.85 else None
        parent = None
        if sev == "n" and cur_reports and rng.random() < 0.5:
            p = rng.choice(cur_reports)
            if p[7] == "e":
                # attached note: same code (asserted by report()), usually the parent's position and span
                parent = [p[1], p[5] if p[5] is not None else (None if p[6] else code_json(table()["ec"].MISC))]
                code = parent[1] if rng.random() < 0.5 else None
                if rng.random() < 0.8:
                    line, col = p[2], p[3]
                feats["notes_with_parent"] += 1
        if blocker:
            feats["blockers"] += 1
            if rng.random() < 0.5:
                code = code_json(table()["ec"].SYNTAX)
        sp = rng.random()
        if sp < 0.6:
            span = [line]
        elif sp < 0.85:
            span = list(range(line, min(maxline, line + rng.randint(1, 3)) + 1))
            feats["multi_span"] += 1
        else:
            span = [line] + [rng.randint(1, maxline)]
            feats["multi_span"] += 1
        if parent is not None and rng.random() < 0.8:
            span = list(next(r_ for r_ in cur_reports if r_[1] == parent[0])[9]) or span
        once = rng.random() < 0.08
        if once:
            feats["only_once"] += 1
        mid = rng.randint(1, 4) if once else rng.randint(1, 40)
        el = rng.choice([None, line, line, line + rng.randint(0, 2)])
        ecol = rng.choice([None, None, (col or 0) + rng.randint(1, 9)])
        offset = rng.choice([0, 0, 0, 4])
        if malformed:
            m = rng.random()
            if m < 0.2:
                el = line - rng.randint(1, 3)
            elif m < 0.4:
                ecol = (col or 0) - rng.randint(0, 3)
            elif m < 0.5:
                span = []
            elif m < 0.6:
                line = -1
                span = [line]
            elif m < 0.7:
                col, ecol = None, rng.choice([None, 3])
        return ["R", uid[0], line, col, mid, code, blocker, sev, once, span, offset, el, ecol, parent]

    order = list(range(1, nfiles + 1))
    done_setup = set()
    for f in order:
        o, i, k = file_setup[f]
        cur: list[list] = []
        evs.append(o)
        if rng.random() < 0.15:
            evs.append(["C", rng.choice([0, 1, 2])])
        has_i = not (malformed and rng.random() < 0.15)
        if has_i:
            evs.append(i)
        evs.append(k)
        done_setup.add(f)
        for _ in range(rng.randint(2, 22)):
            r = rng.random()
            if r < 0.04:
                evs.append(["C", rng.choice([0, 1, 2])])
            elif r < 0.08 and len(done_setup) > 1:
                # an error for another (earlier) file, the way the daemon / build worker replay them
                g = rng.choice(sorted(done_setup))
                rep = mk_report([])
                pos_line = max(rep[2], 1)
                info = [rep[1], rng.choice([0, 0, 1]), pos_line, rep[3] if rep[3] is not None else -1, pos_line,
                        (rep[3] if rep[3] is not None else -1) + 1, rep[7], rep[4], rep[5] if not rep[6] else None,
                        False, False, [pos_line], 0, False, None]
                evs.append(["A", info, g])
            elif r < 0.11:
                rep = mk_report([])
                pos_line = max(rep[2], 1)
                info = [rep[1], 0, pos_line, 2, pos_line, 5, rep[7], rep[4], None if rng.random() < 0.5 else rep[5], False, False,
                        rep[9] or [pos_line], rng.choice([0, 0, 5]), False, None]
                evs.append(["A", info, None])
            else:
                rep = mk_report(cur)
                cur.append(rep)
                all_reports.append(rep)
                evs.append(rep)
        if malformed and rng.random() < 0.2:
            evs.append(["X", f])
        warn = rng.random() < 0.7
        if has_i and rng.random() < 0.9:
            evs.append(["U", f, rng.random() < 0.05])
        if has_i and rng.random() < 0.6:
            evs.append(["N", f, warn, False])
        if has_i and malformed and rng.random() < 0.2:
            evs.append(["U", f, False])
        evs.append(["M", f])
        if rng.random() < 0.3:
            evs.append(["S"])
    for f in order:
        evs.append(["M", f])
    evs.append(["S"])
    return evs, feats
