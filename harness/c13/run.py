"""C13 — error suppression is exact and the exit status tells the truth.

1. Translator translate/errorcodes.py -> Gen/ErrorCodes.lean; Lean: Props/C13 (sink state machine: ignore_exact,
   disable_code_exact, unused_iff, blockers_never_ignored, report_end_ge_start, exit_status_truth_partial,
   not_exit_status_truth, + theorems over the regenerated code table).
2. Tie (correspondence), checked on every run:
   a. synthetic event streams fed to the real `mypy.errors.Errors` in-process and to Driver/C13.lean, every
      observation (`file_messages` tuples, used-ignore map, blocker files, …) diffed;
   b. the position clamp of `Errors.report` on a grid of arguments; the exit-status function on random lines;
   c. recorded streams: real runs of `mypy.api.run` on corpus / generated programs with the sink observed from
      outside; the recorded stream replayed through the model must give the build's `file_messages`.
3. Search (the property's own oracles on the real code):
   * sink clauses re-evaluated on the real `Errors` (harness/c13/sink.py `oracle_sink`);
   * metamorphic on the real tool: P vs P + `# type: ignore` (bare / right / parent / wrong code, also on a
     line without error) and vs a code disabled / enabled; the model supplies the expected output, and an
     output-level delta rule is evaluated independently of the model;
   * exit status of every run vs the truth rule.
"""
from __future__ import annotations

import json
import os
import re
import sys
import time

from harness.vlib.core import Ctx, ToolFailure

from . import corpus, gen, sink

MODEL_FILES = ["MypyVerif/Model/ErrPos.lean", "MypyVerif/Model/Errors.lean", "MypyVerif/Model/ExitStatus.lean",
               "MypyVerif/Gen/ErrorCodes.lean", "MypyVerif/Gen/ExitRule.lean", "MypyVerif/Proofs/Errors.lean",
               "MypyVerif/Proofs/ErrorsDisplay.lean"]
DRIVER = "Driver/C13.lean"
NOTE_MARK = ": note:"


class _RunTimeout(BaseException):
    """raised by the SIGALRM handler of a worker process (harness/c13/worker.py) around one tool run"""


_WARMED: set = set()
_ALARM = False       # set in worker processes: `tool()` arms a 120 s alarm around every run


# =============================================================================== (a) synthetic streams
def synthetic(ctx: Ctx) -> None:
    n = ctx.pick(2500, 30000)
    cases = [gen.gen_stream(ctx.rng, malformed=(i % 6 == 5)) for i in range(n)]
    lines = [json.dumps(["stream"] + evs) for evs, _ in cases]
    model = ctx.lean_driver(DRIVER, lines)
    if len(model) != n:
        raise ToolFailure("driver returned %d lines for %d streams" % (len(model), n))
    ndiff = 0
    nfail = 0
    for (evs, feats), mline in zip(cases, model):
        try:
            mobs = [sink.canon_model_obs(o) for o in json.loads(mline)]
        except ValueError:
            raise ToolFailure("driver output is not JSON: " + mline[:200])
        try:
            real, _s = sink.run_real(evs)
        except Exception as e:  # the real sink raised on a stream the generator thought acceptable
            raise ToolFailure("real Errors raised %r on synthetic stream %s" % (e, json.dumps(evs)[:2000]))
        ctx.case(evs, nontrivial=any(e[0] in ("R", "A") for e in evs))
        ctx.dist("synthetic_kind", "malformed" if feats["malformed"] else "valid")
        ctx.dist("synthetic_files", str(feats["files"]))
        for k in ("blockers", "notes_with_parent", "only_once", "multi_span", "dups", "disabled"):
            if feats[k]:
                ctx.dist("synthetic_streams_with", k)
        for k in ("hidden_possible", "links", "ignore_all"):
            if feats[k]:
                ctx.dist("synthetic_streams_with", k)
        fails = sink.oracle_sink(evs)
        if fails:
            nfail += 1
            if nfail <= 3:
                small = shrink(evs, _oracle_fails, 400)
                fails = sink.oracle_sink(small) or fails
                f = fails[0]
                ctx.report({"class": "sink-" + f["class"]},
                           "real Errors sink breaks a clause of C13 on a synthetic stream: %s" % json.dumps(f),
                           {"kind": "sink-stream", "events": small, "failures": fails[:5]})
        if real != mobs:
            ndiff += 1
            ctx.count("disagreements_checked")
            if ndiff <= 3 and not fails:
                first = next(((a, b) for a, b in zip(real, mobs) if a != b), (real[-1:], mobs[-1:]))
                small = shrink_stream(evs)
                sf = sink.oracle_sink(small)
                if sf:
                    ctx.report({"class": "sink-" + sf[0]["class"]},
                               "real Errors sink breaks a clause of C13: %s" % json.dumps(sf[0]),
                               {"kind": "sink-stream", "events": small, "failures": sf[:5]})
                else:
                    ctx.violation("sink correspondence broken (model ≠ mypy.errors.Errors); none of the sink clauses "
                                  "of C13 was seen to fail on the real sink for this stream",
                                  {"broken": "correspondence Driver/C13 `stream` vs mypy.errors.Errors",
                                   "kind": "sink-stream", "events": small, "impl": first[0], "model": first[1]},
                                  found_input=False)
    ctx.count("traces_validated_against_impl", n)
    ctx.coverage["synthetic_disagreements"] = ndiff
    ctx.sample({"synthetic_stream": cases[0][0][:12], "observations": json.loads(model[0])[:1]})


def _model_differs(es: list[list]) -> bool:
    import subprocess
    from harness.vlib.core import LEAN
    try:
        real, _ = sink.run_real(es)
    except Exception:
        return False
    p = subprocess.run(["lake", "env", "lean", "--run", DRIVER], cwd=LEAN, input=json.dumps(["stream"] + es) + "\n",
                       capture_output=True, text=True, timeout=300)
    if p.returncode != 0:
        return False
    try:
        m = [sink.canon_model_obs(o) for o in json.loads(p.stdout.strip().split("\n")[0])]
    except ValueError:
        return False
    return real != m


def _oracle_fails(es: list[list]) -> bool:
    try:
        return bool(sink.oracle_sink(es))
    except Exception:
        return False


def shrink(evs: list[list], still_bad, budget: int) -> list[list]:
    """Greedy removal of events while `still_bad` holds (keeps replays readable)."""
    cur = list(evs)
    i = len(cur) - 1
    while i >= 0 and budget > 0:
        if i < len(cur) and cur[i][0] in ("R", "A", "U", "N", "C", "X", "M", "S", "K"):
            cand = cur[:i] + cur[i + 1:]
            uids = {e[1] for e in cand if e[0] == "R"}          # keep the parents of kept notes
            if all(e[0] != "R" or e[13] is None or e[13][0] in uids for e in cand):
                budget -= 1
                if still_bad(cand):
                    cur = cand
        i -= 1
    return cur


def shrink_stream(evs: list[list]) -> list[list]:
    return shrink(evs, _model_differs, 40)


# =============================================================================== (b) clamp + exit function
def real_clamp(line, col, el, ecol):
    from mypy.errors import Errors
    from mypy.options import Options
    e = Errors(Options())
    e.set_file("x.py", "x", Options())
    i = e.report(line, col, "m", end_line=el, end_column=ecol)
    return [i.line, i.column, i.end_line, i.end_column]


def clamp_and_exit(ctx: Ctx) -> None:
    vals = [None, -1, 0, 1, 2, 5]
    grid = [(l, c, el, ec) for l in (-1, 1, 3) for c in vals for el in vals for ec in vals]
    lines = [json.dumps(["pos", l, c, el, ec]) for l, c, el, ec in grid]
    # exit-status function on random formatted lines
    from mypy import util
    toks = ["x", ": note:", ": error:", " ", "note:", ": ", "error", "[misc]", "Literal[': note:']", "a.py:3"]
    ecases = []
    for _ in range(ctx.pick(400, 4000)):
        ls = []
        for _ in range(ctx.rng.randint(0, 4)):
            sev = ctx.rng.choice("en")
            msg = "".join(ctx.rng.choice(toks) for _ in range(ctx.rng.randint(1, 4)))
            loc = ctx.rng.choice(["main.py:3", "a: note:b.py:1", "pkg/m.py", "main.py:12"])
            ls.append([loc, sev, msg, ctx.rng.choice(["", "  [misc]"])])
        ecases.append((ls, ctx.rng.random() < 0.3))
    lines += [json.dumps(["exit", ls, b]) for ls, b in ecases]
    out = ctx.lean_driver(DRIVER, lines)
    if len(out) != len(lines):
        raise ToolFailure("driver returned %d lines for %d pos/exit cases" % (len(out), len(lines)))
    for (l, c, el, ec), o in zip(grid, out):
        real = real_clamp(l, c, el, ec)
        ctx.case(("pos", l, c, el, ec))
        ctx.dist("clamp_args", "end_line<line" if (el is not None and el < l) else "ok")
        if real[2] < real[0] or (real[2] == real[0] and real[3] <= real[1]):
            report_capped(ctx, {"class": "sink-position"}, "Errors.report stored an invalid span %r for arguments %r" % (real, (l, c, el, ec)),
                       {"kind": "pos", "args": [l, c, el, ec], "impl": real})
        elif real != json.loads(o) and ctx.coverage.get("disagreements_checked", 0) < 3:
            ctx.count("disagreements_checked")
            ctx.violation("position clamp correspondence broken (ErrPos.clamp ≠ Errors.report) for %r: impl %r, model %s; "
                          "the stored span is still valid" % ((l, c, el, ec), real, o),
                          {"broken": "correspondence Driver/C13 `pos` vs Errors.report", "kind": "pos", "args": [l, c, el, ec]},
                          found_input=False)
    ctx.count("traces_validated_against_impl", len(grid))
    for (ls, b), o in zip(ecases, out[len(grid):]):
        msgs = ["%s: %s: %s%s" % (loc, "error" if sev == "e" else "note", msg, suf) for loc, sev, msg, suf in ls]
        n_err, n_notes, _ = util.count_stats(msgs)
        code = (2 if b else 1) if (msgs and n_notes < len(msgs)) else 0     # mypy/main.py, transcribed (3 lines)
        m = json.loads(o)
        ctx.case(("exit", ls, b), nontrivial=bool(ls))
        if ([m[2], m[3]] != [n_err, n_notes] or m[0] != code) and ctx.coverage.get("exit_model_disagreements", 0) < 3:
            ctx.count("disagreements_checked")
            ctx.count("exit_model_disagreements")
            ctx.violation("exit-status model ≠ util.count_stats/main on %r: impl (%d, %d, %d) model %r" % (msgs, code, n_err, n_notes, m),
                          {"broken": "correspondence Driver/C13 `exit` vs mypy.util.count_stats", "kind": "exit", "lines": ls, "blockers": b},
                          found_input=False)
    ctx.count("traces_validated_against_impl", len(ecases))


# =============================================================================== (c) real tool runs
ENABLE_POOL = ["truthy-bool", "redundant-expr", "possibly-undefined", "ignore-without-code", "unused-awaitable",
               "explicit-override", "redundant-self", "truthy-iterable", "unimported-reveal", "mutable-override"]


PROFILES = [(["--warn-unused-ignores"], 0.68), (["--warn-unused-ignores", "--enable-error-code", "ignore-without-code"], 0.15),
            ([], 0.10), (["--warn-unused-ignores", "--show-error-code-links"], 0.07)]


def _pack(r: dict) -> dict:
    rec = r["rec"]
    main_file = rec.files.get(corpus.MAIN)
    return {"stdout": r["stdout"], "stderr": r["stderr"], "status": r["status"], "events": rec.events,
            "outputs": rec.outputs, "blockers": rec.blockers, "main_file": main_file,
            "tuples": [list(t) for t in rec.raw_tuples], "unsupported": rec.unsupported,
            "texts": {str(i): t for t, i in rec.msgs.items()}}


def _main_output(run: dict) -> list:
    """canonical tuples of the program's last flush"""
    mf = run["main_file"]
    ms = [e for e in run["events"] if e[0] == "M"]
    for ev, out in reversed(list(zip(ms, run["outputs"]))):
        if ev[1] == mf:
            return out[1]
    return []


def program_task(args) -> dict:
    """Runs in a worker process: the base run of one program and its variants."""
    name, src, seed, workdir, nvar, cli_share = args[:6]
    sweep_cap = args[6] if len(args) > 6 else 8
    import random
    rng = random.Random(seed)
    t = sink.table()
    res: dict = {"name": name, "src": src, "variants": []}
    x, acc, prof = rng.random(), 0.0, 0
    for i, (_f, w) in enumerate(PROFILES):
        acc += w
        if x < acc:
            prof = i
            break
    base_flags = list(PROFILES[prof][0])
    res["flags"] = base_flags

    def tool(src_, flags, inline=()):
        # one incremental cache per set of global flags (they are part of every module's cache key)
        key = "cache-" + re.sub(r"[^a-z0-9]+", "_", " ".join(flags))[:80]
        if _ALARM:
            import signal
            signal.alarm(240)
        # P and P' must see the same cache state: a module loaded from the incremental cache can yield
        # differently worded messages than the same module parsed afresh (e.g. "def attrib(…)" vs "def (…)" in
        # the overload-variant notes — a matter for C02/C11, not for this property).  So the first time a set of
        # imports meets a cache directory, one discarded run warms the cache.
        imports = frozenset(l.strip() for l in src_.split("\n") if l.strip().startswith(("import ", "from ")))
        try:
            if (key, imports) not in _WARMED:
                _WARMED.add((key, imports))
                try:
                    corpus.run_tool(workdir, os.path.join(workdir, key), src_, flags, inline)
                except _RunTimeout:
                    raise
                except BaseException:  # noqa: BLE001 - the judged run below reports it
                    pass
            return _pack(corpus.run_tool(workdir, os.path.join(workdir, key), src_, flags, inline))
        finally:
            if _ALARM:
                signal.alarm(0)

    try:
        base = tool(src, base_flags)
    except BaseException as e:  # noqa: BLE001 - the tool crashed on a corpus program: not this property
        res["crash"] = repr(e)[:300]
        return res
    res["base"] = base
    if base["main_file"] is None or "INTERNAL ERROR" in base["stderr"]:
        return res
    out0 = _main_output(base)
    err_lines: dict[int, list] = {}
    for tup in out0:
        if tup[4] == "e" and tup[0] >= 1:
            err_lines.setdefault(tup[0], []).append(tup)
    nlines = len(src.split("\n"))
    all_codes = sorted({tup[6] for tup in out0 if tup[6] is not None})
    reg = t["ec"].error_codes
    for _ in range(nvar):
        kind = rng.random()
        var: dict = {}
        if kind < 0.7 and err_lines:
            k = min(len(err_lines), rng.choice([1, 1, 1, 2, 3]))
            annots: dict[int, list[str]] = {}
            modes = []
            for ln in rng.sample(sorted(err_lines), k):
                codes_here = [sink.code_name(tup[6]) for tup in err_lines[ln] if tup[6] is not None]
                mode = rng.choice(["bare", "right", "right", "wrong", "parent", "multi", "all"])
                if mode == "bare" or not codes_here:
                    tags: list[str] = []
                    mode = "bare"
                elif mode == "right":
                    tags = [rng.choice(codes_here)]
                elif mode == "wrong":
                    tags = [rng.choice(["no-such-code", "attr-defined", "misc", "arg-type", "import"])]
                    if tags[0] in codes_here:
                        tags = ["no-such-code"]
                elif mode == "parent":
                    c = rng.choice(codes_here)
                    sub = [o for _, o in t["objs"] if o.code == c and o.sub_code_of is not None]
                    tags = [sub[0].sub_code_of.code] if sub else [c]
                elif mode == "multi":
                    tags = [rng.choice(codes_here), "no-such-code"]
                    rng.shuffle(tags)
                else:
                    tags = sorted(set(codes_here))
                annots[ln] = tags
                modes.append(mode)
            if rng.random() < 0.2:       # an ignore where nothing is reported
                free = [l for l in range(1, nlines + 1) if l not in err_lines and l not in annots]
                if free:
                    annots[rng.choice(free)] = rng.choice([[], ["misc"]])
                    modes.append("no-error-line")
            src2 = corpus.add_ignores(src, annots)
            if src2 is None:
                res["variants"].append({"skipped": "line cannot take a comment", "modes": modes})
                continue
            var = {"kind": "ignore", "annots": {str(k): v for k, v in annots.items()}, "modes": modes,
                   "flags": base_flags, "inline": [], "src": src2}
        elif kind < 0.9 and all_codes:
            c = sink.code_name(rng.choice(all_codes))
            sub = [o for _, o in t["objs"] if o.code == c and o.sub_code_of is not None]
            target = sub[0].sub_code_of.code if (sub and rng.random() < 0.4) else c
            if target not in reg:
                continue
            var = {"kind": "disable", "code": target, "src": src}
        else:
            c = rng.choice(ENABLE_POOL)
            if c not in reg or ("ignore-without-code" in base_flags and c == "ignore-without-code"):
                continue
            var = {"kind": "enable", "code": c, "src": src}
        if var["kind"] in ("disable", "enable"):
            if rng.random() < cli_share:      # the command-line spelling (slow: every module's cache key changes)
                var["flags"], var["inline"] = base_flags + ["--%s-error-code" % var["kind"], var["code"]], []
            else:                             # the per-module spelling
                var["flags"], var["inline"] = base_flags, ['%s-error-code="%s"' % (var["kind"], var["code"])]
        try:
            var["run"] = tool(var["src"], var["flags"], var["inline"])
        except BaseException as e:  # noqa: BLE001
            var["crash"] = repr(e)[:300]
        res["variants"].append(var)
    # placement sweep: an ignore on every physical line of the multi-line statements in turn
    coded = sorted({sink.code_name(tup[6]) for tup in out0 if tup[4] == "e" and tup[6] is not None})
    for pl in corpus.sweep_lines(name, src, sorted(err_lines), sweep_cap):
        for tags in ([[]] + ([[rng.choice(coded)]] if coded and rng.random() < 0.5 else [])):
            src2 = corpus.add_ignores(src, {pl: tags})
            if src2 is None:
                continue
            var = {"kind": "ignore", "annots": {str(pl): tags}, "modes": ["sweep-bare" if not tags else "sweep-coded"],
                   "flags": base_flags, "inline": [], "src": src2}
            try:
                var["run"] = tool(src2, base_flags, [])
            except BaseException as e:  # noqa: BLE001
                var["crash"] = repr(e)[:300]
            res["variants"].append(var)
    return res


def mode_task(args) -> dict:
    """Worker: all mode programs under one output mode (one incremental cache per mode: several of these options
    are part of every module's cache key)."""
    name, payload, workdir = args[0], json.loads(args[1]), args[3]
    mode, flags, summary = payload["mode"], payload["flags"], payload["summary"]
    base = ["--warn-unused-ignores"]
    runs = []
    cache = os.path.join(workdir, "cache-mode-" + re.sub(r"[^a-z0-9]+", "_", mode))
    for cls, src in payload["programs"]:
        if _ALARM:
            import signal
            signal.alarm(240)
        try:
            r = corpus.run_tool(workdir, cache, src, base + flags, (), summary)
            rec = r["rec"]
            runs.append({"class": cls, "src": src, "status": r["status"], "stdout": r["stdout"], "stderr": r["stderr"],
                         "blockers": rec.blockers, "tuples": [list(t) for t in rec.raw_tuples]})
        except BaseException as e:  # noqa: BLE001
            runs.append({"class": cls, "src": src, "crash": repr(e)[:200]})
        finally:
            if _ALARM:
                signal.alarm(0)
    return {"name": name, "src": args[1], "variants": [], "mode": mode, "flags": base + flags, "summary": summary, "mode_runs": runs}


def judge_modes(ctx: Ctx, results: list[dict]) -> None:
    """The exit-status clause checked directly on whole CLI runs in every rendering mode, against the *structured*
    messages (severity field of the ErrorTuples the sink handed out; in JSON mode also the `severity` of the printed
    records): 0 iff no error-severity message, 2 iff a blocker stopped the build, else 1."""
    for res in results:
        for run in res["mode_runs"]:
            if "crash" in run or "INTERNAL ERROR" in run.get("stderr", "") or "Traceback" in run.get("stderr", ""):
                ctx.dist("exit_status_by_mode", res["mode"] + ": crashed (not judged)")
                continue
            sev = [t[5] for t in run["tuples"]]
            any_error = "error" in sev
            json_mode = "--output" in res["flags"]
            if json_mode:       # the printed records must tell the same story as the sink's tuples
                recs = []
                for line in (run["stdout"] + "\n" + run["stderr"]).split("\n"):
                    if line.startswith("{"):
                        try:
                            recs.append(json.loads(line))
                        except ValueError:
                            pass
                if recs or not run["tuples"]:
                    any_error = any_error or any(r_.get("severity") == "error" for r_ in recs)
            truth = 2 if run["blockers"] else (1 if any_error else 0)
            status = run["status"]
            ctx.case(("mode-run", res["mode"], run["class"], run["src"]), nontrivial=True)
            ctx.dist("exit_status_by_mode", "%s / %s: status %d" % (res["mode"], run["class"], status))
            if status != truth:
                err_texts = [t[6] for t in run["tuples"] if t[5] == "error"]
                observed = {"class": "exit-status", "status": status, "truth": truth, "output_json": json_mode,
                            "program_class": run["class"], "no_error_severity_message": not any_error,
                            "every_error_text_contains_note_marker": bool(err_texts) and all(NOTE_MARK in x for x in err_texts),
                            "every_error_line_contains_note_marker": False}
                report_capped(ctx, observed,
                              "exit status %d but the structured messages give %d (blockers=%s, severities=%s) for a program with %s under `mypy %s%s`"
                              % (status, truth, run["blockers"], sorted(set(sev)) or "none", run["class"], " ".join(res["flags"]),
                                 "" if res["summary"] else " --no-error-summary"),
                              {"kind": "mode-run", "src": run["src"], "flags": res["flags"], "summary": res["summary"], "status": status,
                               "truth": truth, "messages": [[t[1], t[5], t[6], t[7]] for t in run["tuples"]], "stdout": run["stdout"][:2000]})


def format_tuple(t: list, hide_codes: bool = False) -> str:
    """Errors.format_messages_default for a tuple with a file (no columns, not pretty) — used to tie the
    exit-status model's `format` to the real stdout."""
    file, line, _c, _el, _ec, sev, msg, code = t
    from mypy.errors import SHOW_NOTE_CODES
    if file is None:
        return msg
    srcloc = "%s:%d" % (file, line) if line >= 0 else file
    s = "%s: %s: %s" % (srcloc, sev, msg)
    if not hide_codes and code and (sev != "note" or code in SHOW_NOTE_CODES):
        s += "  [%s]" % code
    return s


def exit_lines(tuples: list[list]) -> list[list] | None:
    from mypy.errors import SHOW_NOTE_CODES
    ls = []
    for file, line, _c, _el, _ec, sev, msg, code in tuples:
        if file is None:
            return None
        suf = "  [%s]" % code if (code and (sev != "note" or code in SHOW_NOTE_CODES)) else ""
        ls.append(["%s:%d" % (file, line) if line >= 0 else file, "e" if sev == "error" else "n", msg, suf])
    return ls


def stored_codes(run: dict) -> dict[tuple, list]:
    """(line, column, severity, message id) -> the `code` JSONs [name, subOf, …] of the ErrorInfos recorded there"""
    d: dict[tuple, list] = {}
    for ev in run["events"]:
        if ev[0] == "A":
            i = ev[1]
            d.setdefault((i[2], i[3], i[6], i[7]), []).append(i[8])
    return d


def carries(tup: list, code_id_: int, codes_at: dict[tuple, list]) -> bool:
    """Does the diagnostic carry code `code_id_` — itself, or as the parent (`sub_code_of`) of its code?
    Two ErrorCode objects may share a name (CALL_ARG / CALL_ARG_MISC): the recorded object decides."""
    if tup[6] is None:
        return False
    if tup[6] == code_id_:
        return True
    if tup[5][0] == "u":
        recs = [c for c in codes_at.get((tup[0], tup[1], tup[4], tup[5][1]), []) if c is not None and c[0] == tup[6]]
        if recs:
            return any(c[1] == code_id_ for c in recs)
    name, parent = sink.code_name(tup[6]), sink.code_name(code_id_)
    reg = sink.table()["ec"].error_codes
    o = reg.get(name)
    return o is not None and o.sub_code_of is not None and o.sub_code_of.code == parent


def key5(t: list):
    return json.dumps(t, sort_keys=True)


def def_lines(src: str) -> dict[int, set[int]]:
    """line -> the `def` lines (and first decorator lines) of the functions whose *signature* contains that line,
    from Python's own `ast` (independent of mypy).  This is the only documented place besides the reported
    extent from which a diagnostic may be silenced: an override error reported on a parameter's line can be
    ignored on the `def` line (docs/source/common_issues.rst "Add it to the line that generates the error",
    test-data/unit/check-classes.test testMultiLineMethodOverridingWithIncompatibleTypesIgnorableAtDefinition)."""
    import ast
    out: dict[int, set[int]] = {}
    try:
        tree = ast.parse(src)
    except (SyntaxError, ValueError, RecursionError):
        return out
    for node in ast.walk(tree):
        if isinstance(node, (ast.FunctionDef, ast.AsyncFunctionDef)):
            first = min([node.lineno] + [d.lineno for d in node.decorator_list])
            sig_end = max([node.lineno] + [getattr(a, "end_lineno", None) or a.lineno
                                           for a in ast.walk(node.args) if hasattr(a, "lineno")]
                          + ([node.returns.end_lineno or node.returns.lineno] if node.returns is not None else []))
            if node.body and node.body[0].lineno - 1 > sig_end:
                sig_end = node.body[0].lineno - 1          # the line with `) -> T:` / trailing comment lines
            for l in range(first, sig_end + 1):
                out.setdefault(l, set()).update({node.lineno, first})
    return out


def allowed_lines(t: list, deflines: dict[int, set[int]]) -> set[int]:
    """The lines on which a `# type: ignore` may silence the displayed diagnostic `t` — computed from the tool's
    *output* and the program text only: the reported extent `line..end_line` (the ignore-scope rule of
    testIgnoreScope* in check-python38.test: any physical line of the reported expression), plus the `def` line
    for a diagnostic reported inside a function signature.  Never a line outside these."""
    lo, hi = t[0], max(t[0], t[2])
    return set(range(lo, hi + 1)) | deflines.get(t[0], set())


def oracle_spans(run: dict, src: str) -> list[dict]:
    """Recorded-stream check: the `origin_span` of every ErrorInfo reported for the program must lie inside the
    independently computed `allowed_lines` — a widened span is flagged even when no ignore is present."""
    deflines = def_lines(src)
    bad = []
    cur = None
    mf = run["main_file"]
    for ev in run["events"]:
        if ev[0] == "F":
            cur = ev[1]
        elif ev[0] == "A" and (ev[2] if ev[2] is not None else cur) == mf:
            i = ev[1]
            if i[2] < 1:
                continue
            allowed = allowed_lines([i[2], i[3], i[4]], deflines)
            extra = [l for l in i[11] if l not in allowed]
            if extra:
                bad.append({"line": i[2], "end_line": i[4], "origin_span": i[11], "outside": extra,
                            "code": None if i[8] is None else sink.code_name(i[8][0]), "msg": i[7]})
    return bad


def oracle_ignore_delta(base: dict, var: dict, annots: dict[int, list[str]], src: str = "") -> list[dict]:
    """The property's delta rule on outputs, independent of the model and of the origin spans the tool computed:
       * a diagnostic of P that is gone in P' has an annotated line among its `allowed_lines` (reported extent or
         enclosing `def` line) (and, if coded tags were given, carries a listed code or a sub-code of one) — or is
         a note on the line of such an error;
       * a diagnostic that is new in P' sits on an annotated line and is one of the sink's own messages about
         ignores (not covered / unused / without code);
       * the surviving diagnostics keep their relative order.
    Returns problems {kind, tuple, text}."""
    out0, out1 = _main_output(base), _main_output(var["run"])
    probs: list[dict] = []
    k0 = [key5(t) for t in out0]
    k1 = [key5(t) for t in out1]
    s0, s1 = set(k0), set(k1)
    spans: dict[tuple, list[list[int]]] = {}
    once: set[int] = set()
    for run in (base, var["run"]):
        for ev in run["events"]:
            if ev[0] == "A":
                i = ev[1]
                if run is base:
                    spans.setdefault((i[2], i[3], i[6], i[7]), []).append(i[11])
                if i[10]:
                    once.add(i[7])
    codes_at = stored_codes(base)
    deflines = def_lines(src)
    gone = [t for t, k in zip(out0, k0) if k not in s1]
    removed_err_lines = set()
    for t in gone:
        if t[5][0] == "u":
            hit = sorted(l for l in allowed_lines(t, deflines) if l in annots)
        else:
            hit = [t[0]] if t[0] in annots else []
        is_once = t[5][0] == "sl" or (t[5][0] == "u" and t[5][1] in once)
        if not hit:
            probs.append({"kind": "unrelated-removed", "tuple": t, "only_once": is_once,
                          "text": "diagnostic %s disappeared although no added ignore is on a line from which it may be silenced (lines %s)" % (json.dumps(t), sorted(allowed_lines(t, deflines)))})
            continue
        ok = False
        for l in hit:
            tags = annots[l]
            if (not tags) or (t[6] is None and t[4] == "n") or any(carries(t, sink.code_id(x), codes_at) for x in tags):
                ok = True
        if t[4] == "e":
            if not ok:
                probs.append({"kind": "wrong-code-suppressed", "tuple": t, "only_once": False,
                              "text": "error %s was suppressed by an ignore whose codes do not match" % json.dumps(t)})
            else:
                removed_err_lines.add(t[0])
        elif not ok and t[0] not in removed_err_lines:
            probs.append({"kind": "note-removed", "tuple": t, "only_once": is_once,
                          "text": "note %s disappeared although neither it nor an error on its line matches" % json.dumps(t)})
    ok_gone = [g for g in gone if not any(p["tuple"] is g for p in probs)]
    for t, k in zip(out1, k1):
        if k in s0:
            continue
        if t[0] not in annots or t[5][0] not in ("nc", "cc", "ui", "iw"):
            is_once = t[4] == "n" and (t[5][0] == "sl" or (t[5][0] == "u" and t[5][1] in once))
            twin = any(g[0] == t[0] and g[4] == t[4] and g[5] == t[5] for g in ok_gone) and \
                len(spans.get((t[0], t[1], t[4], t[5][1] if t[5][0] == "u" else -1), [])) >= 1
            probs.append({"kind": "new-diagnostic", "tuple": t, "only_once": is_once, "twin_of_suppressed": twin,
                          "text": "new diagnostic %s is not a message about an added ignore" % json.dumps(t)})
    kept0 = [k for k in k0 if k in s1]
    kept1 = [k for k in k1 if k in s0]
    if not probs and kept0 != kept1 and sorted(kept0) == sorted(kept1):
        nolink0 = [k for k in kept0 if '["sl",' not in k]
        nolink1 = [k for k in kept1 if '["sl",' not in k]
        if nolink0 == nolink1:
            # only the priority-20 `See …#code-X` note of --show-error-code-links sits elsewhere among the notes of
            # its error: the inserted "not covered" note (code None) splits the run `sort_within_context` orders by priority
            probs.append({"kind": "link-note-reordered", "tuple": None, "only_once": False,
                          "text": "the error-code-link note changed its place among the notes of its error"})
        else:
            probs.append({"kind": "order-changed", "tuple": None, "only_once": False, "text": "surviving diagnostics changed their order"})
    return probs


def _same_place(a: list, b: list) -> bool:
    return a[:5] == b[:5] and a[6] == b[6]


def classify_delta(probs: list[dict], texts: dict[str, str] | None = None) -> str:
    """Narrow classes of ways in which the real tool is *not* exact (each is a known finding with its own entry):
    `only-once-note-moved`       every difference is an only_once note (reported with only_once=True — observed in
                                 the recorded stream — or the sink's own `See …#code-X` link note) that now shows up
                                 at the next place it is reported because the diagnostic it used to follow is ignored;
    `did-you-mean-dropped`       an error that the added ignore does *not* suppress (its code is not listed) loses its
                                 `; did you mean …?` suffix: semanal builds the simple message for any line that has a
                                 `# type: ignore`, whatever its codes;
    `deduplicated-twin-unhidden` the suppressed error had a twin with the same text on the same line (removed by
                                 `remove_duplicates`) whose code / origin span the ignore does not match: the twin
                                 is displayed now."""
    texts = texts or {}
    if all(p["only_once"] and p["kind"] in ("new-diagnostic", "note-removed", "unrelated-removed") and p["tuple"][4] == "n" for p in probs) \
            and any(p["kind"] == "new-diagnostic" for p in probs):
        return "only-once-note-moved"
    gone = [p["tuple"] for p in probs if p["kind"] in ("wrong-code-suppressed", "unrelated-removed", "note-removed")]
    new = [p["tuple"] for p in probs if p["kind"] == "new-diagnostic"]
    if gone and len(gone) == len(new) and len(gone) + len(new) == len(probs):
        def txt(t):
            return texts.get(str(t[5][1]), "") if t[5][0] == "u" else ""
        if all(any(_same_place(g, n) and txt(g).startswith(txt(n) + "; did you mean ") and txt(n) for n in new) for g in gone):
            return "did-you-mean-dropped"
    if new and len(new) == len(probs):
        twins = [p for p in probs if p.get("twin_of_suppressed")]
        if len(twins) == len(probs):
            return "deduplicated-twin-unhidden"
    return probs[0]["kind"]


def real_runs(ctx: Ctx, deep_modes: bool = False) -> None:
    t0 = time.time()
    cases = corpus.corpus_cases(ctx.rng)
    ncorp = ctx.pick(170, len(cases))
    ntext = ctx.pick(40, 300)
    progs = cases[:ncorp] + corpus.gen_text_programs(ctx.rng, ntext) + corpus.gen_multiline_programs(ctx.rng, ctx.pick(28, 280))
    nvar = ctx.pick(4, 6)
    nproc = 6
    tasks = []
    for i, (name, src) in enumerate(progs):
        tasks.append((name, src, ctx.rng.getrandbits(48), os.path.join(ctx.tmp, "w%d" % (i % nproc)), nvar, ctx.pick(0.04, 0.15), ctx.pick(6, 10)))
    # the exit-status clause in every rendering mode: one task per mode, spread over the lanes (more programs per
    # class when the exit-rule proof obligation is broken, or in the thorough tier)
    mprogs = corpus.mode_programs(ctx.rng, 4 if (deep_modes or not ctx.quick()) else 1)
    for i, (mode, mflags, summ) in enumerate(corpus.OUTPUT_MODES):
        tasks.append(("modes:" + mode, json.dumps({"mode": mode, "flags": mflags, "summary": summ, "programs": mprogs}),
                      0, os.path.join(ctx.tmp, "w%d" % (i % nproc)), 0, 0, 0))
    # one worker lane per scratch directory (its own incremental caches); every lane runs its programs in
    # separate worker processes (harness/c13/worker.py) that are restarted when one dies
    lanes = [[t for t in tasks if t[3].endswith("w%d" % k)] for k in range(nproc)]
    from concurrent.futures import ThreadPoolExecutor
    with ThreadPoolExecutor(max_workers=nproc) as ex:
        results_chunks = list(ex.map(lambda kl: _run_lane(ctx.tmp, kl[0], kl[1]), enumerate(lanes)))
    ctx.coverage["real_runs_wall_s"] = round(time.time() - t0, 1)
    by_name = {r["name"]: r for ch in results_chunks for r in ch}
    results = [by_name[t[0]] for t in tasks if t[0] in by_name]
    judge_modes(ctx, [r for r in results if "mode_runs" in r])
    judge_runs(ctx, [r for r in results if "mode_runs" not in r and not str(r["name"]).startswith("modes:")])


def _run_lane(tmp: str, k: int, lane: list) -> list[dict]:
    """Run the lane's programs in worker processes of at most 60 programs; a worker that dies costs only the
    program it was working on (recorded as crashed, not judged)."""
    import subprocess
    from harness.vlib.core import PY, VERIF, repo_env
    done: list[dict] = []
    todo = list(lane)
    rounds = 0
    while todo:
        rounds += 1
        batch, rest = todo[:60], todo[60:]
        tf = os.path.join(tmp, "lane%d-%d.tasks.json" % (k, rounds))
        of = os.path.join(tmp, "lane%d-%d.out.jsonl" % (k, rounds))
        with open(tf, "w") as f:
            json.dump(batch, f)
        open(of, "w").close()
        try:
            p = subprocess.run([PY, "-m", "harness.c13.worker", tf, of], cwd=VERIF, env=repo_env(),
                               capture_output=True, text=True, timeout=120 * 8 * len(batch) + 600)
            rc, err = p.returncode, p.stderr[-300:]
        except subprocess.TimeoutExpired:
            rc, err = -1, "worker timed out"
        got = []
        for line in open(of):
            try:
                got.append(json.loads(line))
            except ValueError:
                break                                  # a half-written last line
        done += got
        if len(got) < len(batch):
            culprit = batch[len(got)]
            done.append({"name": culprit[0], "src": culprit[1], "variants": [],
                         "crash": "worker process died (exit %s) %s" % (rc, err)})
            todo = batch[len(got) + 1:] + rest
        else:
            todo = rest
    return done


def judge_runs(ctx: Ctx, results: list[dict]) -> None:
    # ---- driver batch: replay of every run, expectation for every variant, exit model for every run
    lines: list[str] = []
    index: list[tuple] = []
    for ri, r in enumerate(results):
        if "base" not in r:
            continue
        runs = [("base", None, r["base"])] + [("var", vi, v["run"]) for vi, v in enumerate(r["variants"]) if "run" in v]
        for tag, vi, run in runs:
            lines.append(json.dumps(["stream"] + run["events"]))
            index.append(("replay", ri, vi))
            el = exit_lines(run["tuples"])
            if el is not None:
                lines.append(json.dumps(["exit", el, run["blockers"]]))
                index.append(("exit", ri, vi))
        for vi, v in enumerate(r["variants"]):
            if "run" not in v or r["base"]["main_file"] is None:
                continue
            if v["kind"] == "ignore":
                ann = {int(k): [sink.code_id(x) for x in tags] for k, tags in v["annots"].items()}
                evs = corpus.transform_events(r["base"]["events"], r["base"]["main_file"], ann, [])
            elif v["kind"] == "disable":
                evs = corpus.transform_events(r["base"]["events"], r["base"]["main_file"], {}, [sink.code_id(v["code"])],
                                              inline=bool(v["inline"]))
            else:
                continue
            lines.append(json.dumps(["stream"] + evs))
            index.append(("expect", ri, vi))
    t0 = time.time()
    out = ctx.lean_driver(DRIVER, lines) if lines else []
    ctx.coverage["real_runs_driver_wall_s"] = round(time.time() - t0, 1)
    if len(out) != len(lines):
        raise ToolFailure("driver returned %d lines for %d run cases" % (len(out), len(lines)))
    model: dict[tuple, list] = {}
    for key, o in zip(index, out):
        try:
            model[key] = json.loads(o)
        except ValueError:
            raise ToolFailure("driver output is not JSON: " + o[:200])

    nrep = nbad_rep = nexp = nbad_exp = 0
    for ri, r in enumerate(results):
        if "crash" in r:
            ctx.dist("program_runs", "tool crashed / worker died / timed out (not judged)")
            continue
        if "base" not in r:
            ctx.dist("program_runs", "no base run (not judged)")
            continue
        base = r["base"]
        ctx.dist("program_runs", "judged")
        ctx.dist("program_kind", "generated-text" if r["name"].startswith("gen-text") else
                 "generated-multiline" if r["name"].startswith("gen-ml") else "corpus check-*.test")
        if base["unsupported"]:
            ctx.dist("program_runs", "unsupported option (not judged)")
            continue
        runs = [("base", None, base, r["src"], r["flags"])] + \
               [("var", vi, v["run"], v["src"] + "".join("\n# mypy: " + i for i in v["inline"]), v["flags"])
                for vi, v in enumerate(r["variants"]) if "run" in v]
        replay_ok: dict = {}
        ctx.dist("recorded_stream_vs_Quiet", quiet_status(base["events"]))
        wide = oracle_spans(base, r["src"]) if base["main_file"] is not None else []
        ctx.count("origin_spans_checked", sum(1 for e in base["events"] if e[0] == "A"))
        if wide:
            report_capped(ctx, {"class": "origin-span-too-wide", "code": wide[0]["code"]},
                          "an error of %s reported on line %d (extent %d..%d) can be silenced from line(s) %s, which are neither in "
                          "its reported extent nor the enclosing `def` line (origin_span %s)"
                          % (r["name"], wide[0]["line"], wide[0]["line"], wide[0]["end_line"], wide[0]["outside"], wide[0]["origin_span"]),
                          {"kind": "program", "name": r["name"], "src": r["src"], "flags": r["flags"], "wide_spans": wide[:5]})
        for tag, vi, run, src, flags in runs:
            # -------- tie (c): recorded stream through the model = the build's file_messages
            mobs = [sink.canon_model_obs(o) for o in model[("replay", ri, vi)]]
            nrep += 1
            ctx.count("traces_validated_against_impl")
            ok = mobs == run["outputs"]
            replay_ok[vi] = ok
            ctx.case(("run", r["name"], vi), nontrivial=bool(run["tuples"]))
            if not ok:
                nbad_rep += 1
                ctx.count("disagreements_checked")
                if nbad_rep <= 3:
                    fails = sink.oracle_sink([e for e in run["events"] if e[0] != "M"])
                    if fails:
                        ctx.report({"class": "sink-" + fails[0]["class"]},
                                   "real Errors sink breaks a clause of C13 on the stream recorded from program %s: %s" % (r["name"], json.dumps(fails[0])),
                                   {"kind": "program", "name": r["name"], "src": src, "flags": flags, "failures": fails[:5]})
                    else:
                        first = next(((a, b) for a, b in zip(run["outputs"], mobs) if a != b), (run["outputs"][-1:], mobs[-1:]))
                        ctx.violation("recorded-stream correspondence broken for program %s (model's file_messages ≠ the build's); "
                                      "no sink clause of C13 fails on the recorded stream" % r["name"],
                                      {"broken": "correspondence Driver/C13 `stream` (recorded) vs mypy.errors.Errors inside a build",
                                       "kind": "program", "name": r["name"], "src": src, "flags": flags,
                                       "impl": first[0], "model": first[1]}, found_input=False)
            # -------- exit status: truth rule on the real run; exit model tie
            judge_exit(ctx, r, run, src, flags, model.get(("exit", ri, vi)))
        # -------- metamorphic
        out0 = _main_output(base)
        for vi, v in enumerate(r["variants"]):
            if "skipped" in v:
                ctx.dist("variant", "skipped: " + v["skipped"])
                continue
            if "crash" in v or "run" not in v:
                ctx.dist("variant", "tool-crashed (not judged)")
                continue
            run = v["run"]
            if base["blockers"] or run["blockers"] or "INTERNAL ERROR" in run["stderr"]:
                ctx.dist("variant", v["kind"] + ": blocker/crash run (exit status judged only)")
                continue
            out1 = _main_output(run)
            if v["kind"] == "ignore":
                for m in v["modes"]:
                    ctx.dist("ignore_mode", m)
                annots = {int(k): tags for k, tags in v["annots"].items()}
                # did the comment land where we put it?
                want = {l: [sink.code_id(x) for x in tags] for l, tags in annots.items()}
                got_ign = None
                for ev in run["events"]:
                    if ev[0] == "I" and ev[1] == run["main_file"]:
                        got_ign = {l: cs for l, cs in ev[2]}
                if got_ign != want:
                    ctx.dist("variant", "ignore: comment not attributed to the chosen line (not judged)")
                    continue
                ctx.dist("variant", "ignore")
                nexp += 1
                exp = [sink.canon_model_obs(o) for o in model[("expect", ri, vi)]]
                exp_main = _last_main(exp, base)
                probs = oracle_ignore_delta(base, v, annots, r["src"])
                ctx.case(("meta", r["name"], v["annots"]))
                if probs:
                    report_capped(ctx, {"class": "ignore-not-exact", "detail": classify_delta(probs, {**base["texts"], **run["texts"]})},
                               "adding `# type: ignore` changed the output of %s by more/less than the matching diagnostics: %s" % (r["name"], probs[0]["text"]),
                               {"kind": "metamorphic", "name": r["name"], "src": r["src"], "flags": r["flags"], "annots": v["annots"],
                                "problems": [p["text"] for p in probs[:6]], "before": out0, "after": out1})
                elif exp_main != out1:
                    nbad_exp += 1
                    ctx.count("disagreements_checked")
                    if replay_ok.get(None) and replay_ok.get(vi):
                        # both streams replay exactly: the checker emitted a different stream for P'; the output
                        # obeys the delta rule, so this is not a failure of the property
                        ctx.dist("variant", "ignore: upstream stream differs, delta rule holds")
                    elif nbad_exp <= 3:
                        ctx.violation("model-predicted output after adding ignores differs from the tool's for %s; the delta rule holds on the outputs" % r["name"],
                                      {"broken": "ignore_exact transfer: model(stream(P) + ignores) ≠ tool(P + ignores)",
                                       "kind": "metamorphic", "name": r["name"], "src": r["src"], "flags": r["flags"], "annots": v["annots"],
                                       "impl": out1, "model": exp_main}, found_input=False)
            elif v["kind"] == "disable":
                ctx.dist("variant", "disable")
                cid = sink.code_id(v["code"])
                codes_at = stored_codes(base)
                want = [t for t in out0 if not carries(t, cid, codes_at)]
                ctx.case(("meta-disable", r["name"], v["code"]))
                nexp += 1
                if out1 != want:
                    extra = [t for t in out1 if key5(t) not in {key5(x) for x in want}]
                    missing = [t for t in want if key5(t) not in {key5(x) for x in out1}]
                    once_ids = {ev[1][7] for rr in (base, run) for ev in rr["events"] if ev[0] == "A" and ev[1][10]}
                    moved = all(t[4] == "n" and (t[5][0] == "sl" or (t[5][0] == "u" and t[5][1] in once_ids)) for t in extra + missing)
                    report_capped(ctx, {"class": "disable-not-exact", "code": v["code"],
                                        "detail": "only-once-note-moved" if moved else "other-diagnostic-changed"},
                               "--disable-error-code %s changed other diagnostics of %s (extra %s, missing %s)" % (v["code"], r["name"], json.dumps(extra[:2]), json.dumps(missing[:2])),
                               {"kind": "metamorphic", "name": r["name"], "src": r["src"], "flags": v["flags"], "base_flags": r["flags"],
                                "inline": v["inline"], "before": out0, "after": out1})
                else:
                    exp = [sink.canon_model_obs(o) for o in model[("expect", ri, vi)]]
                    if _last_main(exp, base) != out1 and not (replay_ok.get(None) and replay_ok.get(vi)):
                        nbad_exp += 1
                        ctx.count("disagreements_checked")
            else:
                ctx.dist("variant", "enable")
                cid = sink.code_id(v["code"])
                rest = [t for t in out1 if not carries(t, cid, stored_codes(run))]
                ctx.case(("meta-enable", r["name"], v["code"]))
                nexp += 1
                if rest != [t for t in out0 if not carries(t, cid, stored_codes(base))]:
                    report_capped(ctx, {"class": "enable-not-exact", "code": v["code"]},
                               "--enable-error-code %s changed diagnostics of %s that do not carry that code" % (v["code"], r["name"]),
                               {"kind": "metamorphic", "name": r["name"], "src": r["src"], "flags": v["flags"], "base_flags": r["flags"],
                                "inline": v["inline"], "before": out0, "after": out1})
    ctx.coverage["recorded_runs_replayed"] = nrep
    ctx.coverage["recorded_replay_disagreements"] = nbad_rep
    ctx.coverage["metamorphic_variants_judged"] = nexp
    ctx.coverage["metamorphic_model_prediction_differs"] = nbad_exp
    for r in results:
        if "base" in r and r["base"]["tuples"]:
            ctx.sample({"program": r["name"], "flags": r["flags"], "stdout": r["base"]["stdout"][:300],
                        "variants": [{k: v.get(k) for k in ("kind", "annots", "code", "modes")} for v in r["variants"][:3]]})
            break


def quiet_status(events: list[list]) -> str:
    """Which hypothesis of `ignore_exact` (Props/C13 `Quiet`) a recorded stream satisfies."""
    once: list[int] = []
    links = thr = False
    for ev in events:
        if ev[0] == "F":
            links = links or bool(ev[4])
            thr = thr or ev[5] >= 0
        elif ev[0] == "A" and ev[1][10]:
            once.append(ev[1][7])
    if links:
        return "error-code links on"
    if thr:
        return "many-errors threshold on"
    if len(set(once)) != len(once):
        return "only_once collision (F13 corner)"
    return "Quiet holds"


def report_capped(ctx: Ctx, observed: dict, what: str, replay, cap: int = 4) -> None:
    """ctx.report, but at most `cap` VIOLATION lines per class (known findings are never capped: they print once)."""
    if ctx.match_known(observed) is None:
        key = "violations_of_class_" + observed["class"]
        ctx.count(key)
        if ctx.coverage[key] > cap:
            return
    ctx.report(observed, what, replay)


def _last_main(obs: list, base: dict) -> list:
    ms = [e for e in base["events"] if e[0] == "M"]
    for ev, o in reversed(list(zip(ms, obs))):
        if ev[1] == base["main_file"]:
            return o[1]
    return []


def judge_exit(ctx: Ctx, r: dict, run: dict, src: str, flags: list[str], m: list | None) -> None:
    tuples = run["tuples"]
    status = run["status"]
    if "INTERNAL ERROR" in run["stderr"] or "Traceback" in run["stderr"]:
        ctx.dist("exit_status", "internal error (not judged)")
        return
    out_lines = [l for l in run["stdout"].split("\n") if l]
    err_lines = [l for l in run["stderr"].split("\n") if l]
    formatted = [format_tuple(t) for t in tuples]
    if sorted(out_lines + err_lines) != sorted(formatted):
        ctx.dist("exit_status", "output has lines that are not sink tuples (not judged)")
        return
    any_error = any(t[5] == "error" for t in tuples)
    truth = 2 if run["blockers"] else (1 if any_error else 0)
    ctx.dist("exit_status", "status %d" % status)
    ctx.case(("exit-run", r["name"], flags, src), nontrivial=bool(tuples))
    if m is not None and m[0] != status and ctx.coverage.get("exit_run_disagreements", 0) < 3:
        ctx.count("disagreements_checked")
        ctx.count("exit_run_disagreements")
        ctx.violation("exit-status model gives %d, mypy.api.run gave %d for %s" % (m[0], status, r["name"]),
                      {"broken": "correspondence ExitStatus.exitCode vs mypy.main.main", "kind": "program", "name": r["name"],
                       "src": src, "flags": flags}, found_input=False)
    if status != truth:
        errs = [f for f, t in zip(formatted, tuples) if t[5] == "error"]
        report_capped(ctx, {"class": "exit-status", "status": status, "truth": truth,
                    "every_error_line_contains_note_marker": bool(errs) and all(NOTE_MARK in e for e in errs)},
                   "exit status %d but the truth rule gives %d (blockers=%s, error-severity messages=%d) for %s: %s"
                   % (status, truth, run["blockers"], len(errs), r["name"], errs[:1]),
                   {"kind": "program", "name": r["name"], "src": src, "flags": flags, "stdout": run["stdout"], "status": status})


# =============================================================================== main / replay
def main(ctx: Ctx) -> None:
    ctx.level = "proof"
    ctx.coverage["rule"] = ("synthetic: event streams for the Errors sink (1–3 files, ≤ 12 lines, ignore maps with bare/"
                            "coded/unknown/multiple tags, multi-line origin spans, attached notes, duplicates, only_once, "
                            "blockers, hidden, code links; every 6th stream malformed) — non-trivial = contains a report; "
                            "programs: single-file check-*.test cases that expect an error + generated programs with "
                            "caller-controlled text in messages, each run through mypy.api.run with the sink recorded, "
                            "then with ignores added / a code disabled / enabled — non-trivial = produced diagnostics; "
                            "distinct by content.")
    from translate import errorcodes, exitrule
    errorcodes.main()
    exitrule.main()
    ctx.coverage["exit_rule_recognised"] = "%s, main status computation recognised: %s" % exitrule.classify()
    proved = ctx.prove("MypyVerif.Props.C13", MODEL_FILES)
    ctx.trusted("model: Errors.report/add_error_info/is_ignored_error/is_error_code_enabled/generate_unused_ignore_errors/"
                "generate_ignore_without_code_errors/file_messages(sort, remove_duplicates, render) and main's status from count_stats; "
                "message texts are abstract identifiers (format only in Model/ExitStatus)",
                "translator translate/errorcodes.py (error-code objects, sub_code_map, original_error_codes)",
                "correspondence harness harness/c13 (in-process Errors; recorder monkeypatching add_error_info/file_messages/generate_*)",
                "origin spans and the stream of reports supplied by the checker are inputs (not modelled)",
                "not exhibited by the model: ErrorWatchers, show_error_context, --pretty/--show-column-numbers formatting, "
                "daemon clear_errors_in_targets, parallel workers' error replay")
    ctx.assume("ignore_exact / disable_code_exact are proved for streams satisfying the decidable hypotheses "
               "NoOnlyOnceCollision, BelowManyErrorsThreshold (default: threshold -1), no error-code links")
    synthetic(ctx)
    clamp_and_exit(ctx)
    real_runs(ctx, deep_modes=not proved)
    if not proved and not ctx.violations:
        ctx.violation("Lean development for C13 no longer builds", {"broken": ctx.broken_ties}, found_input=False)


def replay(ctx: Ctx, path: str) -> int:
    body = json.load(open(path))
    det = body["replay"].get("detail", body["replay"])
    kind = det.get("kind")
    if kind == "sink-stream":
        evs = det["events"]
        real, _ = sink.run_real(evs)
        model = [sink.canon_model_obs(o) for o in json.loads(ctx.lean_driver(DRIVER, [json.dumps(["stream"] + evs)])[0])]
        print("events:", json.dumps(evs))
        print("impl  :", json.dumps(real))
        print("model :", json.dumps(model))
        print("sink clauses failing on the real Errors:", json.dumps(sink.oracle_sink(evs)))
        return 0 if real == model else 1
    if kind == "pos":
        a = det["args"]
        print("Errors.report ->", real_clamp(*a), " model ->", ctx.lean_driver(DRIVER, [json.dumps(["pos"] + a)])[0])
        return 0
    if kind == "exit":
        print(ctx.lean_driver(DRIVER, [json.dumps(["exit", det["lines"], det["blockers"]])])[0])
        return 0
    if kind == "mode-run":
        work = os.path.join(ctx.tmp, "w")
        r = corpus.run_tool(work, os.path.join(work, "cache"), det["src"], det["flags"], (), det.get("summary", False))
        print("PROGRAM:\n" + det["src"])
        print("$ mypy %s%s -c PROGRAM   -> exit %d" % (" ".join(det["flags"]), "" if det.get("summary") else " --no-error-summary", r["status"]))
        print(r["stdout"] + r["stderr"])
        sev = [t[5] for t in r["rec"].raw_tuples]
        print("structured messages: severities %s, blocker=%s  => the clause demands exit %d"
              % (sev, r["rec"].blockers, 2 if r["rec"].blockers else (1 if "error" in sev else 0)))
        return 0
    if kind in ("program", "metamorphic"):
        work = os.path.join(ctx.tmp, "w")
        flags = det.get("base_flags", det.get("flags", []))

        def show(src, fl, inline=()):
            r = corpus.run_tool(work, os.path.join(work, "cache"), src, fl, inline)
            print("$ mypy %s -c PROGRAM%s   -> exit %d" % (" ".join(fl), "".join("  +`# mypy: %s`" % i for i in inline), r["status"]))
            print(r["stdout"] + r["stderr"])
        print("PROGRAM:\n" + det["src"])
        show(det["src"], flags)
        if kind == "metamorphic":
            if "annots" in det:
                print("--- with `# type: ignore[...]` added on lines %s" % json.dumps(det["annots"]))
                show(corpus.add_ignores(det["src"], {int(k): v for k, v in det["annots"].items()}), flags)
            else:
                print("--- with the code switched")
                show(det["src"], det["flags"], det.get("inline", []))
        return 0
    print(json.dumps(det, indent=1)[:4000])
    return 0
