"""Worker process of the C13 harness: `python -m harness.c13.worker tasks.json out.jsonl`.

Runs `program_task` for every task and appends one JSON line per finished program (flushed), so that the
parent can tell which program was in progress if this process dies (a few check-*.test programs crash or
explode against the real typeshed)."""
from __future__ import annotations

import json
import resource
import signal
import sys


def main() -> int:
    tasks = json.load(open(sys.argv[1]))
    from harness.c13 import run
    try:
        resource.setrlimit(resource.RLIMIT_AS, (6 << 30, 6 << 30))
    except (ValueError, OSError):
        pass

    def on_alarm(signum, frame):
        raise run._RunTimeout()
    signal.signal(signal.SIGALRM, on_alarm)
    run._ALARM = True
    with open(sys.argv[2], "a") as out:
        for a in tasks:
            try:
                r = run.mode_task(tuple(a)) if str(a[0]).startswith("modes:") else run.program_task(tuple(a))
            except BaseException as e:  # noqa: BLE001
                r = {"name": a[0], "src": a[1], "variants": [], "crash": repr(e)[:200]}
            out.write(json.dumps(r) + "\n")
            out.flush()
    return 0


if __name__ == "__main__":
    sys.exit(main())
