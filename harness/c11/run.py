"""C11 — cache serialisation is faithful in both formats.

1. Translators: translate/codec_consts.py (int-format constants and tag numbers from librt_internal.c and the
   Python modules) and translate/schemas.py (write/read codecs of every class of nodes.py/types.py/cache.py,
   JSON keys) → lean/MypyVerif/Gen/{CodecConsts,Schemas}.lean.
2. Lean: Props/C11 (dec_enc, int_roundtrip, symbolTable_bytes_perm, schemas_sub by `decide` over the
   regenerated table, schema_roundtrip, json_keys_agree, formats_same_fields, F15 refutation).
3. Correspondence
   K1 primitives: Lean enc/dec vs the real WriteBuffer/ReadBuffer built from the tree's own C sources,
      byte for byte, on boundary + random values and on malformed streams;
   K2 schemas: the bytes the real `write` methods produce for real modules/symbols are decoded with the
      extracted *read* codec and re-encoded with the extracted *write* codec by the Lean driver (must parse
      completely and reproduce the bytes); named scalar slots are compared with the real attributes.
4. Search / extended correspondence (the property's own oracle): structural round trip — every symbol of N
   typeshed modules + generated flag-toggling stubs, dumped attribute-wise fresh vs after
   write→read→fixup, in both formats; binary vs JSON; object-level flag combinations.
"""
from __future__ import annotations

import json
import os
import struct
import sys

from harness.vlib.core import Ctx, LEAN, REPO, ToolFailure

MODEL_FILES = ["MypyVerif/Model/Codec.lean", "MypyVerif/Proofs/Codec.lean", "MypyVerif/Proofs/CodecSkip.lean",
               "MypyVerif/Gen/CodecConsts.lean", "MypyVerif/Gen/Schemas.lean"]


# ------------------------------------------------------------------------------------------ set-up
def use_repo_librt(ctx: Ctx) -> str:
    """Make `librt.internal` the one compiled from $VERIF_REPO/mypyc/lib-rt (must run before mypy is imported)."""
    from harness.c11.librt_build import librt_path
    path = librt_path(REPO)
    if "librt.internal" in sys.modules or "mypy.cache" in sys.modules:
        raise ToolFailure("librt/mypy imported before the repo-built librt could be selected")
    sys.path.insert(0, path)
    import librt.internal as li
    if not os.path.abspath(li.__file__).startswith(os.path.abspath(path)):
        raise ToolFailure(f"librt.internal resolved to {li.__file__}, not to the build of the tree under check")
    ctx.coverage["librt_internal"] = li.__file__
    return path


def hx(b: bytes) -> str:
    return b.hex() if b else "-"


# ------------------------------------------------------------------------------------------ K1 primitives
def int_cases(ctx: Ctx, consts: dict[str, int]) -> list[tuple[int, str]]:
    rng = ctx.rng
    out: list[tuple[int, str]] = []
    edges = [consts[k] for k in ("MIN_ONE_BYTE_INT", "MAX_ONE_BYTE_INT", "MIN_TWO_BYTES_INT", "MAX_TWO_BYTES_INT",
                                 "MIN_FOUR_BYTES_INT", "MAX_FOUR_BYTES_INT")]
    # boundaries as the code has them *and* as the format documents them (a changed constant must not hide)
    edges += [-10, 117, -100, 16283, -10000, 536860911, 127, 128, 255, 256, 16383, 16384, 65535, 65536,
              2 ** 29 - 1, 2 ** 29, 2 ** 31 - 1, 2 ** 31, 2 ** 32, 2 ** 62 - 1, 2 ** 62, 2 ** 63 - 1, 2 ** 63, 2 ** 64]
    for e in edges:
        for d in (-2, -1, 0, 1, 2):
            out.append((e + d, "boundary"))
            out.append((-(e + d), "boundary"))
    for k in range(0, 200, 7):
        out.append((2 ** k, "power")); out.append((-(2 ** k) - 1, "power")); out.append((256 ** (k // 7 + 1) - 1, "power"))
    n = ctx.pick(1500, 20000)
    for _ in range(n):
        r = rng.random()
        if r < 0.25:
            v = rng.randint(-150, 300)
        elif r < 0.5:
            v = rng.randint(-12000, 20000)
        elif r < 0.75:
            v = rng.randint(-2 ** 31, 2 ** 31)
        else:
            v = rng.getrandbits(rng.randint(1, 300)) * rng.choice([1, -1])
        out.append((v, "random"))
    return out


def real_write(fn, v) -> bytes | None:
    from librt.internal import WriteBuffer
    w = WriteBuffer()
    try:
        fn(w, v)
    except (ValueError, OverflowError):
        return None
    return w.getvalue()


def real_read(fn, data: bytes):
    """(value, rest) or None; `rest` is recovered by reading the remaining bytes as tags"""
    from librt.internal import ReadBuffer, read_tag
    r = ReadBuffer(data)
    try:
        v = fn(r)
    except UnicodeDecodeError:
        return "unicode"
    except (ValueError, AssertionError, OverflowError):
        return None
    rest = bytearray()
    while True:
        try:
            rest.append(read_tag(r))
        except ValueError:
            break
    return v, bytes(rest)


def k1_primitives(ctx: Ctx, consts: dict[str, int]) -> None:
    import librt.internal as li
    from mypy import cache as mc
    rng = ctx.rng
    lines: list[str] = []
    expect: list[tuple[str, str, object]] = []      # (kind, expected canonical line, payload for the search)

    def add(line: str, kind: str, want: str, payload: object) -> None:
        lines.append(line); expect.append((kind, want, payload))

    # ---- ints: encode, decode(encode ++ suffix)
    for v, kind in int_cases(ctx, consts):
        b = real_write(li.write_int, v)
        add(f"EI {v}", "int-enc", b.hex() if b is not None else "REJECT", v)
        ctx.dist("int_kind", kind)
        ctx.dist("int_form", "reject" if b is None else {1: "1-byte", 2: "2-byte", 4: "4-byte"}.get(len(b), "long"))
        if b is not None:
            suffix = bytes(rng.getrandbits(8) for _ in range(rng.randint(0, 3)))
            rr = real_read(li.read_int, b + suffix)
            add(f"DI {hx(b + suffix)}", "int-dec", "err" if rr is None else f"ok {rr[0]} {hx(rr[1])}", (v, b + suffix))
    # ---- malformed / arbitrary streams through the int, str/bytes, bool, float readers
    nmal = ctx.pick(1500, 20000)
    for _ in range(nmal):
        ln = rng.choice([0, 1, 1, 2, 3, 4, 5, 6, 9, 12])
        raw = bytearray(rng.getrandbits(8) for _ in range(ln))
        if raw and rng.random() < 0.35:
            raw[0] = rng.choice([15, 15, 1, 3, 5, 7, 0xff, 0xfe, 0x0b, 0x13])
        data = bytes(raw)
        rr = real_read(li.read_int, data)
        add(f"DI {hx(data)}", "int-mal", "err" if rr is None else f"ok {rr[0]} {hx(rr[1])}", data)
        rb = real_read(li.read_bytes, data)
        add(f"DS {hx(data)}", "bytes-mal", "err" if rb is None else f"ok {hx(rb[0])} {hx(rb[1])}", data)
        if ln <= 2:
            rbo = real_read(li.read_bool, data)
            add(f"DB {hx(data)}", "bool-mal", "err" if rbo is None else f"ok {int(rbo[0])} {hx(rbo[1])}", data)
        ctx.dist("malformed_len", str(ln))
    # ---- str / bytes
    nstr = ctx.pick(400, 5000)
    alphabet = "abcXYZ_.09 é€😀\u0000"
    for i in range(nstr):
        ln = rng.choice([0, 1, 2, 116, 117, 118, 127, 128, 129, 255, 256, 16283, 16284, 16285, 70000]) if rng.random() < 0.2 \
            else rng.randint(0, 60)
        if ln > 300:
            s = "x" * ln
        else:
            s = "".join(rng.choice(alphabet) for _ in range(ln))
        payload = s.encode()
        b = real_write(li.write_str, s)
        add(f"ES {hx(payload)}", "str-enc", b.hex(), s)
        b2 = real_write(li.write_bytes, payload)
        if b2 != b:
            raise ToolFailure("write_bytes and write_str lay out the same payload differently (model assumes one layout)")
        suffix = bytes(rng.getrandbits(8) for _ in range(rng.randint(0, 2)))
        rr = real_read(li.read_str, b + suffix)
        want = "err" if rr is None else f"ok {hx(rr[0].encode())} {hx(rr[1])}"
        add(f"DS {hx(b + suffix)}", "str-dec", want, (s, suffix))
        ctx.dist("str_len", "0" if ln == 0 else "1-117" if ln <= 117 else "118-16283" if ln <= 16283 else ">16283")
    # ---- bool, float
    for bv in (False, True):
        b = real_write(li.write_bool, bv)
        rr = real_read(li.read_bool, b + b"\x07")
        add(f"DB {hx(b + bytes([7]))}", "bool", f"ok {int(rr[0])} {hx(rr[1])}", bv)
    for x in [0.0, -0.0, 1.5, -2.25, 1e308, 5e-324, float("inf"), float("-inf"), float("nan")] + \
            [struct.unpack("<d", bytes(rng.getrandbits(8) for _ in range(8)))[0] for _ in range(ctx.pick(50, 500))]:
        b = real_write(li.write_float, x)
        if b != struct.pack("<d", x):
            ctx.report({"class": "primitive-roundtrip", "primitive": "float"},
                       f"write_float({x!r}) wrote {b.hex()}, not the IEEE-754 little-endian image", {"value": repr(x)})
        rr = real_read(li.read_float, b + b"\x01")
        add(f"DF {hx(b + bytes([1]))}", "float", f"ok {hx(struct.pack('<d', rr[0]))} {hx(rr[1])}", repr(x))
    # ---- flags (mypy/cache.py write_flags / read_flags)
    for _ in range(ctx.pick(300, 3000)):
        n = rng.randint(0, 26)
        fl = [rng.random() < 0.5 for _ in range(n)]
        w = li.WriteBuffer(); mc.write_flags(w, fl); b = w.getvalue()
        assert b[0] == mc.LITERAL_INT
        packed = li.read_int(li.ReadBuffer(b[1:]))
        add("PF " + "".join("1" if f else "0" for f in fl), "flags-pack", str(packed), fl)
        got = mc.read_flags(li.ReadBuffer(b), n)
        add(f"UF {n} {packed}", "flags-unpack", "f" + "".join("1" if f else "0" for f in got), fl)
        pv = rng.choice([-1, -2, rng.getrandbits(40), -rng.getrandbits(30)])
        w = li.WriteBuffer(); mc.write_int(w, pv)
        got = mc.read_flags(li.ReadBuffer(w.getvalue()), n)
        add(f"UF {n} {pv}", "flags-unpack", "f" + "".join("1" if f else "0" for f in got), (n, pv))
        ctx.dist("flags_n", str(n))
    model = ctx.lean_driver("Driver/C11.lean", lines)
    if len(model) != len(lines):
        raise ToolFailure(f"driver returned {len(model)} lines for {len(lines)} cases")
    ndiff = 0
    for line, (kind, want, payload), got in zip(lines, expect, model):
        ctx.case(("K1", line), nontrivial=True)
        ctx.dist("k1_kind", kind)
        if want == "unicode":
            continue
        if got != want:
            ndiff += 1
            ctx.count("disagreements_checked")
            if ndiff <= 3:
                k1_search(ctx, kind, line, want, got, payload)
    ctx.count("traces_validated_against_impl", len(lines))
    ctx.coverage["k1_cases"] = len(lines)
    ctx.coverage["k1_disagreements"] = ndiff
    ctx.sample({"k1_case": lines[7], "model_and_impl": model[7]})


def k1_search(ctx: Ctx, kind: str, line: str, want: str, got: str, payload: object) -> None:
    """A primitive differs between model and C.  The property's own oracle: real read(real write(v)) == v for
    the value and its neighbours."""
    import librt.internal as li
    bad = None
    if kind.startswith("int") and isinstance(payload, (int, tuple)):
        v0 = payload if isinstance(payload, int) else payload[0]
        for d in range(-40, 41):
            v = v0 + d
            b = real_write(li.write_int, v)
            if b is None:
                continue
            rr = real_read(li.read_int, b + b"\x05")
            if rr is None or rr == "unicode" or rr[0] != v or rr[1] != b"\x05":
                bad = {"value": v, "written": b.hex(), "read_back": None if rr is None else [rr[0], rr[1].hex()]}
                break
    elif kind.startswith("str") and isinstance(payload, (str, tuple)):
        s = payload if isinstance(payload, str) else payload[0]
        b = real_write(li.write_str, s)
        rr = real_read(li.read_str, (b or b"") + b"\x05")
        if b is None or rr is None or rr == "unicode" or rr[0] != s or rr[1] != b"\x05":
            bad = {"value": s[:80], "len": len(s), "written": (b or b"")[:16].hex(), "read_back": None if not isinstance(rr, tuple) else [rr[0][:80], rr[1].hex()]}
    if bad is not None:
        ctx.report({"class": "primitive-roundtrip", "primitive": kind.split("-")[0]},
                   f"librt.internal round trip fails: wrote {bad['value']!r}, read back {bad['read_back']!r}",
                   {"case": line, "impl": want, "model": got, **bad})
    else:
        ctx.violation(f"primitive correspondence broken ({kind}): C code says '{want[:80]}', model says '{got[:80]}' "
                      f"for `{line[:80]}`; real write→read round trips on the value and its neighbours",
                      {"broken": "correspondence Driver/C11 vs librt.internal (built from the tree's C sources)",
                       "case": line, "impl": want, "model": got}, found_input=False)


# ------------------------------------------------------------------------------------------ corpus + builds
def make_corpus(ctx: Ctx) -> dict:
    from harness.c11 import corpus
    rng = ctx.rng
    root = os.path.join(ctx.tmp, "src")
    os.makedirs(root, exist_ok=True)
    if ctx.quick():
        nstd = 170
        std = list(corpus.STDLIB)
        head, tail = std[:40], std[40:]          # a fixed core + a seed-dependent selection of the rest
        rng.shuffle(tail)
        mods = head + tail[: max(0, nstd - len(head))]
    else:
        mods = corpus.all_stdlib(REPO)           # every module of the bundled typeshed stdlib (target 3.12)
    files: dict[str, str] = {"c11_all": "".join(f"import {m}\n" for m in mods) + "import mypy_extensions\n",
                             "c11_td": corpus.TD_MODULE, "c11_td_main": corpus.TD_MAIN}
    gens = []
    touch = ["c11_td_main", "c11_enum_main", "c11_ts_main"]
    files.update({"c11_enum": corpus.ENUM_MODULE, "c11_enum_main": corpus.ENUM_MAIN,
                  "c11_ts": corpus.TS_MODULE, "c11_ts_main": corpus.TS_MAIN})
    for i in range(ctx.pick(4, 24)):
        name, text = corpus.gen_module(rng, i)
        files[name] = text
        gens.append(name)
        uname, utext = corpus.gen_use(name, text, i)       # its using module: rechecked in the warm run
        files[uname] = utext
        touch.append(uname)
    name, text = corpus.gen_user(rng, gens)
    files[name] = text
    touch.append(name)
    name, text = corpus.gen_use_std(REPO, rng, mods, ctx.pick(600, 6000))
    files[name] = text
    touch.append(name)
    for m, text in files.items():
        with open(os.path.join(root, m + ".py"), "w") as f:
            f.write(text)
        if m != "c11_all":
            SOURCES[m] = text
    return {"root": root, "files": files, "stdlib": mods, "generated": gens, "touch": touch}


def run_build(ctx: Ctx, corp: dict, cache_dir: str, ff: bool, pyver: tuple[int, int] | None = None):
    from mypy import build as mbuild
    from mypy.fscache import FileSystemCache
    from mypy.modulefinder import BuildSource
    from mypy.options import Options
    o = Options()
    o.incremental = True
    o.cache_dir = cache_dir
    o.sqlite_cache = False
    o.fixed_format_cache = ff
    o.show_traceback = True
    o.mypy_path = [corp["root"]]
    o.namespace_packages = True
    if pyver or corp.get("pyver"):
        o.python_version = pyver or corp["pyver"]
    srcs = [BuildSource(os.path.join(corp["root"], m + ".py"), m, None) for m in corp["files"]]
    msgs: list[str] = []
    try:
        res = mbuild.build(srcs, o, flush_errors=lambda fn, new, serious: msgs.extend(new), fscache=FileSystemCache())
    except Exception as e:      # a crash while writing/loading the cache is a finding, not a tool failure
        import traceback
        return None, msgs + ["CRASH: " + "".join(traceback.format_exception_only(type(e), e)).strip(),
                             traceback.format_exc()[-1500:]], o
    return res, msgs, o


def canon_msgs(msgs: list[str], root: str) -> list[str]:
    return sorted(m.replace(root + os.sep, "") for m in msgs)


# ------------------------------------------------------------------------------------------ structural round trip
def classify_diff(path: str, left: str, right: str, a: object, b: object) -> dict:
    """is this difference the TypedDict key-order loss of the binary format (F15) and nothing else?"""
    return {"path": path}


def td_order_only(a, b) -> bool:
    """a, b: dumps that differ — True iff making every TypedDictType's items order-insensitive equalises them"""
    def norm(x):
        if isinstance(x, dict):
            if x.get("k") == "TypedDictType":
                y = {k: norm(v) for k, v in x.items()}
                y["items"] = sorted(y["items"], key=lambda kv: kv[0])
                return y
            return {k: norm(v) for k, v in x.items()}
        if isinstance(x, list):
            return [norm(v) for v in x]
        return x
    return norm(a) == norm(b)


SOURCES: dict[str, str] = {}      # generated module name → source text (embedded in replays)


def src_of(mod: str) -> dict | None:
    top = mod.split(".")[0]
    return {top: SOURCES[top]} if top in SOURCES else None


def compare_tables(ctx: Ctx, fmt: str, what: str, left: dict, right: dict, limit: list[int],
                   skip: set | None = None) -> set:
    """left/right: {module: dump}; reports per (module, symbol, attribute path).  Returns the (module, symbol)
    pairs that differ.  Order-only differences of TypedDict items are collected into one report."""
    from harness.c11 import dump
    differing: set = set()
    td_lost: list[dict] = []
    groups: dict[str, list[dict]] = {}

    def _at(d, pth: str):
        for part in pth.strip("/").split("/"):
            if part == "":
                continue
            try:
                d = d[int(part)] if isinstance(d, list) else d[part]
            except (KeyError, IndexError, ValueError, TypeError):
                return None
        return d
    for mod in sorted(left):
        if mod not in right:
            continue
        a, b = left[mod], right[mod]
        for key in ("fullname", "is_stub", "path", "is_partial_stub_package", "future_import_flags"):
            if a[key] != b[key]:
                ctx.report({"class": "module-attribute-differs", "format": fmt, "attribute": key},
                           f"{what}: module {mod}: {key} {a[key]!r} vs {b[key]!r}", {"module": mod})
        na, nb = a["names"], b["names"]
        for sym in sorted(set(na) | set(nb)):
            ctx.case((what, fmt, mod, sym), nontrivial=True)
            if sym not in na or sym not in nb:
                differing.add((mod, sym))
                if limit[0] > 0:
                    limit[0] -= 1
                    ctx.report({"class": "symbol-missing", "format": fmt},
                               f"{what}: {mod}.{sym} exists only {'before' if sym in na else 'after'} the round trip",
                               {"module": mod, "symbol": sym, "format": fmt})
                continue
            if na[sym] != nb[sym] and what.startswith("fresh"):
                dump.canon_pair(na[sym], nb[sym])
            if na[sym] == nb[sym]:
                continue
            differing.add((mod, sym))
            if skip and (mod, sym) in skip:
                continue
            ctx.count("disagreements_checked")
            dd = dump.diff(na[sym], nb[sym])
            path, l, r = dd[0] if dd else ("?", "", "")
            if td_order_only(na[sym], nb[sym]):
                td_lost.append({"module": mod, "symbol": sym, "attribute": path, "before": l, "after": r})
            else:
                # group by (attribute, kind of change): one report per group, with the affected symbols in the replay
                comps = [c for c in path.split("/") if c and not c.isdigit()]
                attr = comps[-1] if comps else "?"
                obs = {"class": "attribute-differs", "format": fmt, "attribute": attr}
                va, vb = _at(na[sym], path), _at(nb[sym], path)
                pa, pb = _at(na[sym], path.rsplit("/", 1)[0]), _at(nb[sym], path.rsplit("/", 1)[0])
                if isinstance(pa, list) and isinstance(pb, list) and path.rsplit("/", 1)[-1].isdigit() \
                        and sorted(map(repr, pa)) == sorted(map(repr, pb)):
                    obs["order_only"] = True
                elif isinstance(va, (bool, int, str, type(None))) and isinstance(vb, (bool, int, str, type(None))) \
                        and len(repr(va)) + len(repr(vb)) < 24:
                    obs["change"] = f"{va!r}->{vb!r}"
                groups.setdefault(json.dumps(obs, sort_keys=True), []).append(
                    {"module": mod, "symbol": sym, "attribute": path, "before": l, "after": r, "all_differences": dd[:6]})
    for key, items in list(groups.items())[: max(limit[0], 0)]:
        obs = json.loads(key)
        f0 = items[0]
        ctx.report(obs, f"{what}: {f0['module']}.{f0['symbol']} attribute {f0['attribute']}: {f0['before'][:80]} → {f0['after'][:80]}"
                        + (f" (and {len(items) - 1} more symbols with the same kind of difference)" if len(items) > 1 else ""),
                   dict(f0, format=fmt, sources=src_of(f0["module"]), others=[(i["module"], i["symbol"], i["attribute"]) for i in items[1:30]]))
    if td_lost:
        ctx.coverage.setdefault("typeddict_order_lost", {})[fmt] = len(td_lost)
        f0 = td_lost[0]
        ctx.report({"class": "typeddict-key-order", "format": fmt},
                   f"{what}: TypedDict keys come back in sorted order, declaration order lost, for {len(td_lost)} symbols, "
                   f"e.g. {f0['module']}.{f0['symbol']} ({f0['attribute']}: {f0['before'][:40]} → {f0['after'][:40]})",
                   {"format": fmt, "symbols": td_lost[:40], "sources": src_of(f0["module"])})
    return differing


def flag_coverage(ctx: Ctx, dumps: dict) -> None:
    """which serialised flags / node kinds / type kinds occur (set to True) in the corpus"""
    seen: dict[str, int] = {}
    kinds: dict[str, int] = {}

    def walk(x):
        if isinstance(x, dict):
            k = x.get("k")
            if isinstance(k, str):
                kinds[k] = kinds.get(k, 0) + 1
                fl = x.get("flags")
                if isinstance(fl, dict):
                    for f, v in fl.items():
                        key = f"{k}.{f}"
                        seen[key] = seen.get(key, 0) + (1 if v else 0)
            for v in x.values():
                walk(v)
        elif isinstance(x, list):
            for v in x:
                walk(v)
    for d in dumps.values():
        walk(d)
    ctx.coverage["kinds_in_corpus"] = dict(sorted(kinds.items()))
    ctx.coverage["flags_never_true_in_corpus"] = sorted(k for k, v in seen.items() if v == 0)
    ctx.coverage["flags_true_in_corpus"] = len([k for k, v in seen.items() if v > 0])


def determinism_search(ctx: Ctx, trees: dict, ff: bool) -> None:
    """equal interfaces ⇒ equal bytes: serialise every module, rebuild every symbol table (module and class level)
    with its entries inserted in reverse order, serialise again, compare the bytes (= the hashed data)"""
    from librt.internal import WriteBuffer
    from mypy import nodes as N
    from mypy.util import json_dumps

    def ser(t) -> bytes:
        if ff:
            w = WriteBuffer(); t.write(w); return w.getvalue()
        return json_dumps(t.serialize())

    def reverse_tables(names: N.SymbolTable, depth: int = 0) -> None:
        items = list(names.items())
        names.clear()
        for k, v in reversed(items):
            names[k] = v
        if depth < 6:
            for k, v in items:
                n = v._node if hasattr(v, "_node") else v.node
                if isinstance(n, N.TypeInfo) and n.fullname.rpartition(".")[2] == k:
                    reverse_tables(n.names, depth + 1)
    nbad = 0
    for mid, t in trees.items():
        try:
            b1 = ser(t)
            reverse_tables(t.names)
            b2 = ser(t)
        except Exception as e:
            raise ToolFailure(f"determinism search could not serialise {mid}: {type(e).__name__}: {e}")
        ctx.case(("DET", "binary" if ff else "json", mid), nontrivial=len(t.names) > 1)
        if b1 != b2:
            nbad += 1
            if nbad <= 2:
                i = next((j for j, (x, y) in enumerate(zip(b1, b2)) if x != y), min(len(b1), len(b2)))
                ctx.report({"class": "bytes-depend-on-insertion-order", "format": "binary" if ff else "json"},
                           f"module {mid}: the serialised bytes (hence the interface hash) change when the same symbols are "
                           f"inserted into the symbol tables in a different order (first difference at byte {i})",
                           {"module": mid, "format": "binary" if ff else "json", "first_difference": i,
                            "sources": src_of(mid)})
    ctx.coverage.setdefault("determinism", {})["binary" if ff else "json"] = {"modules": len(trees), "differing": nbad}


class FixupCoverage:
    """Which visitors / branches of mypy/fixup.py run while the corpus is reloaded (sys.monitoring LINE events on the
    code objects of fixup.py only; each line reports once).  The branch list comes from the AST of fixup.py."""
    TOOL = 4

    def __init__(self) -> None:
        import sys as _sys
        import mypy.fixup as fx
        self.fx = fx
        self.hit: set[int] = set()
        self.mon = _sys.monitoring
        self.active = False
        try:
            self.mon.use_tool_id(self.TOOL, "verif-c11-fixup")
        except ValueError:
            return
        self.active = True
        E = self.mon.events

        def on_line(code, line):
            self.hit.add(line)
            return self.mon.DISABLE
        self.mon.register_callback(self.TOOL, E.LINE, on_line)
        self.codes = []
        import inspect
        for obj in vars(fx).values():
            if inspect.isclass(obj) and obj.__module__ == fx.__name__:
                for f in vars(obj).values():
                    if inspect.isfunction(f):
                        self.codes.append(f.__code__)
            elif inspect.isfunction(obj) and obj.__module__ == fx.__name__:
                self.codes.append(obj.__code__)
        for c in self.codes:
            self.mon.set_local_events(self.TOOL, c, E.LINE)
        self.mon.restart_events()

    def stop(self, ctx: Ctx) -> None:
        import ast
        if not self.active:
            return
        for c in self.codes:
            self.mon.set_local_events(self.TOOL, c, 0)
        self.mon.register_callback(self.TOOL, self.mon.events.LINE, None)
        self.mon.free_tool_id(self.TOOL)
        self.active = False
        tree = ast.parse(open(self.fx.__file__).read())
        methods: dict[str, bool] = {}
        branches: dict[str, bool] = {}
        auto_exempt: set[str] = set()
        for cls in tree.body:
            funcs = [(cls.name + ".", f) for f in cls.body if isinstance(f, ast.FunctionDef)] if isinstance(cls, ast.ClassDef) \
                else ([("", cls)] if isinstance(cls, ast.FunctionDef) else [])
            for prefix, f in funcs:
                name = prefix + f.name
                first = next((st for st in f.body if not (isinstance(st, ast.Expr) and isinstance(st.value, ast.Constant))), None)
                methods[name] = first is not None and any(ln in self.hit for ln in range(first.lineno, (first.end_lineno or first.lineno) + 1))
                for node in ast.walk(f):
                    if isinstance(node, (ast.If, ast.For)):
                        kind = "if" if isinstance(node, ast.If) else "for"
                        b0 = node.body[0]
                        branches[f"{name}:{node.lineno}:{kind} {ast.unparse(node.test if kind == 'if' else node.iter)[:50]}"] = \
                            any(ln in self.hit for ln in range(b0.lineno, (b0.end_lineno or b0.lineno) + 1))
                        if isinstance(node, ast.If) and node.orelse and not (len(node.orelse) == 1 and isinstance(node.orelse[0], ast.If)):
                            e0 = node.orelse[0]
                            branches[f"{name}:{node.lineno}:else"] = any(
                                ln in self.hit for ln in range(e0.lineno, (e0.end_lineno or e0.lineno) + 1))
                            else_txt = " ".join(ast.unparse(x) for x in node.orelse)
                            if any(w in else_txt for w in ("allow_missing", "missing_info", "missing_alias")):
                                auto_exempt.add(f"{name}:{node.lineno}:else")
        # only reachable in fine-grained / daemon loads (allow_missing) or never by design (raise)
        exempt = ("allow_missing", "missing_info", "missing_alias", "visit_erased_type", "visit_partial_type",
                  "stnode is value", "stnode is not None", "not self.allow_missing")

        def is_exempt(k: str) -> bool:
            return k in auto_exempt or any(x in k for x in exempt)
        ctx.coverage["fixup_coverage"] = {
            "visitors_hit": sum(methods.values()), "visitors_total": len(methods),
            "visitors_not_hit": sorted(k for k, v in methods.items() if not v),
            "branches_hit": sum(branches.values()), "branches_total": len(branches),
            "branches_not_hit": sorted(k for k, v in branches.items() if not v and not is_exempt(k)),
            "branches_not_hit_exempt(daemon/allow_missing or unreachable)": sorted(k for k, v in branches.items() if not v and is_exempt(k)),
        }


def structural_roundtrip(ctx: Ctx, corp: dict, tag: str = "") -> dict:
    from harness.c11 import dump
    loaded: dict[str, dict] = {}
    differing: dict[str, set] = {}
    fresh_by_fmt: dict[str, dict] = {}
    info: dict = {}
    for fmt, ff in (("binary", True), ("json", False)):
        cache = os.path.join(ctx.tmp, "cache_" + fmt + tag)
        # restore the files the previous format's warm run edited
        touch = corp.get("touch", ["c11_td_main"])
        for m in touch:
            with open(os.path.join(corp["root"], m + ".py"), "w") as f:
                f.write(corp["files"][m])
        res1, msgs1, _ = run_build(ctx, corp, cache, ff)
        if res1 is None:
            ctx.report({"class": "crash", "format": fmt, "phase": "cold/write"}, f"cold build crashed ({fmt}): {msgs1[-2][:200]}",
                       {"messages": msgs1[-3:]})
            continue
        fresh = {mid: dump.module(t) for mid, t in res1.files.items()}
        fresh_by_fmt[fmt] = fresh
        nmods = len(fresh)
        if fmt == "binary":
            flag_coverage(ctx, fresh)
        if fmt == "binary":
            ctx.node_bytes = collect_node_bytes(ctx, res1.files)  # type: ignore[attr-defined]
        determinism_search(ctx, res1.files, ff)
        del res1
        for m in touch:
            with open(os.path.join(corp["root"], m + ".py"), "a") as f:
                f.write("# touched\n")
        fixcov = FixupCoverage() if fmt == "binary" and not tag else None
        res2, msgs2, _ = run_build(ctx, corp, cache, ff)
        if res2 is None:
            ctx.report({"class": "crash", "format": fmt, "phase": "warm/read"},
                       f"warm build crashed while loading the {fmt} cache: {msgs2[-2][:200]}", {"messages": msgs2[-3:]})
            continue
        rechecked = set(res2.manager.rechecked_modules)
        try:
            # this mypy loads cached trees on demand: load the remaining fresh modules the way build.py does
            # when a stale SCC needs them (process_fresh_modules = load_tree for all, then fix_cross_refs)
            from mypy.build import process_fresh_modules
            missing = [mid for mid, st in res2.graph.items() if st.tree is None and st.meta is not None]
            process_fresh_modules(res2.graph, missing, res2.manager)
            trees = {mid: st.tree for mid, st in res2.graph.items() if st.tree is not None}
            got = {mid: dump.module(t) for mid, t in trees.items() if mid not in rechecked}
        except Exception as e:
            import traceback
            ctx.report({"class": "crash", "format": fmt, "phase": "lazy-load"},
                       f"walking the reloaded symbol tables crashed ({fmt}): {type(e).__name__}: {str(e)[:200]}",
                       {"traceback": traceback.format_exc()[-2000:]})
            continue
        if fixcov is not None:
            fixcov.stop(ctx)
        loaded[fmt] = got
        info[fmt] = {"modules": nmods, "reloaded": len(got), "rechecked": sorted(rechecked),
                     "symbols": sum(len(m["names"]) for m in got.values())}
        ctx.count("traces_validated_against_impl", len(got))
        if len(got) < nmods - len(touch) - 3:
            raise ToolFailure(f"warm {fmt} run reloaded only {len(got)} of {nmods} modules: the round trip was not exercised")
        limit = [int(os.environ.get('VERIF_C11_LIMIT', '4'))]
        differing[fmt] = compare_tables(ctx, fmt, "fresh vs reloaded", {k: fresh[k] for k in got}, got, limit)
        # the property one level up: the warm run must print what the cold run printed
        c1, c2 = canon_msgs(msgs1, corp["root"]), canon_msgs(msgs2, corp["root"])
        ctx.coverage.setdefault("warm_vs_cold_messages", {})[fmt + tag] = {"cold": len(c1), "warm": len(c2),
                                                                           "using_modules": len(touch)}
        if c1 != c2:
            by_file: dict[str, tuple[list, list]] = {}
            for m in c1:
                if m not in c2:
                    by_file.setdefault(m.split(":")[0], ([], []))[0].append(m)
            for m in c2:
                if m not in c1:
                    by_file.setdefault(m.split(":")[0], ([], []))[1].append(m)
            for fn, (d1, d2) in sorted(by_file.items())[:5]:
                stem = os.path.splitext(os.path.basename(fn))[0]
                td = bool(d1 + d2) and all("TypedDict" in m for m in d1 + d2) and stem == "c11_td_main"
                ctx.report({"class": "typeddict-key-order" if td else "warm-output-differs", "format": fmt, "module": stem},
                           f"warm run ({fmt} cache) prints different messages for {fn} than the cold run: {d1[:2]} vs {d2[:2]}",
                           {"cold_only": d1[:8], "warm_only": d2[:8], "format": fmt, "using_module": stem,
                            "sources": {k: v for k, v in SOURCES.items() if k == stem or k == stem.replace("_main", "")
                                        or (stem.startswith("c11_use") and k == stem.replace("use", "gen"))}})
        del res2
    if "binary" in loaded and "json" in loaded:
        limit = [4]
        common = {k for k in loaded["binary"] if k in loaded["json"]}
        # symbols already reported against the fresh tree are not reported a second time here
        compare_tables(ctx, "binary-vs-json", "json-reloaded vs binary-reloaded",
                       {k: loaded["json"][k] for k in common}, {k: loaded["binary"][k] for k in common}, limit,
                       skip=differing.get("binary", set()) | differing.get("json", set()))
    ctx.coverage["roundtrip" + tag] = info
    return {"loaded": loaded, "fresh": fresh_by_fmt}


# ------------------------------------------------------------------------------------------ K2: schemas vs real bytes
def k2_schemas(ctx: Ctx, cache_dir: str, corp: dict) -> None:
    """The bytes the real writers produced (binary cache of the corpus) → Lean: decode with the extracted read
    codec, re-encode with the extracted write codec; must consume everything and reproduce the bytes."""
    rng = ctx.rng
    files = []
    for root, _, fns in os.walk(cache_dir):
        for fn in fns:
            if fn.endswith(".ff"):
                files.append(os.path.join(root, fn))
    files.sort()
    budget = ctx.pick(400_000, 4_000_000)
    data_files = [f for f in files if f.endswith(".data.ff")]
    # generated modules first (they contain every node/type shape), then stdlib modules in random order
    gen = [f for f in data_files if os.path.basename(f).startswith("c11_")]
    rest = [f for f in data_files if f not in gen]
    rng.shuffle(rest)
    chosen: list[tuple[str, str, bytes]] = []
    total = 0
    for f in gen + rest:
        b = open(f, "rb").read()
        if total + len(b) > budget and len(chosen) >= len(gen):
            continue
        chosen.append(("MypyFile", f, b)); total += len(b)
        meta = f[: -len(".data.ff")] + ".meta.ff"
        if os.path.exists(meta):
            chosen.append(("CacheMeta", meta, open(meta, "rb").read()[2:]))    # 2-byte version header (build.py)
        mex = f[: -len(".data.ff")] + ".meta_ex.ff"
        if os.path.exists(mex):
            chosen.append(("CacheMetaEx", mex, open(mex, "rb").read()))
    lines = [f"RT {cls} 400 {b.hex()}" for cls, _, b in chosen if b]
    chosen = [c for c in chosen if c[2]]
    out = ctx.lean_driver("Driver/C11.lean", lines, timeout=3000)
    if len(out) != len(lines):
        raise ToolFailure("driver returned %d lines for %d RT cases" % (len(out), len(lines)))
    bad = []
    for (cls, f, b), o in zip(chosen, out):
        ctx.case(("K2", cls, os.path.basename(f)), nontrivial=len(b) > 40)
        ctx.dist("k2_class", cls)
        ctx.dist("k2_size", "<1k" if len(b) < 1000 else "<10k" if len(b) < 10000 else "<100k" if len(b) < 100000 else ">=100k")
        ctx.count("traces_validated_against_impl")
        if o != f"ok used={len(b)} left=0 reenc=same":
            bad.append((cls, f, o))
    ctx.coverage["k2_bytes"] = sum(len(c[2]) for c in chosen)
    ctx.coverage["k2_objects"] = len(chosen)
    ctx.k2_bad = bad  # type: ignore[attr-defined]
    if bad:
        ctx.count("disagreements_checked", len(bad))


# ------------------------------------------------------------------------------------------ K3: extract_symbol
def collect_node_bytes(ctx: Ctx, trees: dict) -> list[tuple[str, bytes]]:
    """(module.symbol, bytes of node.write()) for the symbol nodes of the fresh trees (module and class level)"""
    from librt.internal import WriteBuffer
    from mypy import nodes as N
    out: list[tuple[str, bytes]] = []

    def visit(names, prefix: str, depth: int) -> None:
        for key, stn in names.items():
            n = stn.node
            if n is None or isinstance(n, N.MypyFile) or stn.no_serialize:
                continue
            if "." in n.fullname and n.fullname != prefix + "." + key and not (isinstance(n, N.Var) and n.from_module_getattr):
                continue
            if isinstance(n, N.TypeInfo):
                if depth < 3:
                    visit(n.names, n.fullname, depth + 1)
                continue                      # TypeInfo is read eagerly, not through extract_symbol
            try:
                w = WriteBuffer(); n.write(w)
            except Exception:
                continue
            out.append((prefix + "." + key, w.getvalue()))
    for mid, t in trees.items():
        visit(t.names, mid, 0)
    return out


def k3_extract_symbol(ctx: Ctx, nodes: list[tuple[str, bytes]]) -> None:
    """Lazy deserialisation relies on `extract_symbol` (C `_skip_class`) returning exactly the bytes of one node.
    Model (`extractSymbol`) vs C on real node bytes (+ a suffix) and on damaged copies."""
    from librt.internal import ReadBuffer, extract_symbol
    rng = ctx.rng
    nodes = list(nodes)
    rng.shuffle(nodes)
    nodes.sort(key=lambda x: len(x[1]) > 6000)       # keep the interpreter's work bounded: small nodes first
    good = nodes[: ctx.pick(500, 6000)]
    lines, expect, meta = [], [], []
    nrep = [0]

    def rep(what: str, detail: dict) -> None:
        nrep[0] += 1
        if nrep[0] <= 2:
            ctx.report({"class": "lazy-extraction-wrong"}, what, detail)
    for name, b in good:
        body = b[1:]                                   # the caller (SymbolTableNode.read) has consumed the class tag
        suffix = bytes(rng.getrandbits(8) for _ in range(rng.randint(0, 4)))
        try:
            got = extract_symbol(ReadBuffer(body + suffix))
            want = f"ok {len(got)} {len(body) + len(suffix) - len(got)}"
            if got != body:
                rep(f"extract_symbol returned {len(got)} bytes for {name}, the node occupies {len(body)}",
                    {"symbol": name, "node_bytes": b.hex()[:4000]})
        except ValueError as e:
            want = "err"
            rep(f"extract_symbol cannot skip the bytes node.write() produced for {name}: {e}",
                {"symbol": name, "node_bytes": b.hex()[:4000]})
        lines.append(f"XS 200 {(body + suffix).hex()}"); expect.append(want); meta.append(("real-node", name))
        ctx.dist("k3_node_tag", str(b[0]))
        # damaged copies: truncation, one flipped byte, one deleted byte
        if rng.random() < 0.6 and len(body) > 2:
            kind = rng.choice(["truncate", "flip", "delete"])
            bb = bytearray(body)
            pos = rng.randrange(len(bb))
            if kind == "truncate":
                bb = bb[:pos]
            elif kind == "flip":
                bb[pos] = rng.getrandbits(8)
            else:
                del bb[pos]
            data = bytes(bb)
            try:
                got = extract_symbol(ReadBuffer(data))
                want = f"ok {len(got)} {len(data) - len(got)}"
            except ValueError:
                want = "err"
            if data:
                lines.append(f"XS 200 {data.hex()}"); expect.append(want); meta.append((kind, name))
    out = ctx.lean_driver("Driver/C11.lean", lines, timeout=3000)
    if len(out) != len(lines):
        raise ToolFailure("driver returned %d lines for %d XS cases" % (len(out), len(lines)))
    nd = 0
    for ln, want, got, (kind, name) in zip(lines, expect, out, meta):
        ctx.case(("K3", ln[:300]), nontrivial=True)
        ctx.dist("k3_kind", kind)
        ctx.count("traces_validated_against_impl")
        if want != got:
            nd += 1
            ctx.count("disagreements_checked")
            if nd <= 2 and not ctx.violations:
                ctx.violation(f"extract_symbol correspondence broken on {kind} bytes of {name}: C says '{want}', model says '{got}'; "
                              "on the real node bytes extract_symbol returned exactly the node",
                              {"broken": "correspondence Driver/C11 `XS` (Model/Codec extractSymbol) vs librt.internal.extract_symbol",
                               "case": ln[:2000], "impl": want, "model": got}, found_input=False)
    ctx.coverage["k3_cases"] = len(lines)
    ctx.coverage["k3_disagreements"] = nd


# ------------------------------------------------------------------------------------------ hash-seed determinism
def hashseed_search(ctx: Ctx, corp: dict, librt_dir: str, broken: list[str]) -> None:
    """"The serialised bytes are a deterministic function of the interface": the same sources are built in child
    processes under several PYTHONHASHSEED values and every module of the build is serialised in both formats; any
    difference is reported with the module, the symbol, the two seeds and the differing field (decoded by the model
    for the binary format, by a JSON walk for the JSON format).  The sources are modules made of every set-/dict-
    valued construct of the schemas (__slots__ incl. inherited and dataclass slots, abstract attributes, protocol
    members, TypedDict required/readonly keys, enum members, __all__, __future__ flags, type variables, deletable
    attributes) plus generated feature modules and stdlib stubs that declare __slots__."""
    import subprocess
    from concurrent.futures import ThreadPoolExecutor
    from harness.c11 import corpus
    from harness.vlib.core import PY, repo_env
    rng = ctx.rng
    root = os.path.join(ctx.tmp, "hs_src")
    os.makedirs(root, exist_ok=True)
    files: dict[str, str] = {}
    ndet = ctx.pick(3, 10) + (3 if broken else 0)
    for k in range(ndet):
        name, text = corpus.gen_det_module(rng, k)
        files[name] = text
    files["c11_det_star"] = "".join(f"from c11_det{k} import *\n" for k in range(ndet))
    files["c11_det_std"] = "import statistics, uuid, io, asyncio.transports, asyncio.protocols, asyncio.events, typing_extensions\n"
    for m in ["c11_td", "c11_enum", "c11_ts"] + corp["generated"][: ctx.pick(2, 6)]:
        files[m] = corp["files"][m]
    for m, text in files.items():
        with open(os.path.join(root, m + ".py"), "w") as f:
            f.write(text)
    nseeds = ctx.pick(4, 8) + (2 if broken else 0)
    seeds = ["0"] + [str(rng.randrange(1, 4_000_000_000)) for _ in range(nseeds - 1)]
    child = os.path.join(os.path.dirname(os.path.abspath(__file__)), "hashseed_child.py")

    def run(seed: str):
        out = os.path.join(ctx.tmp, "hs_out_" + seed)
        env = repo_env({"PYTHONHASHSEED": seed})
        env["PYTHONPATH"] = librt_dir + os.pathsep + env["PYTHONPATH"]
        try:
            p = subprocess.run([PY, child, root, out] + sorted(files), env=env, capture_output=True, text=True, timeout=900,
                               cwd=ctx.tmp)
        except subprocess.TimeoutExpired:
            raise ToolFailure("hash-seed child timed out")
        if p.returncode != 0 or not os.path.exists(os.path.join(out, "index.json")):
            return seed, out, None, (p.stdout + p.stderr)[-1500:]
        return seed, out, json.load(open(os.path.join(out, "index.json"))), ""
    with ThreadPoolExecutor(max_workers=4) as ex:
        results = list(ex.map(run, seeds))
    bad = [r for r in results if r[2] is None]
    if bad:
        if len(bad) == len(results):
            raise ToolFailure("hash-seed children failed: " + bad[0][3])
        ctx.report({"class": "crash", "phase": "serialise-under-hash-seed"},
                   f"serialising the corpus fails under PYTHONHASHSEED={bad[0][0]} but not under {[r[0] for r in results if r[2]][0]}: "
                   f"{bad[0][3][-300:]}", {"hash_seed": bad[0][0], "log": bad[0][3], "sources": files})
        results = [r for r in results if r[2] is not None]
    s0, out0, idx0, _ = results[0]
    nmods = len(idx0)
    ctx.coverage["hashseed"] = {"hash_seeds": [r[0] for r in results], "modules": nmods, "generated_modules": len(files),
                                "formats": ["binary", "json"], "differing": 0}
    reported = 0
    for s1, out1, idx1, _ in results[1:]:
        for mod in sorted(idx0):
            for fmt, ext in (("binary", "bin"), ("json", "json")):
                ctx.case(("HS", fmt, mod, s1), nontrivial=True)
                ctx.dist("hashseed_cases", fmt)
                if mod not in idx1 or idx0[mod][ext] == idx1[mod][ext]:
                    continue
                ctx.coverage["hashseed"]["differing"] += 1
                ctx.count("disagreements_checked")
                if reported >= 2:
                    continue
                reported += 1
                k = 0 if fmt == "binary" else 1
                syms = [n for n, d in idx0[mod]["symbols"].items() if idx1[mod]["symbols"].get(n, [None, None])[k] != d[k]]
                a = open(os.path.join(out0, f"{mod}.{ext}"), "rb").read()
                b = open(os.path.join(out1, f"{mod}.{ext}"), "rb").read()
                off = next((j for j, (x, y) in enumerate(zip(a, b)) if x != y), min(len(a), len(b)))
                field = ""
                if fmt == "binary" and len(a) < 600_000:
                    try:
                        fd = ctx.lean_driver("Driver/C11.lean", [f"FD MypyFile 400 {a.hex()} {b.hex()}"])[0]
                        field = fd[5:] if fd.startswith("diff ") else fd
                    except ToolFailure:
                        field = ""
                elif fmt == "json":
                    from harness.c11 import dump as _dump
                    dd = _dump.diff(json.loads(a), json.loads(b))
                    field = f"{dd[0][0]} :: {dd[0][1][:80]} :: {dd[0][2][:80]}" if dd else ""
                ctx.report({"class": "bytes-depend-on-hash-seed", "format": fmt},
                           f"module {mod} serialises to different {fmt} bytes (hence a different interface hash) under "
                           f"PYTHONHASHSEED={s0} and PYTHONHASHSEED={s1}: symbol(s) {syms[:4]}, first difference at byte {off}"
                           + (f", field {field[:200]}" if field else ""),
                           {"module": mod, "format": fmt, "hash_seeds": [s0, s1], "symbols": syms[:20], "first_difference": off,
                            "field": field, "context_seed_a": repr(a[max(0, off - 24): off + 40]),
                            "context_seed_b": repr(b[max(0, off - 24): off + 40]),
                            "broken_obligations": broken, "sources": files, "modules": sorted(files)})


# ------------------------------------------------------------------------------------------ object-level flag combinations
def flag_subsets(rng, names: list[str], nrand: int) -> list[set[str]]:
    out: list[set[str]] = [set(), set(names)]
    out += [{n} for n in names]
    out += [set(names) - {n} for n in names]
    if len(names) <= 6:
        for m in range(1 << len(names)):
            out.append({n for i, n in enumerate(names) if (m >> i) & 1})
    else:
        for i in range(len(names)):
            for j in range(i + 1, len(names)):
                out.append({names[i], names[j]})
        for _ in range(nrand):
            out.append({n for n in names if rng.random() < 0.5})
    return out


def object_level(ctx: Ctx) -> None:
    """Every serialised boolean of Var / FuncDef / OverloadedFuncDef / TypeInfo / CallableType / … : singles,
    complements, all pairs (all subsets when ≤ 6 flags) and random subsets, through both formats."""
    import json as _json
    from librt.internal import ReadBuffer, WriteBuffer, read_tag
    from mypy import nodes as N, types as T
    rng = ctx.rng
    nrand = ctx.pick(60, 1500)

    def info(fullname: str) -> N.TypeInfo:
        mod, _, name = fullname.rpartition(".")
        ti = N.TypeInfo(N.SymbolTable(), N.ClassDef(name, N.Block([])), mod)
        ti._fullname = fullname
        ti.mro = [ti]
        return ti
    fn_inst = T.Instance(info("builtins.function"), [])
    tup_inst = T.Instance(info("builtins.tuple"), [T.AnyType(T.TypeOfAny.special_form)])
    td_inst = T.Instance(info("typing._TypedDict"), [])
    obj_inst = T.Instance(info("builtins.object"), [])

    def mk_var(): return N.Var("v", T.AnyType(T.TypeOfAny.explicit))

    def mk_func():
        f = N.FuncDef("f", [], N.Block([]), None)
        f._fullname = "m.f"
        return f

    def mk_ovl():
        o = N.OverloadedFuncDef([])
        o._fullname = "m.o"
        return o

    def mk_info(): return info("m.C")

    def mk_callable(): return T.CallableType([], [], [], T.NoneType(), fn_inst)

    def mk_stn(): return N.SymbolTableNode(N.GDEF, mk_var())

    def mk_alias(): return N.TypeAlias(T.NoneType(), "m.A", "m", -1, -1)

    def mk_dts(): return N.DataclassTransformSpec()

    def mk_params(): return T.Parameters([], [], [])

    def mk_tuple(): return T.TupleType([], tup_inst)

    def mk_union(): return T.UnionType([T.NoneType(), T.AnyType(T.TypeOfAny.explicit)])

    def mk_td(): return T.TypedDictType({}, set(), set(), td_inst)

    def mk_dec():
        return N.Decorator(mk_func(), [], mk_var())

    def mk_file():
        f = N.MypyFile([], [])
        f._fullname = "m"
        f.path = "m.py"
        f.names = N.SymbolTable()
        return f
    bin_only_skip = {"Var": {"is_self", "is_cls"}}
    table: list[tuple[str, object, list[str]]] = [
        ("Var", mk_var, list(N.VAR_FLAGS)),
        ("FuncDef", mk_func, list(N.FUNCDEF_FLAGS)),
        ("OverloadedFuncDef", mk_ovl, list(N.FUNCBASE_FLAGS)),
        ("TypeInfo", mk_info, list(N.TypeInfo.FLAGS) + ["has_param_spec_type"]),
        ("CallableType", mk_callable, ["is_ellipsis_args", "implicit", "is_bound", "from_concatenate",
                                       "imprecise_arg_kinds", "unpack_kwargs"]),
        ("SymbolTableNode", mk_stn, ["module_hidden", "module_public", "implicit", "plugin_generated"]),
        ("TypeAlias", mk_alias, ["no_args", "normalized", "python_3_12_type_alias"]),
        ("DataclassTransformSpec", mk_dts, ["eq_default", "order_default", "kw_only_default", "frozen_default"]),
        ("Parameters", mk_params, ["imprecise_arg_kinds"]),
        ("TupleType", mk_tuple, ["implicit"]),
        ("UnionType", mk_union, ["uses_pep604_syntax"]),
        ("TypedDictType", mk_td, ["is_closed"]),
        ("Decorator", mk_dec, ["is_overload"]),
        ("MypyFile", mk_file, ["is_stub", "is_partial_stub_package"]),
    ]
    reported: set = set()
    for cname, mk, flags in table:
        cls = getattr(N, cname, None) or getattr(T, cname)
        for sub in flag_subsets(rng, flags, nrand):
            for fmt in ("binary", "json"):
                o = mk()
                for f in flags:
                    setattr(o, f, f in sub)
                use = [f for f in flags if not (fmt == "binary" and f in bin_only_skip.get(cname, ()))]
                want = {f: getattr(o, f) for f in use}
                try:
                    if fmt == "binary":
                        w = WriteBuffer()
                        if cname == "SymbolTableNode":
                            o.write(w, "m", "v")
                        else:
                            o.write(w)
                        r = ReadBuffer(w.getvalue())
                        if cname not in ("SymbolTableNode", "MypyFile"):
                            read_tag(r)
                        o2 = cls.read(r)
                    else:
                        j = o.serialize("m", "v") if cname == "SymbolTableNode" else o.serialize()
                        o2 = cls.deserialize(_json.loads(_json.dumps(j)))
                    got = {f: getattr(o2, f) for f in use}
                except Exception as e:
                    got = {"exception": f"{type(e).__name__}: {str(e)[:120]}"}
                ctx.case(("OBJ", cname, fmt, sorted(sub)), nontrivial=bool(sub))
                ctx.dist("object_level", f"{cname}/{fmt}")
                if got != want:
                    ctx.count("disagreements_checked")
                    wrong = sorted(f for f in want if got.get(f) != want[f]) if "exception" not in got else ["exception"]
                    key = (cname, fmt, wrong[0])
                    if key in reported or len(reported) >= 4:
                        continue
                    reported.add(key)
                    ctx.report({"class": "flag-lost", "format": fmt, "node": cname, "attribute": wrong[0]},
                               f"{cname} with {sorted(sub)} set comes back through the {fmt} format with "
                               f"{wrong[0]}={got.get(wrong[0], got.get('exception'))!r} (was {want.get(wrong[0])!r})",
                               {"node": cname, "format": fmt, "set": sorted(sub), "wrong": wrong, "got": got})
    # final_value of Var: every literal kind
    for val in [None, 0, -1, 10 ** 40, True, False, "", "é", 1.5, float("inf"), 2j, -0.0]:
        for fmt in ("binary", "json"):
            v = mk_var()
            v.final_value = val
            try:
                if fmt == "binary":
                    w = WriteBuffer(); v.write(w); r = ReadBuffer(w.getvalue()); read_tag(r); v2 = N.Var.read(r)
                else:
                    if isinstance(val, complex):
                        continue            # complex is not JSON-serialisable: only the binary format carries it
                    v2 = N.Var.deserialize(_json.loads(_json.dumps(v.serialize())))
                got = v2.final_value
            except Exception as e:
                got = f"{type(e).__name__}: {e}"
            ctx.case(("OBJ", "Var.final_value", fmt, repr(val)))
            if type(got) is not type(val) or repr(got) != repr(val):
                ctx.report({"class": "value-lost", "format": fmt, "node": "Var", "attribute": "final_value"},
                           f"Var.final_value {val!r} comes back as {got!r} through the {fmt} format",
                           {"value": repr(val), "got": repr(got), "format": fmt})


# ------------------------------------------------------------------------------------------ main
def run_translators(ctx: Ctx) -> dict:
    from translate import codec_consts, schemas
    codec_consts.main()
    res = schemas.extract()
    text = schemas.render(res)
    out = os.path.join(LEAN, "MypyVerif", "Gen", "Schemas.lean")
    old = open(out).read() if os.path.exists(out) else None
    if old != text:
        with open(out, "w") as f:
            f.write(text)
    ctx.coverage["schemas"] = {"extracted": len(res["classes"]), "hand_modelled": len(res["hand"]),
                               "uncovered": res["uncovered"], "recursive_helpers": sorted(res["helpers"]),
                               "json_classes": len(res["json"]),
                               "slots_write": sum(schemas.count_slots(v["write"]) for v in res["classes"].values()),
                               "slots_read": sum(schemas.count_slots(v["read"]) for v in res["classes"].values())}
    return res


def explain_broken(res: dict) -> list[str]:
    """which generated obligation is false, in terms of (class, slot, field) — diagnostics for the replay"""
    from translate import schemas
    out = [f"schemas_sub: {k}: {v}" for k, v in schemas.diagnose(res).items()]
    for k, v in res["classes"].items():
        wf, rf = schemas.flag_names(v["write"]), schemas.flag_names(v["read"])
        if wf != rf:
            for a, b in zip(wf, rf):
                if a != b:
                    out.append(f"flag_names_agree: {k}: write_flags packs {a}, read_flags unpacks into {b}")
            if len(wf) != len(rf):
                out.append(f"flag_names_agree: {k}: {len(wf)} write_flags calls vs {len(rf)} read_flags calls")
    for k, j in res["json"].items():
        if set(j["write_keys"]) != set(j["read_keys"]):
            out.append(f"json_keys_agree: {k}: serialize writes {sorted(set(j['write_keys']) - set(j['read_keys']))} "
                       f"that deserialize does not read; deserialize reads {sorted(set(j['read_keys']) - set(j['write_keys']))} "
                       f"that serialize does not write")
        if k in res["classes"] and j.get("bin_self_attrs") is not None:
            a, b = set(j["attrs"]) | set(j["flags"]), set(j["bin_self_attrs"])
            d1 = sorted(x for x in a - b if (k, x) not in (("Var", "is_self"), ("Var", "is_cls")))
            d2 = sorted(b - a)
            if d1 or d2:
                out.append(f"formats_same_fields: {k}: JSON only {d1}, binary only {d2}")
    must = [("SymbolTable", ""), ("write_type_map", ""), ("write_json", ""), ("write_json_value", ""), ("TypeInfo", "slots"),
            ("TypedDictType", "required_keys"), ("TypedDictType", "readonly_keys"), ("ExtraAttrs", "immutable"),
            ("MypyFile", "future_import_flags")]
    have = {tuple(x) for x in res.get("iter_order", [])}
    for w, f in must:
        if (w, f, "sorted") not in have:
            out.append(f"interface_maps_sorted: {w}{'.' + f if f else ''} is no longer written by iterating sorted(...): "
                       f"{sorted(x[2] for x in have if x[0] == w and x[1] == f)}")
    # schemas_skippable: a class body must consist of tagged objects only (the C skipper walks it)
    def bare(c, in_payload=False):
        k = c[0]
        if k in ("int", "str", "bytes", "float"):
            return None if in_payload else k
        if k == "field":
            r = bare(c[2], in_payload)
            return None if r is None else f"{c[1]}:{r}"
        if k == "seq":
            prev_lit = False
            for x in c[1]:
                r = bare(x, prev_lit)
                if r is not None:
                    return r
                prev_lit = x[0] == "lit"
            return None
        if k == "list":
            return None if in_payload else "list without a LIST_* tag"
        return None
    for k, v in res["classes"].items():
        if v["tag"] and k != "MypyFile":
            b = bare(v["write"])
            if b is not None:
                out.append(f"schemas_skippable: {k}.write emits a bare (untagged) slot {b} inside the class body: "
                           f"extract_symbol/_skip_class cannot step over it")
    if res["uncovered"]:
        out.append(f"extraction_total: not normalised: {res['uncovered']}")
    return out


def main(ctx: Ctx) -> None:
    ctx.level = "proof"
    extra = os.environ.get("VERIF_C11_FINDINGS")       # builder's self-test only: entries proposed for known_findings.json
    if extra:
        ctx.findings = ctx.findings + [e for e in json.load(open(extra))["findings"] if e.get("property") == "C11"]
    ctx.coverage["rule"] = ("K1: one case = one primitive call (value or byte stream), distinct by content; "
                            "K2: one case = one serialised object (module data file, meta file or symbol node) "
                            "decoded and re-encoded by the model under the extracted schemas; "
                            "search: one case = one (module, symbol) compared attribute-wise in one format.")
    ctx.trusted(
        "model: byte layout of librt.internal (ints 1/2/4-byte + long form, str/bytes, bool, float as 8 raw bytes, tags) "
        "and the codec algebra of Model/Codec.lean; str payloads are UTF-8 byte strings (UTF-8 validation is outside the model)",
        "translators translate/codec_consts.py (constants, tags) and translate/schemas.py (ast-level extraction of the "
        "write/read codecs, field names, JSON keys, loop orders; reviewed alias list mro_refs=mro, type.fullname=alias.fullname=type_ref, "
        "node_bytes=node; `extract_symbol(data)` is read as the table of nodes.read_symbol)",
        "harness harness/c11 (librt built from the tree's C sources; in-process mypy builds; hand-written attribute dump harness/c11/dump.py)",
        "json.dumps/json.loads (orjson) as the carrier of the JSON format; PyFloat_Pack8/Unpack8 for floats",
        "reviewed exemption: Var.is_self / Var.is_cls are JSON-only flags (set on argument variables only, never serialised)")
    ctx.assume(
        "fields that are *not* serialised (line numbers, definitions, caches, FuncDef.arguments …) are outside the property; "
        "derived data (mro, info links, cross references) is compared after fix-up",
        "ints beyond 2^28 bytes and strings beyond 536860911 bytes are rejected by the writer (IntOk/StrOk side conditions)",
        "fresh-vs-reloaded comparison covers the modules of the corpus (typeshed stdlib selection + generated programs), "
        "not every program; the proofs cover every value of the extracted schemas")
    librt_dir = use_repo_librt(ctx)
    res = run_translators(ctx)
    proved = ctx.prove("MypyVerif.Props.C11", MODEL_FILES)
    sorted_broken = [w for w in explain_broken(res) if w.startswith("interface_maps_sorted")] if not proved else []
    from translate import codec_consts
    consts = codec_consts.c_defines(REPO)
    k1_primitives(ctx, consts)
    try:
        object_level(ctx)
        corp = make_corpus(ctx)
        structural_roundtrip(ctx, corp)
        k2_schemas(ctx, os.path.join(ctx.tmp, "cache_binary"), corp)
        k3_extract_symbol(ctx, getattr(ctx, "node_bytes", []))
        hashseed_search(ctx, corp, librt_dir, sorted_broken)
        if not ctx.quick():
            # the version-gated parts of typeshed: the same round trip for another target version
            from harness.c11 import corpus as _corpus
            corp2 = dict(corp, pyver=(3, 14))
            corp2["files"] = dict(corp["files"], c11_all="".join(f"import {m}\n" for m in _corpus.all_stdlib(REPO, (3, 14))))
            with open(os.path.join(corp["root"], "c11_all.py"), "w") as f:
                f.write(corp2["files"]["c11_all"])
            structural_roundtrip(ctx, corp2, tag="_py314")
    except ToolFailure as e:
        if not ctx.violations:
            raise
        # concrete failures of the property were already reported; a later stage could not run on this tree
        ctx.coverage["stage_not_run"] = str(e)[:300]
        print(f"  (later stage not run: {str(e)[:200]})", flush=True)
    for cls, f, o in getattr(ctx, "k2_bad", [])[:3]:
        if not ctx.violations:
            ctx.violation(f"the extracted schema of {cls} does not describe the bytes the real writer produced for "
                          f"{os.path.basename(f)} (model says: {o}); the structural round trip of the same modules found nothing",
                          {"broken": "correspondence Driver/C11 `RT` (Gen/Schemas) vs real cache file", "file": os.path.basename(f),
                           "class": cls, "model": o}, found_input=False)
    if not proved:
        why = explain_broken(res)
        ctx.coverage["broken_obligations"] = why
        print("  broken obligations: " + (" | ".join(why)[:1500] if why else "(none of the generated tables; see build log)"), flush=True)
        if not ctx.violations:
            ctx.violation("a proof obligation of C11 no longer holds (" + ("; ".join(why)[:600] if why else "Lean build failed") +
                          "); the round-trip searches found no concrete failing input",
                          {"broken": ctx.broken_ties, "obligations": why}, found_input=False)


def replay_symbol(ctx: Ctx, det: dict) -> int:
    """rebuild cold + warm for the one module (its source is in the replay when it was generated) and print the
    symbol's dump before / after the round trip in the recorded format"""
    from harness.c11 import corpus, dump
    fmt = det.get("format", "binary")
    fmts = ["binary", "json"] if fmt == "binary-vs-json" else [fmt]
    mod = det["module"]
    root = os.path.join(ctx.tmp, "src")
    os.makedirs(root, exist_ok=True)
    files = {"c11_td": corpus.TD_MODULE, "c11_td_main": corpus.TD_MAIN, "c11_all": f"import {mod}\n"}
    for m, text in (det.get("sources") or {}).items():
        files[m] = text
    for m, text in files.items():
        with open(os.path.join(root, m + ".py"), "w") as f:
            f.write(text)
    corp = {"root": root, "files": files}
    rc = 0
    for fm in fmts:
        cache = os.path.join(ctx.tmp, "cache_" + fm)
        res1, msgs1, _ = run_build(ctx, corp, cache, fm == "binary")
        a = dump.module(res1.files[mod])["names"].get(det.get("symbol", ""))
        with open(os.path.join(root, "c11_td_main.py"), "a") as f:
            f.write("# touched\n")
        res2, msgs2, _ = run_build(ctx, corp, cache, fm == "binary")
        from mypy.build import process_fresh_modules
        missing = [mid for mid, st in res2.graph.items() if st.tree is None and st.meta is not None]
        process_fresh_modules(res2.graph, missing, res2.manager)
        b = dump.module(res2.graph[mod].tree)["names"].get(det.get("symbol", ""))
        dd = dump.diff(a, b)
        print(f"[{fm}] {mod}.{det.get('symbol')}: {len(dd)} differing attribute(s) after write→read→fixup")
        for pth, l, r in dd[:10]:
            print(f"   {pth}: {l}  →  {r}")
        c1, c2 = canon_msgs(msgs1, root), canon_msgs(msgs2, root)
        if c1 != c2:
            print("   cold run printed:", [m for m in c1 if m not in c2][:4])
            print("   warm run printed:", [m for m in c2 if m not in c1][:4])
        if dd or c1 != c2:
            rc = 1
    return rc


def replay_messages(ctx: Ctx, det: dict) -> int:
    """cold run, touch the using module, warm run: print the messages that differ"""
    fmt = det.get("format", "binary")
    root = os.path.join(ctx.tmp, "src")
    os.makedirs(root, exist_ok=True)
    files = dict(det.get("sources") or {})
    use = det["using_module"]
    if use not in files:
        print("the replay does not contain the source of", use)
        return 2
    for m, text in files.items():
        with open(os.path.join(root, m + ".py"), "w") as f:
            f.write(text)
    corp = {"root": root, "files": files}
    cache = os.path.join(ctx.tmp, "cache_" + fmt)
    _, msgs1, _ = run_build(ctx, corp, cache, fmt == "binary")
    with open(os.path.join(root, use + ".py"), "a") as f:
        f.write("# touched\n")
    _, msgs2, _ = run_build(ctx, corp, cache, fmt == "binary")
    c1, c2 = canon_msgs(msgs1, root), canon_msgs(msgs2, root)
    print(f"[{fmt}] cold run only:", *[m for m in c1 if m not in c2][:10], sep="\n   ")
    print(f"[{fmt}] warm run only:", *[m for m in c2 if m not in c1][:10], sep="\n   ")
    return 1 if c1 != c2 else 0


def replay(ctx: Ctx, path: str) -> int:
    body = json.load(open(path))
    rep = body.get("replay", {})
    obs = rep.get("observed", {})
    det = rep.get("detail", rep)
    print("what:", body.get("what"))
    if not body.get("failing_input_found", True):
        print("no failing input was found; broken tie:", json.dumps(det, indent=1)[:3000])
        return 1
    librt_dir = use_repo_librt(ctx)
    cls = obs.get("class")
    if cls == "bytes-depend-on-hash-seed":
        import subprocess
        from harness.vlib.core import PY, repo_env
        root = os.path.join(ctx.tmp, "hs_src")
        os.makedirs(root, exist_ok=True)
        for m, text in det["sources"].items():
            with open(os.path.join(root, m + ".py"), "w") as f:
                f.write(text)
        child = os.path.join(os.path.dirname(os.path.abspath(__file__)), "hashseed_child.py")
        ext = "bin" if det["format"] == "binary" else "json"
        dig = {}
        for seed in det["hash_seeds"]:
            out = os.path.join(ctx.tmp, "hs_out_" + seed)
            env = repo_env({"PYTHONHASHSEED": seed})
            env["PYTHONPATH"] = librt_dir + os.pathsep + env["PYTHONPATH"]
            subprocess.run([PY, child, root, out] + sorted(det["sources"]), env=env, cwd=ctx.tmp, timeout=900, check=True,
                           capture_output=True)
            dig[seed] = json.load(open(os.path.join(out, "index.json")))[det["module"]][ext]
            print(f"PYTHONHASHSEED={seed}: sha256({det['module']} {det['format']} data) = {dig[seed]}")
        same = len(set(dig.values())) == 1
        print("bytes are " + ("identical" if same else f"different (recorded field: {det.get('field')})"))
        return 0 if same else 1
    if cls == "primitive-roundtrip":
        import librt.internal as li
        v = det.get("value")
        if isinstance(v, int):
            b = real_write(li.write_int, v)
            print("write_int", v, "→", b.hex() if b else None, "→ read_int →", real_read(li.read_int, b or b""))
        else:
            print(json.dumps(det, indent=1))
        return 1
    if cls in ("flag-lost", "value-lost"):
        class _C(Ctx):
            pass
        sub = Ctx(ctx.prop, ctx.tier, body.get("seed", 0))
        sub.findings = []
        object_level(sub)
        for w, _ in sub.violations:
            if det.get("node", "") in w:
                print("reproduced:", w)
        return 1 if sub.violations else 0
    if cls == "lazy-extraction-wrong":
        from librt.internal import ReadBuffer, extract_symbol
        b = bytes.fromhex(det["node_bytes"])
        try:
            got = extract_symbol(ReadBuffer(b[1:]))
            print(f"{det['symbol']}: node.write() produced {len(b) - 1} bytes after the tag, extract_symbol returned {len(got)}")
            return 0 if got == b[1:] else 1
        except ValueError as e:
            print(f"{det['symbol']}: extract_symbol raises {e!r} on the bytes node.write() produced")
            return 1
    if cls == "bytes-depend-on-insertion-order":
        from harness.c11 import corpus
        root = os.path.join(ctx.tmp, "src")
        os.makedirs(root, exist_ok=True)
        files = {"c11_td": corpus.TD_MODULE, "c11_td_main": corpus.TD_MAIN, "c11_all": f"import {det['module']}\n"}
        files.update(det.get("sources") or {})
        for m, text in files.items():
            with open(os.path.join(root, m + ".py"), "w") as f:
                f.write(text)
        ff = det.get("format", "binary") == "binary"
        res1, _, _ = run_build(ctx, {"root": root, "files": files}, os.path.join(ctx.tmp, "cache"), ff)
        sub = Ctx(ctx.prop, ctx.tier, body.get("seed", 0))
        sub.findings = []
        determinism_search(sub, {det["module"]: res1.files[det["module"]]}, ff)
        return 1 if sub.violations else 0
    if cls == "warm-output-differs" and det.get("using_module") and det.get("sources"):
        return replay_messages(ctx, det)
    if cls in ("attribute-differs", "symbol-missing", "typeddict-key-order", "warm-output-differs", "crash") :
        if "module" not in det and det.get("symbols"):
            det = dict(det["symbols"][0], format=det.get("format", "binary"), sources=det.get("sources"))
        if "module" not in det:
            det = {"module": "c11_td", "symbol": "TD", "format": det.get("format", "binary"), "sources": det.get("sources")}
        return replay_symbol(ctx, det)
    print(json.dumps(body, indent=1)[:4000])
    return 1
