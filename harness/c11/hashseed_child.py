"""Child of the hash-seed determinism search (run under a given PYTHONHASHSEED, mypy from $VERIF_REPO).

usage: hashseed_child.py <src root> <out dir> <module> [<module> …]
Builds the modules cold (no cache), then serialises every module of the build in both formats the way
build.write_cache does (tree.write → bytes; json_dumps(tree.serialize())) and, per top-level symbol, the
SymbolTableNode alone.  Writes <out>/<mod>.bin, <out>/<mod>.json and <out>/index.json with sha256 digests.
"""
from __future__ import annotations

import hashlib
import json
import os
import sys


def main() -> int:
    root, out = sys.argv[1], sys.argv[2]
    mods = sys.argv[3:]
    from librt.internal import WriteBuffer
    from mypy import build as mbuild
    from mypy.fscache import FileSystemCache
    from mypy.modulefinder import BuildSource
    from mypy.options import Options
    from mypy.util import json_dumps
    o = Options()
    o.incremental = False
    o.cache_dir = os.devnull
    o.mypy_path = [root]
    o.namespace_packages = True
    srcs = [BuildSource(os.path.join(root, m + ".py"), m, None) for m in mods]
    res = mbuild.build(srcs, o, flush_errors=lambda *a: None, fscache=FileSystemCache())
    os.makedirs(out, exist_ok=True)
    index: dict[str, dict] = {}
    for mid, tree in res.files.items():
        w = WriteBuffer()
        tree.write(w)
        b = w.getvalue()
        j = json_dumps(tree.serialize())
        with open(os.path.join(out, mid + ".bin"), "wb") as f:
            f.write(b)
        with open(os.path.join(out, mid + ".json"), "wb") as f:
            f.write(j)
        syms: dict[str, list[str]] = {}
        for key in sorted(tree.names):
            stn = tree.names[key]
            if key == "__builtins__" or stn.no_serialize:
                continue
            try:
                ws = WriteBuffer()
                stn.write(ws, mid, key)
                sb = hashlib.sha256(ws.getvalue()).hexdigest()[:16]
                sj = hashlib.sha256(json_dumps(stn.serialize(mid, key))).hexdigest()[:16]
            except Exception as e:          # never let one symbol hide the rest
                sb = sj = "error:" + type(e).__name__
            syms[key] = [sb, sj]
        index[mid] = {"bin": hashlib.sha256(b).hexdigest(), "json": hashlib.sha256(j).hexdigest(), "symbols": syms}
    with open(os.path.join(out, "index.json"), "w") as f:
        json.dump(index, f)
    return 0


if __name__ == "__main__":
    sys.exit(main())
