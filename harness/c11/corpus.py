"""Generated programs that exercise every serialised flag / shape of Var, FuncDef, OverloadedFuncDef, TypeInfo,
TypeAlias, TypeVar-likes and the Type subclasses.  Everything derives from the rng handed in."""
from __future__ import annotations

import random

STDLIB = [
    "os", "collections", "typing", "asyncio", "dataclasses", "enum", "re", "json", "email.message", "http.client",
    "unittest.mock", "argparse", "decimal", "sqlite3", "tkinter", "xml.dom.minidom", "concurrent.futures", "ctypes",
    "logging", "pathlib", "ast", "typing_extensions", "functools", "contextlib", "numbers", "fractions", "statistics",
    "csv", "socket", "ssl", "subprocess", "threading", "multiprocessing", "queue", "inspect", "types", "abc", "io",
    "struct", "array", "datetime", "zoneinfo", "uuid", "ipaddress", "urllib.request", "html.parser",
    "xml.etree.ElementTree", "tempfile", "shutil", "glob", "zipfile", "tarfile", "hashlib", "hmac", "secrets",
    "random", "heapq", "bisect", "itertools", "operator", "pickle", "shelve", "copy", "pprint", "textwrap", "string",
    "difflib", "unicodedata", "codecs", "locale", "gettext", "calendar", "time", "sched", "signal", "select",
    "selectors", "mmap", "curses", "readline", "cmd", "shlex", "configparser", "tomllib", "netrc", "plistlib", "wave",
    "colorsys", "turtle", "importlib.metadata", "importlib.resources", "email.mime.text", "http.server", "ftplib",
    "smtplib", "imaplib", "poplib", "telnetlib" if False else "sysconfig", "xmlrpc.client", "wsgiref.simple_server",
    "venv", "zipapp", "tracemalloc", "trace", "timeit", "pdb", "profile", "cProfile", "pstats", "doctest", "unittest",
    "lib2to3" if False else "graphlib", "dis", "code", "codeop", "symtable", "tokenize", "token", "keyword",
    "compileall", "py_compile", "pyclbr", "tabnanny", "site", "sys", "builtins", "warnings", "weakref", "gc",
    "atexit", "traceback", "__future__", "contextvars", "concurrent.futures.thread", "multiprocessing.pool",
    "multiprocessing.managers", "asyncio.subprocess", "asyncio.streams", "ctypes.util", "curses.ascii",
    "dbm", "encodings.utf_8", "json.decoder", "logging.handlers", "logging.config", "os.path", "urllib.parse",
    "urllib.error", "xml.sax", "xml.dom", "zoneinfo", "tkinter.ttk", "sqlite3.dbapi2", "email.utils",
    "email.parser", "email.policy", "html", "http.cookies", "http.cookiejar", "getpass", "getopt", "optparse",
    "fileinput", "filecmp", "fnmatch", "linecache", "stat", "platform", "errno", "faulthandler", "resource",
    "pwd", "grp", "termios", "tty", "pty", "fcntl", "posix", "syslog", "zlib", "gzip", "bz2", "lzma", "base64",
    "binascii", "quopri", "mimetypes", "mailbox", "socketserver", "ssl", "uuid", "webbrowser", "cmath", "math",
    "enum", "reprlib", "types", "copyreg", "marshal", "runpy", "pkgutil", "modulefinder", "zipimport", "ensurepip",
]
STDLIB = list(dict.fromkeys(STDLIB))



def all_stdlib(repo: str, version: tuple[int, int] = (3, 12)) -> list[str]:
    """every module of the bundled typeshed stdlib that exists for `version` (typeshed/stdlib/VERSIONS)"""
    import os
    root = os.path.join(repo, "mypy", "typeshed", "stdlib")
    ranges: dict[str, tuple[tuple[int, int], tuple[int, int]]] = {}
    for line in open(os.path.join(root, "VERSIONS")):
        line = line.split("#")[0].strip()
        if not line:
            continue
        mod, rng = [x.strip() for x in line.split(":")]
        lo, _, hi = rng.partition("-")
        lo_t = tuple(int(x) for x in lo.split("."))
        hi_t = tuple(int(x) for x in hi.split(".")) if hi else (99, 99)
        ranges[mod] = (lo_t, hi_t)  # type: ignore[assignment]

    def ok(mod: str) -> bool:
        parts = mod.split(".")
        for i in range(len(parts), 0, -1):
            r = ranges.get(".".join(parts[:i]))
            if r is not None:
                return r[0] <= version <= r[1]
        return False
    mods = []
    for dirpath, dirs, files in os.walk(root):
        dirs[:] = sorted(d for d in dirs if not d.startswith("@") and d != "__pycache__")
        rel = os.path.relpath(dirpath, root)
        pkg = [] if rel == "." else rel.split(os.sep)
        for fn in sorted(files):
            if not fn.endswith(".pyi"):
                continue
            name = fn[:-4]
            parts = pkg + ([] if name == "__init__" else [name])
            if not parts:
                continue
            mod = ".".join(parts)
            if ok(mod) and all(p.isidentifier() for p in parts):
                mods.append(mod)
    return mods


TD_MODULE = '''\
from typing import TypedDict, NotRequired
from typing_extensions import ReadOnly
class TD(TypedDict):
    zeta: int
    alpha: str
class TD2(TD, total=False):
    mid: NotRequired[bytes]
    beta: ReadOnly[float]
def f() -> TD: ...
def g(x: TD2) -> None: ...
'''
TD_MAIN = '''\
from c11_td import f, TD2
reveal_type(f())
def h(x: TD2) -> None:
    reveal_type(x)
'''


def gen_module(rng: random.Random, idx: int) -> tuple[str, str]:
    """(module name, source).  Each feature is toggled by the rng; names are unique per module."""
    r = rng.random
    L: list[str] = [
        "from __future__ import annotations" if r() < 0.5 else "",
        "import abc, enum, dataclasses, types, typing, sys",
        "from typing import (Any, Callable, ClassVar, Final, Generic, Literal, NamedTuple, NewType, Optional, overload,",
        "    Protocol, runtime_checkable, TypeVar, ParamSpec, TypeVarTuple, Unpack, Concatenate, TypedDict, Self,",
        "    TypeGuard, Awaitable, Iterator, AsyncIterator, final, Union, Type, Tuple, Required, NotRequired)",
        "from typing_extensions import TypeIs, deprecated, dataclass_transform, disjoint_base" if r() < 0.9 else
        "from typing_extensions import TypeIs, deprecated, dataclass_transform",
        "",
        "T = TypeVar('T')",
        "TB = TypeVar('TB', bound=int)" if r() < 0.7 else "TB = TypeVar('TB', int, str)",
        "TC = TypeVar('TC', covariant=True)",
        "TD_ = TypeVar('TD_', default=int)" if r() < 0.6 else "TD_ = TypeVar('TD_', contravariant=True)",
        "P = ParamSpec('P')",
        "Ts = TypeVarTuple('Ts')",
        "",
    ]
    # module-level variables
    L += [
        f"x_int: int = {rng.randint(-3, 10 ** rng.randint(0, 30))}",
        f"X_FINAL: Final = {rng.choice(['3', repr('s'), 'True', '2.5', '10**40', '1j', '-7'])}",
        "x_inferred = [1, 2]" if r() < 0.8 else "x_inferred = {'a': 1}",
        "x_opt: Optional[Tuple[int, ...]] = None",
        "x_lit: Literal[1, 'a', True, b'b'] = 1" if r() < 0.7 else "x_lit: Literal[-5] = -5",
        "x_call: Callable[..., int]" if r() < 0.5 else "x_call: Callable[[int, str], None]",
        "x_type: Type[int] | type[str] | None = None",
        "x_union: Union[int, str, None] = None" if r() < 0.5 else "x_union: int | str | None = None",
        "x_tuple: tuple[int, str, Unpack[tuple[float, ...]]] = (1, '', 1.0)" if r() < 0.5 else "x_tuple: tuple[()] = ()",
        "Alias = dict[str, list[T]]" if r() < 0.7 else "Alias = Optional[T]",
        "Alias2 = Alias[int]",
        "AliasNoArgs = list" if r() < 0.5 else "AliasNoArgs = dict",
        "NT = NewType('NT', int)",
        "",
    ]
    if r() < 0.6:
        L += ["type Alias312[K] = dict[K, list[K]]", "type AliasRec = list[AliasRec] | int", ""]
    # functions
    L += [
        "def f_plain(a: int, /, b: str = '', *c: float, d: bool, **e: Any) -> None: ...",
        "def f_body(a, b=1):\n    return a" if r() < 0.7 else "def f_body(a):\n    pass",
        "def f_gen(n: int) -> Iterator[int]:\n    yield n",
        "async def f_coro(n: int) -> int:\n    return n",
        "async def f_agen(n: int) -> AsyncIterator[int]:\n    yield n",
        "@types.coroutine\ndef f_awaitable(n: int) -> typing.Generator[int, None, None]:\n    yield n",
        "def f_guard(x: object) -> TypeGuard[int]: ...",
        "def f_is(x: object) -> TypeIs[str]: ...",
        "def f_generic(x: T, *a: Unpack[Ts]) -> tuple[T, Unpack[Ts]]: ...",
        "def f_pspec(f: Callable[Concatenate[int, P], T]) -> Callable[P, T]: ...",
        "@deprecated('old')\ndef f_deprecated() -> None: ...",
        "@overload\ndef f_over(x: int) -> int: ...\n@overload\ndef f_over(x: str) -> str: ...\ndef f_over(x): return x",
        "if sys.version_info >= (3, 0):\n    def f_cond() -> int: ...\nelse:\n    def f_cond() -> str: ...",
        "if x_int:\n    def f_cond2() -> int: return 1\nelse:\n    def f_cond2() -> int: return 2",
        "for idx_var in range(3):\n    pass",
        "def deco(f: T) -> T: return f",
        "@deco\ndef f_decorated(a: int) -> str: ...",
        "class KW(TypedDict):\n    b: int\n    a: str",
        "def f_unpack_kw(**kw: Unpack[KW]) -> None: ...",
        "@dataclass_transform(kw_only_default=%s, field_specifiers=(dataclasses.field,))\ndef dt(cls: T) -> T: return cls" % rng.choice(["True", "False"]),
        "",
    ]
    # classes
    keys = ["zulu", "alpha", "mike", "bravo", "yankee", "charlie"]
    rng.shuffle(keys)
    nk = rng.randint(2, 5)
    L += ["class TDict(TypedDict, total=%s):" % rng.choice(["True", "False"])]
    for kname in keys[:nk]:
        L.append(f"    {kname}: {rng.choice(['int', 'str', 'Required[bytes]', 'NotRequired[float]', 'list[int]'])}")
    L += [
        "",
        "class Base(abc.ABC):" if r() < 0.7 else "class Base(metaclass=abc.ABCMeta):",
        "    cv: ClassVar[int] = 1",
        "    attr: int",
        "    attr_init = 3",
        "    FIN: Final = 1" if r() < 0.6 else "    FIN: Final[int]",
        "    def __init__(self) -> None:\n        self.inst_attr = 'x'\n        self.FIN2: Final = 2" + ("\n        self.FIN = 5" if "FIN: Final[int]" in L[-1] else ""),
        "    @abc.abstractmethod\n    def am(self) -> int: ...",
        "    @property\n    @abc.abstractmethod\n    def aprop(self) -> int: ...",
        "    @property\n    def prop(self) -> int: return 1",
        "    @prop.setter\n    def prop(self, v: int | str) -> None: ..." if r() < 0.7 else "    def other(self) -> None: ...",
        "    @classmethod\n    def cm(cls) -> Self: ...",
        "    @staticmethod\n    def sm(x: int) -> int: ...",
        "    @final\n    def fm(self) -> None: ...",
        "    def trivial_self(self) -> Self: return self",
        "    def explicit_self(self: T) -> T: return self",
        "    @overload\n    def om(self, x: int) -> int: ...\n    @overload\n    def om(self, x: str) -> str: ...\n    def om(self, x): return x",
        "    @deco\n    def dm(self) -> int: ...",
        "",
        "class Child(Base):",
        "    attr = 5",
        "    def am(self) -> int: return 1",
        "    @property\n    def aprop(self) -> int: return 2",
        "    __slots__ = ('s1', 's2')" if r() < 0.5 else "    pass",
        "",
        "@final\nclass Fin: ...",
        "class AnyBase(Any): ..." if r() < 0.8 else "class AnyBase: ...",
        "class Meta(type): ...",
        "class AnyMeta(Any, type): ...\nclass WithAnyMeta(metaclass=AnyMeta): ...",
        "class FinInit:\n    FI: Final[int]\n    def __init__(self) -> None:\n        self.FI = 1",
        "class FinOver:\n    @overload\n    def m(self, x: int) -> int: ...\n    @overload\n    def m(self, x: str) -> str: ...\n    @final\n    def m(self, x): return x",
        "class WithMeta(metaclass=Meta): ...",
        "class Gen(Generic[T, P, Unpack[Ts]]):\n    def m(self, x: T, f: Callable[P, int]) -> tuple[Unpack[Ts]]: ...",
        "class GenDefault(Generic[TD_]):\n    x: TD_" if "default" in L[10] else "class GenDefault(Generic[TC]): ...",
        "@runtime_checkable\nclass Proto(Protocol):\n    def pm(self) -> int: ..." if r() < 0.7 else "class Proto(Protocol):\n    x: int",
        "class Color(enum.Enum):\n    RED = 1\n    GREEN = 'g'\n    def describe(self) -> str: return ''",
        "class Flag(enum.IntFlag):\n    A = 1\n    B = 2",
        "class NTup(NamedTuple):\n    a: int\n    b: str = ''",
        "@dataclasses.dataclass(%s)\nclass DC:\n    x: int\n    y: str = ''\n    z: list[int] = dataclasses.field(default_factory=list)" %
        rng.choice(["", "frozen=True", "order=True", "slots=True", "kw_only=True"]),
        "@dt\nclass DTC:\n    q: int",
        "@deprecated('cls old')\nclass Dep: ...",
        "class Nested:\n    class Inner:\n        v: int = 0\n        class Deeper:\n            w: str = ''",
        "class TupleSub(tuple[int, str]): ...",
        "class GenP(Generic[P]):\n    def call(self, *a: P.args, **k: P.kwargs) -> None: ...",
        "x_params: GenP[[int, str]]",
        "x_params2: Gen[int, [str, bytes], float, bool]",
        "import colorsys as _colorsys\nmod_var = _colorsys",
        "x_del = 1\ndel x_del",
        # variadic generics over every special class form (their implicit alias / type-var bookkeeping is recomputed on load)
        "class VPacket(TypedDict, Generic[T, Unpack[Ts]]):\n    tag: T\n    payload: Tuple[Unpack[Ts]]",
        "class VRow(NamedTuple, Generic[T, Unpack[Ts]]):\n    key: T\n    cells: Tuple[Unpack[Ts]]",
        "class VTup(Tuple[T, Unpack[Ts]], Generic[T, Unpack[Ts]]): ...",
        "class VCls(Generic[T, Unpack[Ts]]):\n    def get(self) -> Tuple[T, Unpack[Ts]]: ...",
        "class VTD1(TypedDict, Generic[T]):\n    item: T",
        "class VNT1(NamedTuple, Generic[T]):\n    item: T",
        "class PromoteLike(int): ...",
        "",
        "def __getattr__(name: str) -> Any: ..." if r() < 0.5 else "",
    ]
    if "disjoint_base" in L[5] and r() < 0.7:
        L += ["@disjoint_base\nclass DB: ...", ""]
    name = f"c11_gen{idx}"
    return name, "\n".join(x for x in L if x is not None) + "\n"


ENUM_MODULE = '''\
import enum
class Color(enum.Enum):
    RED = 1
    GREEN = 2
    BLUE = 3
'''
ENUM_MAIN = '''\
from c11_enum import Color
def f(c: Color) -> None:
    if c is Color.GREEN:
        return
    reveal_type(c)
'''
TS_MODULE = '''\
from typing import Any, Callable, TypeVar, overload
S = TypeVar("S")
def selfish(f: Callable[..., Any]) -> Callable[[S, int], S]: ...
class A:
    @overload
    @selfish
    def m(self, x: int) -> int: ...
    @overload
    def m(self, x: str) -> str: ...
    def m(self, x: Any) -> Any: ...
'''
TS_MAIN = '''\
from c11_ts import A
reveal_type(A().m(1))
reveal_type(A().m)
'''


def gen_det_module(rng: random.Random, idx: int) -> tuple[str, str]:
    """A module made of the constructs whose serialised form comes from a set or a dict (iteration order must not
    reach the bytes): __slots__ (2–6 names, inherited, slots dataclass), abstract attributes, protocol members,
    TypedDict required/readonly keys, enum members, __all__, several __future__ flags, dataclass metadata,
    several type variables, deletable attributes."""
    def names(k: int, prefix: str) -> list[str]:
        out: list[str] = []
        while len(out) < k:
            n = prefix + "".join(rng.choice("abcdefghijklmnopqrstuvwxyz") for _ in range(rng.randint(1, 9)))
            if n not in out:
                out.append(n)
        return out
    L = ["from __future__ import annotations, division, generator_stop",
         "import abc, enum, dataclasses",
         "from typing import Generic, NamedTuple, Protocol, TypedDict, TypeVar, Required, NotRequired, ClassVar, Final",
         "from typing_extensions import ReadOnly",
         "A = TypeVar('A'); B = TypeVar('B'); C = TypeVar('C'); D = TypeVar('D')", ""]
    exported: list[str] = []
    for c in range(rng.randint(3, 5)):
        k = rng.randint(2, 6)
        sl = names(k, "s")
        L.append(f"class Slots{c}:\n    __slots__ = ({', '.join(repr(x) for x in sl)},)")
        more = names(rng.randint(2, 4), "t")
        L.append(f"class SlotsSub{c}(Slots{c}):\n    __slots__ = ({', '.join(repr(x) for x in more)},)")
        exported += [f"Slots{c}", f"SlotsSub{c}"]
    fields = names(rng.randint(3, 6), "f")
    L.append("@dataclasses.dataclass(slots=True)\nclass SlotDC:\n" + "\n".join(f"    {f}: int = 0" for f in fields))
    ab = names(rng.randint(3, 6), "m")
    L.append("class Abs(abc.ABC):\n" + "\n".join(f"    @abc.abstractmethod\n    def {m}(self) -> int: ..." for m in ab)
             + "\n    @property\n    @abc.abstractmethod\n    def aprop(self) -> int: ...")
    L.append("class AbsChild(Abs):\n    def " + ab[0] + "(self) -> int: return 1")
    pm = names(rng.randint(3, 6), "p")
    L.append("class Proto(Protocol):\n" + "\n".join(f"    def {m}(self) -> int: ..." for m in pm) + "\n    attr: int")
    keys = names(rng.randint(4, 7), "k")
    L.append("class TD(TypedDict, total=False):\n" + "\n".join(
        f"    {k}: {rng.choice(['Required[int]', 'NotRequired[str]', 'ReadOnly[bytes]', 'Required[ReadOnly[float]]', 'int'])}" for k in keys))
    em = names(rng.randint(3, 7), "E")
    L.append("class En(enum.Enum):\n" + "\n".join(f"    {m.upper()} = {i}" for i, m in enumerate(em)))
    L.append("class Gen4(Generic[A, B, C, D]):\n    def m(self, a: A, b: B, c: C, d: D) -> tuple[A, B, C, D]: ...")
    L.append("class Del:\n    __deletable__ = " + repr(names(3, "d")) + "\n    def __init__(self) -> None:\n        self.x = 1")
    L.append("class NT(NamedTuple):\n" + "\n".join(f"    {f}: int" for f in names(3, "n")))
    hidden = names(3, "h")
    for h in hidden:
        L.append(f"{h} = 1")
    exported += ["SlotDC", "Abs", "Proto", "TD", "En", "Gen4"]
    rng.shuffle(exported)
    L.append("__all__ = " + repr(exported))
    return f"c11_det{idx}", "\n".join(L) + "\n"


def top_names(src: str) -> list[str]:
    import ast
    out: list[str] = []
    for n in ast.parse(src).body:
        if isinstance(n, (ast.ClassDef, ast.FunctionDef, ast.AsyncFunctionDef)):
            out.append(n.name)
        elif isinstance(n, ast.AnnAssign) and isinstance(n.target, ast.Name):
            out.append(n.target.id)
        elif isinstance(n, ast.Assign):
            out += [t.id for t in n.targets if isinstance(t, ast.Name)]
        elif isinstance(n, ast.TypeAlias) and isinstance(n.name, ast.Name):
            out.append(n.name.id)
    return list(dict.fromkeys(x for x in out if not x.startswith("__")))


def gen_use(gen_name: str, gen_src: str, idx: int) -> tuple[str, str]:
    """a module that *uses* a generated module: it is rechecked in the warm run, so its diagnostics show what
    importing code sees of the reloaded interface (compared with the cold run)"""
    L = [f"import {gen_name} as g", "from typing import Any",
         # more arguments than type variables: only legal because of the TypeVarTuple
         "def use_variadic(a: g.VPacket[str, int, bytes], b: g.VRow[str, int, bytes], c: g.VTup[str, int, bytes],",
         "                 d: g.VCls[str, int, bytes], e: g.VPacket[str], f: g.VTD1[int], h: g.VNT1[int]) -> None:",
         "    reveal_type(a); reveal_type(a['payload']); reveal_type(b); reveal_type(b.cells); reveal_type(c)",
         "    reveal_type(d.get()); reveal_type(e['payload']); reveal_type(f); reveal_type(h)",
         "g.VPacket[str, int, bytes](tag='x', payload=(1, b''))",
         "g.VRow[str, int, bytes]('k', (1, b''))",
         "def use_alias(x: g.Alias[int], y: g.Alias2, z: g.NT, w: g.TDict, n: g.NTup, k: g.Child, c: g.Color) -> None:",
         "    reveal_type(x); reveal_type(y); reveal_type(z); reveal_type(w); reveal_type(n); reveal_type(n.a)",
         "    reveal_type(k.prop); reveal_type(k.cm()); reveal_type(k.om(1)); reveal_type(k.trivial_self()); reveal_type(k.FIN)",
         "    reveal_type(k.attr); reveal_type(g.Child.sm(1)); reveal_type(c.value)",
         "reveal_type(g.f_over(1)); reveal_type(g.f_generic(1, '', b'')); reveal_type(g.f_guard); reveal_type(g.f_is)",
         "reveal_type(g.f_pspec); reveal_type(g.DC); reveal_type(g.DTC); reveal_type(g.Gen); reveal_type(g.Proto)"]
    for nm in top_names(gen_src):
        if nm in ("T", "TB", "TC", "TD_", "P", "Ts"):
            continue
        L.append(f"reveal_type(g.{nm})")
    return f"c11_use{idx}", "\n".join(L) + "\n"


def gen_use_std(repo: str, rng: random.Random, mods: list[str], n: int) -> tuple[str, str]:
    """reveal_type of randomly chosen public top-level symbols of the stdlib stubs (names read from the stubs' AST)"""
    import ast, os
    root = os.path.join(repo, "mypy", "typeshed", "stdlib")
    pairs: list[tuple[str, str]] = []
    for m in mods:
        base = os.path.join(root, *m.split("."))
        path = base + ".pyi" if os.path.exists(base + ".pyi") else os.path.join(base, "__init__.pyi")
        if not os.path.exists(path):
            continue
        try:
            tree = ast.parse(open(path).read())
        except SyntaxError:
            continue
        for node in tree.body:
            nm = None
            if isinstance(node, (ast.ClassDef, ast.FunctionDef, ast.AsyncFunctionDef)):
                nm = node.name
            elif isinstance(node, ast.AnnAssign) and isinstance(node.target, ast.Name):
                nm = node.target.id
            elif isinstance(node, ast.Assign) and len(node.targets) == 1 and isinstance(node.targets[0], ast.Name):
                nm = node.targets[0].id
            if nm and not nm.startswith("_"):
                pairs.append((m, nm))
    pairs = list(dict.fromkeys(pairs))
    rng.shuffle(pairs)
    pairs = pairs[:n]
    mods_used = list(dict.fromkeys(m for m, _ in pairs))
    L = [f"import {m}" for m in mods_used] + [f"reveal_type({m}.{nm})" for m, nm in pairs]
    return "c11_use_std", "\n".join(L) + "\n"


def gen_user(rng: random.Random, gens: list[str]) -> tuple[str, str]:
    """a module importing from the generated ones (cross references, from_module_getattr, re-exports)"""
    L = ["import c11_td", "from c11_td import TD as TDAlias"]
    for g in gens:
        L.append(f"import {g}")
        L.append(f"from {g} import (Base as Base_{g}, Color as Color_{g}, f_over as f_over_{g}, Alias as Alias_{g},")
        L.append(f"    T as T_{g}, NTup as NTup_{g}, TDict as TDict_{g})")
        if rng.random() < 0.6:
            L.append(f"from {g} import does_not_exist_{rng.randint(0, 9)}  # type: ignore")
        L.append(f"class Sub_{g}({g}.Child):\n    def am(self) -> int: return 3\n    extra: {g}.TDict")
    L.append("import os.path as osp\nfrom collections import OrderedDict as OD")
    return "c11_user", "\n".join(L) + "\n"
