"""Build `librt.internal` from the C sources of the tree under check ($VERIF_REPO/mypyc/lib-rt).

The `librt` in site-packages is a prebuilt wheel: edits to librt_internal.c would be invisible through it.
The build is cached by a hash of the sources under /var/tmp/c11-librt-cache (never under the repo).
Returns a directory to put first on PYTHONPATH (contains package `librt` with `internal*.so`).
"""
from __future__ import annotations

import hashlib
import os
import shutil
import subprocess
import sys
import fcntl

from harness.vlib.core import PY, REPO, ToolFailure

CACHE = os.environ.get("VERIF_C11_LIBRT_CACHE", "/var/tmp/c11-librt-cache")

SETUP = """\
import os, sys
from setuptools import setup, Extension
lib_rt = {lib_rt!r}
build_dir = {build_dir!r}
RUNTIME = {runtime!r}
srcs = []
for name in ["internal/librt_internal.c"] + RUNTIME:
    src = os.path.join(lib_rt, name); dst = os.path.join(build_dir, "src", name)
    os.makedirs(os.path.dirname(dst), exist_ok=True)
    with open(src, "rb") as f, open(dst, "wb") as g: g.write(f.read())
    srcs.append(dst)
setup(name="librt_c11", ext_modules=[Extension("librt.internal", sources=srcs,
      include_dirs=[lib_rt, os.path.join(lib_rt, "internal")],
      extra_compile_args=["-O1", "-g0", "-Wno-unused-function", "-Wno-unused-variable", "-Wno-unused-but-set-variable",
                          "-Wno-unused-label", "-Wno-unreachable-code", "-Wno-cpp", "-DMYPYC_EXPERIMENTAL"])])
"""


def runtime_files(repo: str) -> list[str]:
    import ast
    tree = ast.parse(open(os.path.join(repo, "mypyc", "common.py")).read())
    for n in tree.body:
        if isinstance(n, ast.AnnAssign) and getattr(n.target, "id", "") == "RUNTIME_C_FILES":
            return [e.value for e in n.value.elts]  # type: ignore[union-attr]
    raise ToolFailure("RUNTIME_C_FILES not found in mypyc/common.py")


def librt_path(repo: str = REPO) -> str:
    lib_rt = os.path.join(repo, "mypyc", "lib-rt")
    runtime = runtime_files(repo)
    h = hashlib.sha256()
    h.update(sys.version.encode())
    for root, _, files in sorted(os.walk(lib_rt)):
        if any(part in root for part in ("base64", "strings", "vecs", "time", "test")):
            continue
        for fn in sorted(files):
            if fn.endswith((".c", ".h")):
                h.update(fn.encode() + b"|")
                with open(os.path.join(root, fn), "rb") as f:
                    h.update(f.read())
    key = h.hexdigest()[:16]
    os.makedirs(CACHE, exist_ok=True)
    build_dir = os.path.join(CACHE, "librt-" + key)
    marker = os.path.join(build_dir, ".complete")
    with open(os.path.join(CACHE, key + ".lock"), "w") as lock:
        fcntl.flock(lock, fcntl.LOCK_EX)
        if os.path.exists(marker):
            return build_dir
        if os.path.exists(build_dir):
            shutil.rmtree(build_dir)
        os.makedirs(os.path.join(build_dir, "librt"))   # namespace package portion: no __init__.py, so the
        # other librt.* modules still come from site-packages
        with open(os.path.join(build_dir, "setup.py"), "w") as f:
            f.write(SETUP.format(lib_rt=lib_rt, build_dir=build_dir, runtime=runtime))
        try:
            p = subprocess.run([PY, "setup.py", "build_ext", "--inplace", "-j", "6"], cwd=build_dir,
                               capture_output=True, text=True, timeout=900)
        except subprocess.TimeoutExpired:
            raise ToolFailure("building librt.internal from the repo's C sources timed out")
        if p.returncode != 0:
            raise ToolFailure("building librt.internal from the repo's C sources failed:\n" + (p.stdout + p.stderr)[-3000:])
        open(marker, "w").write("ok")
        # keep the cache small: the four most recent builds (other trees under check, e.g. mutants)
        builds = sorted((d for d in os.listdir(CACHE) if d.startswith("librt-")),
                        key=lambda d: os.path.getmtime(os.path.join(CACHE, d)))
        for d in builds[:-4]:
            shutil.rmtree(os.path.join(CACHE, d), ignore_errors=True)
            try:
                os.remove(os.path.join(CACHE, d[len("librt-"):] + ".lock"))
            except OSError:
                pass
    return build_dir
