"""Attribute-wise structural dump of a module's interface (what importing code can observe):
names, kinds, visibility flags, node kinds and every serialised attribute of nodes and types.

The dump is written by hand (it does not use mypy's own serialize()), so that a field dropped from the
serialisers shows up as a difference between the fresh tree and the reloaded one.  Canonicalisation:
* a symbol that refers to a definition living elsewhere (module, or cross-reference by full name) is dumped as
  ("ref", kind-of-target, fullname) on both sides — the raw `cross_ref` string of a not-yet-fixed node is
  never compared;
* reading `SymbolTableNode.node` triggers the lazy deserialisation + fix-up of that node;
* sets are sorted; TypedDict items keep their order (it is observable: reveal_type, error messages).
"""
from __future__ import annotations

from typing import Any

from mypy import nodes as N
from mypy import types as T


def ty(t: Any, depth: int = 0) -> Any:
    if t is None:
        return None
    if depth > 40:
        return "<deep>"
    d = depth + 1
    k = type(t).__name__
    if isinstance(t, T.Instance):
        out: dict[str, Any] = {"k": k, "type": t.type.fullname if t.type is not None else None, "args": [ty(a, d) for a in t.args]}
        if t.last_known_value is not None:
            out["last_known_value"] = ty(t.last_known_value, d)
        if t.extra_attrs is not None:
            e = t.extra_attrs
            out["extra_attrs"] = {"attrs": sorted((n, ty(v, d)) for n, v in e.attrs.items()),
                                  "immutable": sorted(e.immutable), "mod_name": e.mod_name}
        return out
    if isinstance(t, T.TypeAliasType):
        return {"k": k, "alias": t.alias.fullname if t.alias is not None else ("unfixed:" + str(t.type_ref)),
                "args": [ty(a, d) for a in t.args]}
    if isinstance(t, T.TypeVarType):
        return {"k": k, "name": t.name, "fullname": t.fullname, "id": [t.id.raw_id, t.id.meta_level, t.id.namespace],
                "values": [ty(v, d) for v in t.values], "upper_bound": ty(t.upper_bound, d), "default": ty(t.default, d),
                "variance": t.variance}
    if isinstance(t, T.ParamSpecType):
        return {"k": k, "name": t.name, "fullname": t.fullname, "id": [t.id.raw_id, t.id.meta_level, t.id.namespace],
                "flavor": t.flavor, "upper_bound": ty(t.upper_bound, d), "default": ty(t.default, d),
                "prefix": ty(t.prefix, d)}
    if isinstance(t, T.TypeVarTupleType):
        return {"k": k, "name": t.name, "fullname": t.fullname, "id": [t.id.raw_id, t.id.meta_level, t.id.namespace],
                "upper_bound": ty(t.upper_bound, d), "tuple_fallback": ty(t.tuple_fallback, d),
                "default": ty(t.default, d), "min_len": t.min_len}
    if isinstance(t, T.UnboundType):
        return {"k": k, "name": t.name, "args": [ty(a, d) for a in t.args], "expr": t.original_str_expr,
                "expr_fallback": t.original_str_fallback}
    if isinstance(t, T.UnpackType):
        return {"k": k, "type": ty(t.type, d)}
    if isinstance(t, T.AnyType):
        return {"k": k, "type_of_any": t.type_of_any, "source_any": ty(t.source_any, d),
                "missing_import_name": t.missing_import_name}
    if isinstance(t, (T.UninhabitedType, T.NoneType)):
        return {"k": k}
    if isinstance(t, T.DeletedType):
        return {"k": k, "source": t.source}
    if isinstance(t, T.Parameters):
        return {"k": k, "arg_types": [ty(a, d) for a in t.arg_types], "arg_kinds": [int(x.value) for x in t.arg_kinds],
                "arg_names": list(t.arg_names), "variables": [ty(v, d) for v in t.variables],
                "imprecise_arg_kinds": t.imprecise_arg_kinds}
    if isinstance(t, T.CallableType):
        return {"k": k, "arg_types": [ty(a, d) for a in t.arg_types], "arg_kinds": [int(x.value) for x in t.arg_kinds],
                "arg_names": list(t.arg_names), "ret_type": ty(t.ret_type, d), "fallback": ty(t.fallback, d),
                "name": t.name, "variables": [ty(v, d) for v in t.variables],
                "flags": {f: getattr(t, f) for f in ("is_ellipsis_args", "implicit", "is_bound", "from_concatenate",
                                                      "imprecise_arg_kinds", "unpack_kwargs")},
                "type_guard": ty(t.type_guard, d), "type_is": ty(t.type_is, d), "instance_type": ty(t.instance_type, d)}
    if isinstance(t, T.Overloaded):
        return {"k": k, "items": [ty(i, d) for i in t.items]}
    if isinstance(t, T.TupleType):
        return {"k": k, "items": [ty(i, d) for i in t.items], "partial_fallback": ty(t.partial_fallback, d),
                "implicit": t.implicit}
    if isinstance(t, T.TypedDictType):
        return {"k": k, "items": [[n, ty(v, d)] for n, v in t.items.items()], "required_keys": sorted(t.required_keys),
                "readonly_keys": sorted(t.readonly_keys), "fallback": ty(t.fallback, d), "is_closed": t.is_closed}
    if isinstance(t, T.LiteralType):
        v = t.value
        if isinstance(v, T.SentinelValue):
            v = ["sentinel", v.fullname, v.name]
        return {"k": k, "value": [type(t.value).__name__, repr(v)], "fallback": ty(t.fallback, d)}
    if isinstance(t, T.UnionType):
        return {"k": k, "items": [ty(i, d) for i in t.items], "uses_pep604_syntax": t.uses_pep604_syntax}
    if isinstance(t, T.TypeType):
        return {"k": k, "item": ty(t.item, d), "is_type_form": t.is_type_form}
    return {"k": k, "str": str(t)}


# ---- derived / recomputed attributes --------------------------------------------------------------------
# Attributes that are *not* written to the cache but recomputed on load (constructors, fixup.py) are part of what
# importing code sees.  Besides the ones dumped explicitly (special_alias, mro, info links …), every remaining
# scalar attribute (None/bool/int/str) of a node is dumped reflectively, so that a recomputation that is dropped
# or changed shows up without this file knowing the attribute by name.
NOT_INTERFACE = {
    # source positions and per-run caches / bookkeeping
    "line", "column", "end_line", "end_column", "_is_recursive", "is_cache_skeleton", "unfixed",
    # only meaningful while the defining module itself is being analysed / checked (never read through an import)
    "is_unreachable", "is_top_level", "is_explicit_override", "is_dynamic", "def_or_infer_vars", "is_borrowed",
    "unanalyzed_type", "deco_line", "max_pos", "min_args", "is_partial_stub_package", "bad_mro",
    "is_inferred_def", "was_inferred", "def_line", "expanded", "original_def", "is_self_alias",
    # read by stubtest only (which analyses the stubs itself, never through the cache)
    "is_type_check_only",
}


def all_slots(o: Any) -> list[str]:
    out: list[str] = []
    for k in type(o).__mro__:
        sl = k.__dict__.get("__slots__", ())
        out += [sl] if isinstance(sl, str) else list(sl)
    out += list(getattr(o, "__dict__", {}))
    return out


def derived(o: Any, handled: set[str]) -> dict[str, Any]:
    out: dict[str, Any] = {}
    for a in all_slots(o):
        b = a.lstrip("_")
        if a in handled or b in handled or a in NOT_INTERFACE or b in NOT_INTERFACE:
            continue
        try:
            v = getattr(o, a)
        except AttributeError:
            continue
        if v is None or isinstance(v, (bool, int, str)):
            out[b] = v
    return out


def special_alias(a: Any) -> Any:
    if a is None:
        return None
    return {"fullname": a.fullname, "module": a.module, "target": ty(a.target), "alias_tvars": [ty(v) for v in a.alias_tvars],
            "tvar_tuple_index": a.tvar_tuple_index, "no_args": a.no_args, "normalized": a.normalized,
            "python_3_12_type_alias": a.python_3_12_type_alias, "eager": a.eager}


def dt_spec(s: Any) -> Any:
    if s is None:
        return None
    return {"eq_default": s.eq_default, "order_default": s.order_default, "kw_only_default": s.kw_only_default,
            "frozen_default": s.frozen_default, "field_specifiers": list(s.field_specifiers)}


def info_name(n: Any) -> Any:
    i = getattr(n, "info", None)
    if i is None or isinstance(i, N.FakeInfo):
        return None
    return i.fullname


def node(n: Any, depth: int = 0) -> Any:
    k = type(n).__name__
    if isinstance(n, N.Var):
        return {"k": k, "name": n.name, "fullname": n.fullname, "type": ty(n.type), "setter_type": ty(n.setter_type),
                "flags": {f: getattr(n, f) for f in N.VAR_FLAGS}, "final_value": [type(n.final_value).__name__, repr(n.final_value)],
                "info": info_name(n),
                "derived": derived(n, {"name", "fullname", "type", "setter_type", "final_value", "info"} | set(N.VAR_FLAGS))}
    if isinstance(n, N.FuncDef):
        return {"k": k, "name": n.name, "fullname": n.fullname, "type": ty(n.type),
                "flags": {f: getattr(n, f) for f in N.FUNCDEF_FLAGS}, "arg_names": list(n.arg_names),
                "arg_kinds": [int(x.value) for x in n.arg_kinds], "abstract_status": n.abstract_status,
                "dataclass_transform_spec": dt_spec(n.dataclass_transform_spec), "deprecated": n.deprecated,
                "original_first_arg": n.original_first_arg, "info": info_name(n),
                "definition_link": (n.type.definition.fullname if isinstance(n.type, T.CallableType) and n.type.definition is not None
                                    else None),
                "derived": derived(n, {"name", "fullname", "type", "arg_names", "arg_kinds", "abstract_status",
                                       "dataclass_transform_spec", "deprecated", "original_first_arg", "info", "arguments",
                                       "body", "type_args"} | set(N.FUNCDEF_FLAGS))}
    if isinstance(n, N.OverloadedFuncDef):
        return {"k": k, "fullname": n.fullname, "type": ty(n.type), "items": [node(i, depth + 1) for i in n.items],
                "impl": node(n.impl, depth + 1) if n.impl is not None else None,
                "flags": {f: getattr(n, f) for f in N.FUNCBASE_FLAGS}, "deprecated": n.deprecated,
                "setter_index": n.setter_index, "info": info_name(n),
                "is_trivial_self": n.is_trivial_self,       # computed on demand from the items (cached in _is_trivial_self)
                "derived": derived(n, {"fullname", "type", "items", "impl", "deprecated", "setter_index", "info",
                                       "unanalyzed_items", "is_trivial_self"} | set(N.FUNCBASE_FLAGS))}
    if isinstance(n, N.Decorator):
        v = node(n.var, depth + 1)
        # `var.info` of a decorator is not serialised; fix-up sets it for every decorator while semantic analysis
        # leaves it unset for some overload items: derived, not part of the interface
        v.pop("info", None)
        return {"k": k, "func": node(n.func, depth + 1), "var": v, "is_overload": n.is_overload}
    if isinstance(n, N.TypeInfo):
        d = n.defn
        return {"k": k, "fullname": n.fullname, "module_name": n.module_name,
                "defn": {"name": d.name, "fullname": d.fullname, "type_vars": [ty(v) for v in d.type_vars]},
                "abstract_attributes": [list(a) for a in n.abstract_attributes], "type_vars": list(n.type_vars),
                "has_param_spec_type": n.has_param_spec_type, "bases": [ty(b) for b in n.bases],
                "mro": [c.fullname for c in n.mro],
                # used as a set (subtypes/meet/join test membership): fix-up appends the back-promotions of native ints in load order
                "promote": sorted((ty(p) for p in n._promote), key=repr), "alt_promote": ty(n.alt_promote),
                "declared_metaclass": ty(n.declared_metaclass), "metaclass_type": ty(n.metaclass_type),
                "tuple_type": ty(n.tuple_type), "typeddict_type": ty(n.typeddict_type),
                "flags": {f: getattr(n, f) for f in N.TypeInfo.FLAGS}, "metadata": n.metadata,
                "slots": sorted(n.slots) if n.slots is not None else None,
                "deletable_attributes": list(n.deletable_attributes), "self_type": ty(n.self_type),
                "dataclass_transform_spec": dt_spec(n.dataclass_transform_spec), "deprecated": n.deprecated,
                # recomputed on load, not serialised
                "special_alias": special_alias(n.special_alias),
                "enum_members": list(n.enum_members) if n.is_enum else None,
                "protocol_members": list(n.protocol_members) if n.is_protocol else None,
                "is_generic": n.is_generic(), "is_metaclass": n.is_metaclass(),
                "derived": derived(n, {"fullname", "module_name", "defn", "abstract_attributes", "type_vars",
                                       "has_param_spec_type", "bases", "mro", "mro_refs", "promote", "alt_promote",
                                       "declared_metaclass", "metaclass_type", "tuple_type", "typeddict_type", "metadata",
                                       "slots", "deletable_attributes", "self_type", "dataclass_transform_spec",
                                       "deprecated", "special_alias", "names", "assuming", "assuming_proper", "inferring",
                                       "type_object_type", "default_depends", "typeddict_data"} | set(N.TypeInfo.FLAGS)),
                "names": table(n.names, n.fullname, depth + 1) if depth < 6 else "<deep>"}
    if isinstance(n, N.TypeAlias):
        return {"k": k, "fullname": n.fullname, "module": n.module, "target": ty(n.target),
                "alias_tvars": [ty(v) for v in n.alias_tvars], "no_args": n.no_args, "normalized": n.normalized,
                "python_3_12_type_alias": n.python_3_12_type_alias,
                "derived": derived(n, {"fullname", "module", "target", "alias_tvars", "no_args", "normalized",
                                       "python_3_12_type_alias", "default_depends"})}
    if isinstance(n, N.TypeVarExpr):
        return {"k": k, "name": n.name, "fullname": n.fullname, "values": [ty(v) for v in n.values],
                "upper_bound": ty(n.upper_bound), "default": ty(n.default), "variance": n.variance}
    if isinstance(n, N.ParamSpecExpr):
        return {"k": k, "name": n.name, "fullname": n.fullname, "upper_bound": ty(n.upper_bound),
                "default": ty(n.default), "variance": n.variance}
    if isinstance(n, N.TypeVarTupleExpr):
        return {"k": k, "name": n.name, "fullname": n.fullname, "upper_bound": ty(n.upper_bound),
                "tuple_fallback": ty(n.tuple_fallback), "default": ty(n.default), "variance": n.variance}
    if isinstance(n, N.MypyFile):
        return {"k": k, "fullname": n.fullname}
    return {"k": k, "str": str(n)[:200]}


def symbol(stn: N.SymbolTableNode, prefix: str, name: str, depth: int = 0) -> Any:
    out: dict[str, Any] = {"kind": stn.kind, "module_public": stn.module_public, "module_hidden": stn.module_hidden,
                           "implicit": stn.implicit, "plugin_generated": stn.plugin_generated}
    n = stn.node          # lazy load + fix-up happen here for a reloaded table
    if n is None:
        out["node"] = None
    elif isinstance(n, N.MypyFile):
        out["node"] = ["ref", "MypyFile", n.fullname]
    else:
        fn = n.fullname
        is_xref = ("." in fn and fn != prefix + "." + name
                   and not (isinstance(n, N.Var) and n.from_module_getattr))
        if is_xref:
            out["node"] = ["ref", type(n).__name__, fn]
        else:
            out["node"] = node(n, depth)
    return out


def table(names: N.SymbolTable, prefix: str, depth: int = 0) -> dict[str, Any]:
    out = {}
    for key in sorted(names):
        stn = names[key]
        if key == "__builtins__" or stn.no_serialize:
            continue
        out[key] = symbol(stn, prefix, key, depth)
    return out


def module(f: N.MypyFile) -> dict[str, Any]:
    return {"fullname": f.fullname, "is_stub": f.is_stub, "path": f.path,
            "is_partial_stub_package": f.is_partial_stub_package,
            "future_import_flags": sorted(f.future_import_flags), "names": table(f.names, f.fullname)}


def canon_pair(a: Any, b: Any) -> None:
    """in-place canonicalisation of a (fresh, reloaded) pair: `CallableType.definition` (error-message context only) is
    linked by fix-up for every function, by semantic analysis only for some — compare it only where the fresh tree has it"""
    if isinstance(a, dict) and isinstance(b, dict):
        if "definition_link" in a and "definition_link" in b and a["definition_link"] is None:
            b["definition_link"] = None
        for k in a:
            if k in b:
                canon_pair(a[k], b[k])
    elif isinstance(a, list) and isinstance(b, list):
        for x, y in zip(a, b):
            canon_pair(x, y)


def diff(a: Any, b: Any, path: str = "") -> list[tuple[str, str, str]]:
    """first-level list of differing leaves (path, left, right); dict key order is significant only for lists"""
    if type(a) is not type(b):
        return [(path, repr(a)[:160], repr(b)[:160])]
    if isinstance(a, dict):
        out: list[tuple[str, str, str]] = []
        for k in list(a) + [k for k in b if k not in a]:
            if k not in a or k not in b:
                out.append((f"{path}/{k}", "<missing>" if k not in a else "present", "<missing>" if k not in b else "present"))
            elif a[k] != b[k]:
                out += diff(a[k], b[k], f"{path}/{k}")
        return out
    if isinstance(a, list):
        if len(a) != len(b):
            return [(path, f"len {len(a)}: {repr(a)[:120]}", f"len {len(b)}: {repr(b)[:120]}")]
        out = []
        for i, (x, y) in enumerate(zip(a, b)):
            if x != y:
                out += diff(x, y, f"{path}/{i}")
        return out
    return [(path, repr(a)[:160], repr(b)[:160])] if a != b else []
