"""C08 — the type lattice obeys its laws.

1. Lean: Props/C08 (laws proved for every class table passing `Hier.ok` and all well-formed terms of the fragment).
2. Tie (correspondence): a fixture module type-checked by the real mypy in-process realises a universe of real
   `Type` objects; every model-fragment member is converted to a model term, the real class table is exported
   and the driver confirms it satisfies the theorems' hypotheses (`Hier.ok`, `Ty.wf`); then for all ordered pairs
   the real `is_subtype`, `is_proper_subtype`, `join_types`, `meet_types`, `make_simplified_union` are compared
   with the model (union items sorted).  Cache independence: every real query is asked cold
   (`reset_all_subtype_caches`), warm (inside a shuffled block of related queries without resets) and cold
   again; the three answers must agree.
3. Search: the laws themselves evaluated on the real functions over the whole universe (model fragment plus
   protocols, TypedDicts, NamedTuple, enums, bool/float promotions, variadic tuples, callables with all
   argument kinds): a law instance that fails is a concrete failing input (`ctx.report`).
"""
from __future__ import annotations

import itertools
import json
import time

from harness.vlib.core import Ctx, ToolFailure

from . import fixture, real

MODEL_FILES = ["MypyVerif/Model/Types.lean", "MypyVerif/Proofs/Types.lean", "MypyVerif/Proofs/TypesSub.lean",
               "MypyVerif/Proofs/TypesHier.lean", "MypyVerif/Proofs/TypesTrans.lean", "MypyVerif/Proofs/TypesSimp.lean",
               "MypyVerif/Proofs/TypesJoinFuel.lean", "MypyVerif/Proofs/TypesLattice.lean", "MypyVerif/Proofs/TypesLattice2.lean",
               "MypyVerif/Proofs/TypesJoin.lean", "MypyVerif/Proofs/TypesMeet.lean"]
OPS = ["sub", "psub", "join", "meet", "simp"]
FUNCTION_NAME = "<builtins.function>"


# ------------------------------------------------------------------------------------ universe
def random_annotations(ctx: Ctx, n: int, max_depth: int) -> list[str]:
    """Random model-fragment annotations of nesting depth 2..max_depth (all derived from ctx.rng)."""
    rng = ctx.rng
    classes = ["A", "B", "C", "D", "E", "F", "Sub", "CoSub"]
    atoms = classes + ["object", "None", "int", "bytes", "Literal[1]", "Literal[2]", "Literal[b'a']", "NoReturn"]
    generics = ["Inv", "Co", "Cn", "CoP", "CnP", "InvCo", "Sequence"]

    def gen(d: int, in_union: bool = False) -> str:
        if d == 0:
            return rng.choice(atoms if not in_union else atoms[:-1])
        k = rng.choice(["gen", "gen", "tuple", "vtuple", "callable", "callable", "type", "union", "union", "atom"])
        if k == "atom":
            return gen(0, in_union)
        if k == "gen":
            return f"{rng.choice(generics)}[{gen(d - 1)}]"
        if k == "tuple":
            return "Tuple[" + ", ".join(gen(d - 1) for _ in range(rng.randint(1, 3))) + "]"
        if k == "vtuple":
            return f"Tuple[{gen(d - 1)}, ...]"
        if k == "callable":
            args = ", ".join(gen(d - 1) for _ in range(rng.randint(0, 2)))
            return f"Callable[[{args}], {gen(d - 1)}]"
        if k == "type":
            c = rng.choice(classes[:6] + [f"{g}[{rng.choice(classes[:5])}]" for g in generics[:6]])
            return f"Type[{c}]"
        if in_union:
            return gen(d - 1, True)
        items = []
        for _ in range(rng.randint(2, 3)):
            it = gen(d - 1, True)
            if it not in items:
                items.append(it)
        return " | ".join(items) if len(items) > 1 else items[0]

    out: list[str] = []
    tries = 0
    while len(out) < n and tries < 50 * n:
        tries += 1
        a = gen(rng.randint(2, max_depth))
        if a not in out:
            out.append(a)
    return out


FAMILY_ANCHORS = ["object", "A", "Type[A]", "Callable[[], A]", "Callable[[A], A]", "Callable[[A, B], A]", "WithCall",
                  "f_opt", "f_star", "f_kw", "f_kwopt", "f_star2", "f_all", FUNCTION_NAME]


class Universe:
    def __init__(self, ctx: Ctx, annotations: list[str] | None = None, family: list[list[str]] | None = None,
                 nest_thorough: bool | None = None):
        fixed_model = fixture.ATOMS + fixture.model_depth1() + fixture.model_depth2()
        if annotations is None:
            rnd = random_annotations(ctx, ctx.pick(24, 260), ctx.pick(3, 4))
            annotations = list(dict.fromkeys(fixed_model + rnd + fixture.EXTRA))
        if family is None:
            family = [list(x) for x in fixture.callable_family(ctx.rng, not ctx.quick())]
        self.annotations = annotations
        self.family = family
        fam_funcs = [src.split("(", 1)[0][4:] for _, src in family]          # "def g12(…" -> "g12"
        self.nest_thorough = (not ctx.quick()) if nest_thorough is None else nest_thorough
        nest_src, nest = fixture.nest_family(self.nest_thorough)
        nest_anns = [a for _, a in nest if a not in annotations]
        self.w = real.World(annotations + nest_anns, fixture.EXTRA_FUNCS + fam_funcs,
                            "".join(src for _, src in family) + nest_src)
        self.terms = real.Terms(self.w)
        self.names: list[str] = []
        self.types: list = []
        for a in annotations + fixture.EXTRA_FUNCS:
            self.names.append(a)
            self.types.append(self.w.types[a])
        # builtins.function: the fallback of every callable, reachable as a join result
        self.names.append(FUNCTION_NAME)
        self.types.append(self.w.types["Callable[[], A]"].fallback)
        self.term: list[str | None] = [self.terms.to_term(t) for t in self.types]
        for n, t in zip(self.names, self.types):
            if real.contains_any(t) and n != FUNCTION_NAME:
                raise ToolFailure(f"universe member {n} contains Any")
        must = set(fixed_model)
        for n, tm in zip(self.names, self.term):
            if n in must and tm is None:
                raise ToolFailure(f"fixture type {n} did not convert to a model term")
        self.model_idx = [i for i, tm in enumerate(self.term) if tm is not None]
        self.main_idx = list(range(len(self.types)))
        # the callable family (law search and cache passes among themselves and a few anchors only)
        for (name, _), fn in zip(family, fam_funcs):
            t = self.w.types[fn]
            if real.contains_any(t):
                raise ToolFailure(f"family member {name} contains Any")
            self.names.append(name)
            self.types.append(t)
            self.term.append(None)
        self.index = {n: i for i, n in enumerate(self.names)}
        self.fam_idx = [self.index[a] for a in FAMILY_ANCHORS if a in self.index] + list(range(len(self.main_idx), len(self.types)))
        # nested near-equal pairs (their own cold/warm/cold passes and law search)
        self.nest_idx: list[int] = []
        for disp, ann in nest:
            if disp in self.index:
                self.nest_idx.append(self.index[disp])
                continue
            t = self.w.types[ann]
            if real.contains_any(t):
                raise ToolFailure(f"nest family member {disp} contains Any")
            self.index[disp] = len(self.types)
            self.nest_idx.append(len(self.types))
            self.names.append(disp)
            self.types.append(t)
            self.term.append(None)

    def replay_detail(self) -> dict:
        return {"annotations": self.annotations, "family": self.family, "nest_thorough": self.nest_thorough}


# ------------------------------------------------------------------------------------ kinds / cells
def kind(t) -> str:
    from mypy.types import (CallableType, Instance, LiteralType, NoneType, Overloaded, TupleType, TypedDictType,
                            TypeType, TypeVarType, UninhabitedType, UnionType, UnpackType, get_proper_type)
    t = get_proper_type(t)
    if isinstance(t, UninhabitedType): return "never"
    if isinstance(t, NoneType): return "none"
    if isinstance(t, UnionType): return "union"
    if isinstance(t, TypedDictType): return "typeddict"
    if isinstance(t, LiteralType): return "enum-literal" if t.fallback.type.is_enum else "literal"
    if isinstance(t, TypeType): return "type[C]"
    if isinstance(t, (CallableType, Overloaded)): return "callable"
    if isinstance(t, TupleType):
        if t.partial_fallback.type.is_named_tuple: return "namedtuple"
        if t.partial_fallback.type.fullname != "builtins.tuple": return "tuple-subclass"
        if any(isinstance(i, UnpackType) for i in t.items): return "variadic-tuple"
        return "tuple"
    if isinstance(t, TypeVarType): return "typevar"
    if isinstance(t, Instance):
        if t.type.fullname == "builtins.function": return "builtins.function"
        if t.type.is_protocol: return "protocol"
        if t.type.is_enum: return "enum"
        if t.args:
            v = {0: "invariant", 1: "covariant", 2: "contravariant"}.get(getattr(t.type.defn.type_vars[0], "variance", 0), "?")
            return f"{v}-generic({'|'.join(sorted({kind(a) for a in t.args}))})"
        return "instance"
    return type(t).__name__


def callable_cell(ops, a, b, op: str) -> str | None:
    """The known cells F-C08c/d/e, kept narrow: two 'similar' callables (same arity, min_args, star-ness) whose
    argument kinds / names differ, the result is a callable that copies exactly the *second* operand's argument
    kinds (and, for meet, names) — join.py: "TODO kinds and argument names" — and the law fails for the first
    operand only.  Anything else among callables gets a generic cell (and is therefore a violation)."""
    from mypy.join import is_similar_callables
    from mypy.types import CallableType, get_proper_type
    pa, pb = get_proper_type(a), get_proper_type(b)
    if not (isinstance(pa, CallableType) and isinstance(pb, CallableType) and is_similar_callables(pa, pb)):
        return None
    ops.reset()
    if op == "join":
        r = get_proper_type(ops.join_types(a, b))
        ok = ops.is_subtype(a, r) and ops.is_subtype(b, r)
    else:
        r = get_proper_type(ops.meet_types(a, b))
        ok = ops.is_subtype(r, a) and ops.is_subtype(r, b)
    if ok or not (isinstance(r, CallableType) and r.arg_kinds == pb.arg_kinds and len(r.arg_types) == len(pb.arg_types)):
        return None
    # the parameter types are the pointwise meets (join) / joins (meet) — or joins for equivalent operands —
    # and the return type the join / meet of the return types: nothing but the kinds/names is off
    def same(x, y) -> bool:
        return real.canon_real(x) == real.canon_real(y)
    duals = [ops.meet_types, ops.join_types] if op == "join" else [ops.join_types]
    if not any(all(same(rt, d(bt, at)) for rt, bt, at in zip(r.arg_types, pb.arg_types, pa.arg_types)) for d in duals):
        return None
    rets = [ops.join_types(pb.ret_type, pa.ret_type)] + ([ops.meet_types(pb.ret_type, pa.ret_type)] if op == "meet" else [])
    if not any(same(r.ret_type, x) for x in rets):
        return None
    if pa.arg_kinds != pb.arg_kinds:
        return "callable×callable[similar, argument kinds differ]"
    if op == "meet" and pa.arg_names != pb.arg_names and r.arg_names == pb.arg_names:
        return "callable×callable[similar, argument names differ]"
    if op == "join" and any(na != nb and nr == nb and (ka.is_named() or kb.is_named())
                            for na, nb, nr, ka, kb in zip(pa.arg_names, pb.arg_names, r.arg_names, pa.arg_kinds, pb.arg_kinds)):
        # combine_arg_names keeps the second operand's name for a keyword-only parameter
        return "callable×callable[similar, keyword-only argument names differ]"
    from mypy.nodes import ARG_STAR2
    if op == "join" and ARG_STAR2 in r.arg_kinds and any(
            na != nb and nr is None and ka.is_positional() for na, nb, nr, ka in zip(pa.arg_names, pb.arg_names, r.arg_names, pa.arg_kinds)):
        # combine_arg_names drops a positional parameter's name when the operands disagree; with **kwargs in the
        # join that name could then arrive as a keyword, which the operand naming the parameter cannot accept
        return "callable×callable[similar, positional argument names differ, **kwargs present]"
    return None


def callback_join_cell(ops, a, b) -> str | None:
    """join of a callable with a callback protocol (only member `__call__`): the protocol is replaced by its
    `__call__` signature, and when those two callables have no callable join the result is `builtins.function`,
    which an instance implementing the protocol is not a subtype of (same root as F-C08a)."""
    from mypy.types import CallableType, Instance, get_proper_type
    pa, pb = get_proper_type(a), get_proper_type(b)
    for x, y in ((pa, pb), (pb, pa)):
        if (isinstance(x, CallableType) and isinstance(y, Instance) and y.type.is_protocol
                and y.type.protocol_members == ["__call__"]):
            ops.reset()
            r = get_proper_type(ops.join_types(a, b))
            if isinstance(r, Instance) and r.type.fullname == "builtins.function" and ops.is_subtype(x, r) \
                    and not ops.is_subtype(y, r):
                return "callable×callback-protocol[join is builtins.function]"
    return None


FC08B_CELL = "contravariant-generic(arguments related by non-proper subtyping only)"


def meet_cell(ops, a, b) -> str:
    """Cell of a failing meet law instance.  F-C08b: `visit_instance` meets the arguments of two instances of the same
    class whenever `is_subtype` holds one way — also for a contravariant parameter; this is reached only when the
    proper-subtype shortcuts of `meet_types` did not fire, i.e. the arguments are related through the non-proper
    `Type[C] <: Callable` rule or through a promotion (`int <: float`)."""
    from mypy.subtypes import is_proper_subtype, is_subtype
    from mypy.types import Instance, get_proper_type
    pa, pb = get_proper_type(a), get_proper_type(b)
    if (isinstance(pa, Instance) and isinstance(pb, Instance) and pa.type is pb.type and len(pa.args) == 1
            and getattr(pa.type.defn.type_vars[0], "variance", 0) == 2):
        x, y = pa.args[0], pb.args[0]
        if ((is_subtype(x, y) or is_subtype(y, x)) and not is_proper_subtype(x, y, ignore_promotions=True)
                and not is_proper_subtype(y, x, ignore_promotions=True)):
            return FC08B_CELL
    from mypy.types import TupleType
    if (isinstance(pa, TupleType) and isinstance(pb, TupleType) and len(pa.items) == len(pb.items)
            and pa.partial_fallback.type is not pb.partial_fallback.type
            and not (kind(a) == "namedtuple" and kind(b) == "tuple")):
        # F23's defect with other fallbacks (tuple subclass / NamedTuple / plain tuple): visit_tuple_type builds the
        # meet with tuple_fallback(t), the second operand's fallback, whatever the first operand's is
        ops.reset()
        m = get_proper_type(ops.meet_types(a, b))
        if (isinstance(m, TupleType) and m.partial_fallback.type is pb.partial_fallback.type
                and ops.is_subtype(m, b) and not ops.is_subtype(m, a)):
            return "tuple×tuple[different fallbacks; the meet takes the second operand's]"
    return callable_cell(ops, a, b, "meet") or f"{kind(a)}×{kind(b)}"


def bound_observed(ops, a, b, op: str) -> dict:
    """`observed` of a failing bound law on its core instance."""
    if op == "meet":
        return {"class": "meet-not-lower-bound", "cell": meet_cell(ops, a, b)}
    return {"class": "join-not-upper-bound",
            "cell": callable_cell(ops, a, b, "join") or callback_join_cell(ops, a, b) or f"{kind(a)}×{kind(b)}"}


def union_items(t):
    from mypy.types import UnionType, get_proper_type
    p = get_proper_type(t)
    return list(p.items) if isinstance(p, UnionType) else None


def bound_fails(ops, x, y, op: str) -> bool:
    ops.reset()
    if op == "meet":
        m = ops.meet_types(x, y)
        return not (ops.is_subtype(m, x) and ops.is_subtype(m, y))
    j = ops.join_types(x, y)
    return not (ops.is_subtype(x, j) and ops.is_subtype(y, j))


def components(a, b):
    """Corresponding component pairs of two types of the same shape, with the operation the visitors apply to
    them relative to the outer one ('same' / 'dual' / 'either')."""
    from mypy.types import CallableType, Instance, TupleType, TypedDictType, TypeType, UnpackType, get_proper_type
    pa, pb = get_proper_type(a), get_proper_type(b)
    out = []
    if isinstance(pa, Instance) and isinstance(pb, Instance) and pa.type is pb.type and len(pa.args) == len(pb.args):
        out += [(x, y, "either") for x, y in zip(pa.args, pb.args)]
    elif (isinstance(pa, TupleType) and isinstance(pb, TupleType) and len(pa.items) == len(pb.items)
          and not any(isinstance(i, UnpackType) for i in pa.items + pb.items)):
        out += [(x, y, "same") for x, y in zip(pa.items, pb.items)]
    elif isinstance(pa, CallableType) and isinstance(pb, CallableType) and len(pa.arg_types) == len(pb.arg_types):
        out += [(x, y, "either") for x, y in zip(pa.arg_types, pb.arg_types)]
        out.append((pa.ret_type, pb.ret_type, "same"))
    elif isinstance(pa, TypeType) and isinstance(pb, TypeType):
        out.append((pa.item, pb.item, "same"))
    elif isinstance(pa, TypedDictType) and isinstance(pb, TypedDictType):
        out += [(pa.items[k], pb.items[k], "either") for k in pa.items if k in pb.items]
    else:
        # fixed tuple against tuple[X, ...] / Sequence[X] / Iterable[X]: every item against X
        from mypy.types import TUPLE_LIKE_INSTANCE_NAMES
        for p, q in ((pa, pb), (pb, pa)):
            if (isinstance(p, TupleType) and not any(isinstance(i, UnpackType) for i in p.items)
                    and isinstance(q, Instance) and q.type.fullname in TUPLE_LIKE_INSTANCE_NAMES and len(q.args) == 1):
                out += [(x, q.args[0], "same") for x in p.items]
    return out


def bound_core(ops, a, b, op: str, depth: int = 0):
    """Reduce a failing join/meet law instance to a smallest failing instance inside it (items of unions, then
    corresponding components of equally shaped types): the reported cell then names the mechanism instead of
    the wrapper.  Returns (a', b', op')."""
    if depth < 6:
        # (the visitors call themselves with the union item first, so both orders are tried)
        for x in (union_items(a) or []):
            if bound_fails(ops, x, b, op):
                return bound_core(ops, x, b, op, depth + 1)
            if bound_fails(ops, b, x, op):
                return bound_core(ops, b, x, op, depth + 1)
        for y in (union_items(b) or []):
            if bound_fails(ops, a, y, op):
                return bound_core(ops, a, y, op, depth + 1)
            if bound_fails(ops, y, a, op):
                return bound_core(ops, y, a, op, depth + 1)
        dual = "meet" if op == "join" else "join"
        for x, y, how in components(a, b):
            for o in ([op] if how == "same" else [op, dual]):
                for (u, v) in ((x, y), (y, x)):
                    if bound_fails(ops, u, v, o):
                        return bound_core(ops, u, v, o, depth + 1)
    return a, b, op


def trans_core(ops, a, b, c, depth: int = 0):
    """Reduce a failing transitivity instance to one on non-union operands where possible."""
    def S(x, y) -> bool:
        ops.reset()
        return bool(ops.is_subtype(x, y))
    if depth < 6:
        for x in (union_items(a) or []):
            if S(x, b) and not S(x, c):
                return trans_core(ops, x, b, c, depth + 1)
        for y in (union_items(b) or []):
            if S(a, y) and S(y, c):
                return trans_core(ops, a, y, c, depth + 1)
        for z in (union_items(c) or []):
            if S(b, z) and not S(a, z):
                return trans_core(ops, a, b, z, depth + 1)
    return a, b, c


def double_match_cell(a, b, c) -> str | None:
    """Known transitivity failure among callables (F-C08j): a positional-or-keyword parameter of the left callable
    corresponds to *two* parameters of the right one — one by position (through *args or a positional parameter)
    and a different one by name (a keyword-only parameter or **kwargs).  Phase 2 of `are_parameters_compatible`
    accepts that as long as neither of the two is required, so `a <: b` (both optional in b) and `b <: c` hold while
    `a <: c` (one of them required in c) does not."""
    from mypy.types import CallableType, get_proper_type
    pa, pb, pc = get_proper_type(a), get_proper_type(b), get_proper_type(c)
    if not all(isinstance(x, CallableType) for x in (pa, pb, pc)):
        return None

    def double(right, la):
        if la.name is None or la.pos is None:
            return None
        by_name, by_pos = right.argument_by_name(la.name), right.argument_by_position(la.pos)
        if by_name is None or by_pos is None or by_name == by_pos:
            return None
        return by_name.required or by_pos.required

    for la in pa.formal_arguments():
        if double(pb, la) is False and double(pc, la) is True:
            return "callable≤callable≤callable[parameter matched by position and by name; requiredness differs]"
    return None


def left_double_match_cell(a, c) -> str | None:
    """Known false negative behind another transitivity failure among callables (F-C08k): a positional-or-keyword
    parameter of the *right* callable is matched in the left one by two different parameters — by name (through
    `**kwargs` or a parameter at another position) and by position (a differently named positional parameter);
    `callable_corresponding_argument` cannot merge them, picks the by-name candidate, whose position differs from
    the right's, and `a <: c` is rejected although both `a <: b` and `b <: c` hold for a `b` with `*args`."""
    from mypy.types import CallableType, get_proper_type
    pa, pc = get_proper_type(a), get_proper_type(c)
    if not (isinstance(pa, CallableType) and isinstance(pc, CallableType)):
        return None
    for ra in pc.formal_arguments():
        if ra.name is None or ra.pos is None:
            continue
        by_name, by_pos = pa.argument_by_name(ra.name), pa.argument_by_position(ra.pos)
        mergeable = (by_name is not None and by_pos is not None and not (by_name.required or by_pos.required)
                     and by_pos.name is None and by_name.pos is None)
        if by_name is not None and by_pos is not None and by_name != by_pos and not mergeable and by_name.pos != ra.pos:
            return "callable≤callable≤callable[right parameter matched in the left by name and by position by different parameters]"
    return None


def trans_cell(a, b, c) -> str:
    dm = double_match_cell(a, b, c) or left_double_match_cell(a, c)
    if dm:
        return dm
    if kind(b) == "callable" and kind(c) == "builtins.function":
        # anything that is a subtype of a callable without being a function (a class object, an instance with
        # __call__): callable <: builtins.function comes from the fallback, the left type has no such fallback
        return "≤callable≤builtins.function"
    return f"{kind(a)}≤{kind(b)}≤{kind(c)}"


# ------------------------------------------------------------------------------------ real passes
def canon_result(op: str, r) -> str:
    if op in ("sub", "psub"):
        return "1" if r else "0"
    return real.canon_real(r)


def groups_of(idx: list[int], size: int) -> list[list[int]]:
    return [idx[i:i + size] for i in range(0, len(idx), size)]


def run_block(u: Universe, ops: real.Ops, qs, cold_canon, problems: list, label: str) -> None:
    """One reset, then the queries in the given order: every answer must equal the cold one."""
    ops.reset()
    for pos, (op, a, b) in enumerate(qs):
        r = canon_result(op, ops.run(op, [u.types[a], u.types[b]]))
        if r != cold_canon[(op, a, b)] and len(problems) < 8:
            problems.append({"pass": label, "query": [op, u.names[a], u.names[b]], "cold": cold_canon[(op, a, b)][:300],
                             "warm": r[:300], "warmup": [[o, u.names[x], u.names[y]] for (o, x, y) in qs[:pos]]})


def real_passes(ctx: Ctx, u: Universe, ops: real.Ops, idx: list[int], tag: str, cache_passes: bool = True):
    """Cold / warm / cold-again over all ordered pairs of `idx`.
    Returns (results of the first cold pass: dict (op,i,j) -> raw result, list of cache-dependence findings)."""
    cold: dict[tuple[str, int, int], object] = {}
    cold_canon: dict[tuple[str, int, int], str] = {}
    t0 = time.time()
    for i in idx:
        for j in idx:
            for op in OPS:
                ops.reset()
                r = ops.run(op, [u.types[i], u.types[j]])
                cold[(op, i, j)] = r
                cold_canon[(op, i, j)] = canon_result(op, r)
    ctx.coverage[f"real_cold_pass_s_{tag}"] = round(time.time() - t0, 1)
    problems: list = []
    if not cache_passes:
        # (pairs of callables never reach the Instance caches: cold answers only)
        return cold, problems
    # warm pass: blocks of related queries (two groups of 8 types, all ops, both directions), shuffled, one reset
    # per block — every query is answered with the caches filled by the other queries of its block
    order = list(idx)
    ctx.rng.shuffle(order)
    gs = groups_of(order, 8)
    nblocks = 0
    for gi in range(len(gs)):
        for gj in range(gi, len(gs)):
            pairs = [(a, b) for a in gs[gi] for b in gs[gj]]
            if gi != gj:
                pairs += [(b, a) for a in gs[gi] for b in gs[gj]]
            qs = [(op, a, b) for (a, b) in pairs for op in OPS]
            ctx.rng.shuffle(qs)
            nblocks += 1
            run_block(u, ops, qs, cold_canon, problems, "warm")
    if tag == "main":
        # structural block: protocols, the classes/instances that may implement them, Type[...] and callables all in
        # one block, run in a shuffled order and in the reverse of it, so that for any two of its queries each
        # comes before the other once (a check of a class object against a protocol before the check of the instance)
        by_kind = {k: [i for i in idx if kind(u.types[i]) == k] for k in ("protocol", "type[C]", "instance", "callable")}
        special = by_kind["protocol"][:12] + by_kind["type[C]"][:12] + by_kind["instance"][:16] + by_kind["callable"][:8]
        qs = [(op, a, b) for a in special for b in special for op in ("sub", "psub")]
        ctx.rng.shuffle(qs)
        run_block(u, ops, qs, cold_canon, problems, "warm (protocol block)")
        run_block(u, ops, list(reversed(qs)), cold_canon, problems, "warm (protocol block, reversed)")
        nblocks += 2
    ctx.coverage[f"warm_blocks_{tag}"] = nblocks
    # cold again
    for i in idx:
        for j in idx:
            for op in OPS:
                ops.reset()
                r = canon_result(op, ops.run(op, [u.types[i], u.types[j]]))
                if r != cold_canon[(op, i, j)] and len(problems) < 8:
                    problems.append({"pass": "cold-again", "query": [op, u.names[i], u.names[j]],
                                     "cold": cold_canon[(op, i, j)][:300], "again": r[:300], "warmup": []})
    ctx.count("cache_independence_queries", 3 * len(idx) * len(idx) * len(OPS))
    return cold, problems


def cache_cell(u: Universe, pr: dict) -> str:
    """Cell of a cache-dependent answer.  Known (F-C08f): a callback protocol (only member `__call__`) meets a
    nominal instance, directly or as union items — `is_protocol_implementation(..., class_obj=True)` records its
    positive result under (instance, protocol), so the answer flips from the cold one after a class-object check."""
    from mypy.types import Instance, UnionType, get_proper_type

    def atoms(t):
        t = get_proper_type(t)
        return [get_proper_type(i) for i in t.items] if isinstance(t, UnionType) else [t]
    ts = [a for n in pr["query"][1:] for a in atoms(u.types[u.index[n]])]
    cb = [t for t in ts if isinstance(t, Instance) and t.type.is_protocol and t.type.protocol_members == ["__call__"]]
    other = [t for t in ts if isinstance(t, Instance) and not t.type.is_protocol]
    if cb and other and pr["pass"].startswith("warm"):
        return "instance×callback-protocol[answer changes after a class-object check]"
    return "×".join(kind(u.types[u.index[n]]) for n in pr["query"][1:])


# ------------------------------------------------------------------------------------ correspondence
def simp_lists(ctx: Ctx, u: Universe) -> list[list[int]]:
    """Item lists (indices of model types) for make_simplified_union: structured ones hitting the literal fast path
    and the two-pass removal, plus random ones."""
    want = [["Literal[1]", "int", "Literal[2]"], ["Literal[1]", "Literal[2]", "int"], ["int", "Literal[1]", "Literal[2]"],
            ["B", "A", "D"], ["D", "B", "A"], ["A", "D", "B", "C"], ["None", "A", "B"], ["Literal[b'a']", "Literal[1]", "bytes"],
            ["NoReturn", "A", "NoReturn"], ["A | None", "B", "None"], ["Tuple[B, B]", "Tuple[A, B]", "Tuple[A, A]"],
            ["Co[B]", "Co[A]", "CoSub"], ["Callable[[A], B]", "Callable[[B], A]", "Callable[[B], B]"],
            ["Type[B]", "Type[A]", "Callable[[], A]"], ["B | C", "A", "E"], ["Literal[1] | Literal[2]", "Literal[2]", "int"]]
    out = [[u.index[x] for x in l] for l in want if all(x in u.index for x in l)]
    for _ in range(ctx.pick(150, 1500)):
        out.append([ctx.rng.choice(u.model_idx) for _ in range(ctx.rng.randint(3, 5))])
    return out


def correspondence(ctx: Ctx, u: Universe, ops: real.Ops, cold) -> list[dict]:
    """Model (driver) vs real on all ordered pairs of model-fragment types.  Returns the differences."""
    hier = u.w.classes.export()
    lines = list(hier) + ["Q hok"]
    M = u.model_idx
    lines += [f"Q hyp {u.term[i]}" for i in M]
    queries: list[tuple[str, tuple[int, ...]]] = []
    for i in M:
        for j in M:
            for op in OPS:
                queries.append((op, (i, j)))
                lines.append(f"Q {op} {u.term[i]} | {u.term[j]}")
    lists = simp_lists(ctx, u)
    for l in lists:
        queries.append(("simp", tuple(l)))
        lines.append("Q simp " + " | ".join(u.term[i] for i in l))   # type: ignore[misc]
    t0 = time.time()
    out = ctx.lean_driver("Driver/C08.lean", lines, timeout=3000)
    ctx.coverage["driver_s"] = round(time.time() - t0, 1)
    if len(out) != len(lines):
        raise ToolFailure(f"driver returned {len(out)} lines for {len(lines)}")
    if any(o != "ok" for o in out[:len(hier)]):
        raise ToolFailure("driver rejected a hierarchy line: " + str([o for o in out[:len(hier)] if o != "ok"][:3]))
    diffs: list[dict] = []
    hok = out[len(hier)]
    ctx.coverage["hierarchy_ok"] = hok
    ctx.coverage["hierarchy"] = hier
    if hok != "1":
        diffs.append({"kind": "hierarchy", "what": "the class table exported from the real TypeInfos does not satisfy Hier.ok "
                      "(the hypotheses of the theorems)", "table": hier})
    wf = out[len(hier) + 1: len(hier) + 1 + len(M)]
    for i, o in zip(M, wf):
        if o[:1] != "1":
            diffs.append({"kind": "wf", "what": f"term of {u.names[i]} is not well-formed for the model", "term": u.term[i]})
        # which hypotheses of the join/meet/transitivity theorems the term satisfies (wf, noFunc, latOk)
        ctx.dist("model_terms_wf_noFunc_latOk", o)
    res = out[len(hier) + 1 + len(M):]
    skipped = 0
    for (op, idx), m in zip(queries, res):
        if m.startswith("bad-"):
            raise ToolFailure(f"driver could not parse a query: {op} {[u.names[i] for i in idx]} -> {m}")
        if len(idx) == 2 and (op, idx[0], idx[1]) in cold:
            r = cold[(op, idx[0], idx[1])]
        else:
            ops.reset()
            r = ops.run(op, [u.types[i] for i in idx])
        ctx.dist("correspondence_op", op)
        if op in ("sub", "psub"):
            rr = "1" if r else "0"
            ctx.dist(f"result_{op}", rr)
            mm = m
        else:
            rt = u.terms.to_term(r)
            if rt is None:
                # the real result left the fragment (e.g. join(Literal[1], Type[A]) is Any): not compared
                skipped += 1
                ctx.dist("result_outside_fragment", f"{op}:{kind(u.types[idx[0]])}×{kind(u.types[idx[1]])}")
                continue
            rr = real.canon_term(rt)
            mm = real.canon_term(m)
            ctx.dist(f"result_{op}", kind(r))
        nontrivial = len(set(idx)) > 1
        ctx.case((op,) + tuple(u.names[i] for i in idx), nontrivial=nontrivial)
        if rr != mm:
            diffs.append({"kind": "op", "op": op, "operands": [u.names[i] for i in idx], "real": rr, "model": mm})
    ctx.count("traces_validated_against_impl", len(queries) - skipped)
    ctx.coverage["results_outside_fragment_not_compared"] = skipped
    ctx.coverage["model_universe"] = len(M)
    ctx.coverage["simplify_lists"] = len(lists)
    for i in M:
        ctx.dist("model_type_kind", kind(u.types[i]))
    if queries:
        k = len(queries) // 2
        ctx.sample({"query": [queries[k][0]] + [u.names[i] for i in queries[k][1]], "model": res[k]})
    return diffs


# ------------------------------------------------------------------------------------ search: the laws on the real code
def law_search(ctx: Ctx, u: Universe, ops: real.Ops, cold, idx: list[int], tag: str, reported: set) -> int:
    """Evaluate every law on the real functions over all ordered pairs / triples of `idx`; report failing instances.
    Returns the number of failing instances seen (known findings included)."""
    n = len(idx)
    T = [u.types[i] for i in idx]
    N = [u.names[i] for i in idx]
    sub = [[bool(cold[("sub", i, j)]) for j in idx] for i in idx]
    psub = [[bool(cold[("psub", i, j)]) for j in idx] for i in idx]
    failures = 0

    def report(observed: dict, what: str, detail: dict) -> None:
        nonlocal failures
        failures += 1
        key = (observed["class"], observed.get("cell"))
        ctx.dist("law_failures", f"{key[0]}:{key[1]}")
        if key in reported:
            return            # one report per (law, cell)
        reported.add(key)
        detail = dict(detail, **u.replay_detail())
        ctx.report(observed, what, detail)

    def S(a, b) -> bool:
        ops.reset()
        return bool(ops.is_subtype(a, b))

    for i in range(n):
        ctx.dist("universe_kind", kind(T[i]))
        if not sub[i][i]:
            report({"class": "not-reflexive", "cell": kind(T[i])}, f"is_subtype({N[i]}, {N[i]}) is False",
                   {"law": "refl", "operands": [N[i]]})
        for j in range(n):
            a, b = T[i], T[j]
            if psub[i][j] and not sub[i][j]:
                report({"class": "proper-not-subtype", "cell": f"{kind(a)}×{kind(b)}"},
                       f"is_proper_subtype({N[i]}, {N[j]}) but not is_subtype", {"law": "proper_imp_sub", "operands": [N[i], N[j]]})
            J = cold[("join", idx[i], idx[j])]
            ja, jb = S(a, J), S(b, J)
            if not (ja and jb):
                ca, cb, cop = bound_core(ops, a, b, "join")
                report(bound_observed(ops, ca, cb, cop),
                       f"join_types({N[i]}, {N[j]}) = {J} is not a supertype of its {'first' if not ja else 'second'} operand",
                       {"law": "join_upper", "operands": [N[i], N[j]], "join": str(J), "first_ok": ja, "second_ok": jb})
            Mt = cold[("meet", idx[i], idx[j])]
            ma, mb = S(Mt, a), S(Mt, b)
            if not (ma and mb):
                ca, cb, cop = bound_core(ops, a, b, "meet")
                report(bound_observed(ops, ca, cb, cop),
                       f"meet_types({N[i]}, {N[j]}) = {Mt} is not a subtype of its {'first' if not ma else 'second'} operand",
                       {"law": "meet_lower", "operands": [N[i], N[j]], "meet": str(Mt), "first_ok": ma, "second_ok": mb})
            Sm = cold[("simp", idx[i], idx[j])]
            R = ops.UnionType([a, b])
            if not (S(Sm, R) and S(R, Sm)):
                report({"class": "simplify-not-equivalent", "cell": f"{kind(a)}×{kind(b)}"},
                       f"make_simplified_union([{N[i]}, {N[j]}]) = {Sm} is not equivalent to the plain union",
                       {"law": "simplify_equiv", "operands": [N[i], N[j]], "simplified": str(Sm)})
            S2 = cold[("simp", idx[j], idx[i])]
            if i < j and not (S(Sm, S2) and S(S2, Sm)):
                report({"class": "simplify-order-dependent", "cell": f"{kind(a)}×{kind(b)}"},
                       f"make_simplified_union of [{N[i]}, {N[j]}] in the two orders gives inequivalent {Sm} / {S2}",
                       {"law": "simplify_perm", "operands": [N[i], N[j]], "results": [str(Sm), str(S2)]})
            ctx.count("law_instances_checked", 6)
    # transitivity over all triples (bitsets): a <: b and b <: c but not a <: c
    rows = [sum(1 << k for k in range(n) if sub[i][k]) for i in range(n)]
    prows = [sum(1 << k for k in range(n) if psub[i][k]) for i in range(n)]
    for i in range(n):
        for j in range(n):
            if not sub[i][j]:
                continue
            bad = rows[j] & ~rows[i]
            while bad:
                k = (bad & -bad).bit_length() - 1
                bad &= bad - 1
                ca, cb, cc = trans_core(ops, T[i], T[j], T[k])
                report({"class": "trans-fails", "cell": trans_cell(ca, cb, cc)},
                       f"transitivity: {N[i]} <: {N[j]} and {N[j]} <: {N[k]} but not {N[i]} <: {N[k]}",
                       {"law": "trans", "operands": [N[i], N[j], N[k]]})
    ctx.count("law_instances_checked", n * n * n)
    # proper subtyping is not part of the property's transitivity clause; counted for information only
    # (the model proves it transitive on its fragment; classes with __call__ break it outside)
    pbad = 0
    for i in range(n):
        for j in range(n):
            if psub[i][j] and (prows[j] & ~prows[i]):
                pbad += 1
    ctx.coverage[f"proper_transitivity_failing_pairs_informational_{tag}"] = pbad
    ctx.coverage[f"triples_checked_{tag}"] = n * n * n
    if tag != "main":
        return failures
    T, N = u.types, u.names
    # permutation invariance of simplification on longer lists
    for l in simp_lists(ctx, u)[:ctx.pick(60, 400)]:
        base = None
        for perm in itertools.islice(itertools.permutations(l), 24):
            ops.reset()
            r = ops.make_simplified_union([T[i] for i in perm])
            R = ops.UnionType([T[i] for i in perm])
            if not (S(r, R) and S(R, r)):
                report({"class": "simplify-not-equivalent", "cell": "list:" + "|".join(sorted({kind(T[i]) for i in l}))},
                       f"make_simplified_union({[N[i] for i in perm]}) = {r} is not equivalent to the plain union",
                       {"law": "simplify_equiv", "operands": [N[i] for i in perm], "simplified": str(r)})
            if base is None:
                base = r
            elif not (S(r, base) and S(base, r)):
                report({"class": "simplify-order-dependent", "cell": "list:" + "|".join(sorted({kind(T[i]) for i in l}))},
                       f"make_simplified_union of permutations of {[N[i] for i in l]} gives inequivalent {base} / {r}",
                       {"law": "simplify_perm", "operands": [N[i] for i in perm], "results": [str(base), str(r)]})
            ctx.count("law_instances_checked", 2)
    return failures


# ------------------------------------------------------------------------------------ main
def main(ctx: Ctx) -> None:
    ctx.level = "proof"
    ctx.coverage["rule"] = ("universe = real types of a fixture module (fixed depth ≤ 1 exhaustive list, fixed depth-2 list, random "
                            "depth 2–4 annotations, types outside the model); a case = one (operation, operand tuple) compared "
                            "between model and code, non-trivial when the operands differ; laws are evaluated on all ordered "
                            "pairs and all triples of the whole universe")
    proved = ctx.prove("MypyVerif.Props.C08", MODEL_FILES)
    ctx.trusted("model: Model/Types.lean transcribes is_subtype/is_proper_subtype/join_types/meet_types/make_simplified_union "
                "for the Any-free fragment described in its header; `Type.__eq__` (set comparison of union items) is modelled "
                "by structural equality; protocol ancestors of tuple/Sequence are contracted out of the exported class table",
                "harness/c08 (fixture, term conversion, class-table export, canonicalisation by sorted union items)",
                "outside the model and covered by the law search only: protocols, TypedDicts, NamedTuples, enums/bool, "
                "promotions (float), variadic tuples, callables with optional/star/keyword parameters, type variables")
    ctx.assume("strict optional; no plugins; declared types only (no last_known_value, no extra_attrs)")
    u = Universe(ctx)
    ops = real.Ops()
    ctx.coverage["universe_size"] = len(u.main_idx)
    ctx.coverage["callable_family_size"] = len(u.fam_idx)
    cold, cache_problems = real_passes(ctx, u, ops, u.main_idx, "main")
    cold_f, cache_problems_f = real_passes(ctx, u, ops, u.fam_idx, "family", cache_passes=False)
    cold_n, cache_problems_n = real_passes(ctx, u, ops, u.nest_idx, "nest")
    cache_problems_f = cache_problems_f + cache_problems_n
    ctx.coverage["nest_family_size"] = len(u.nest_idx)
    seen_cells: set[str] = set()
    for pr in cache_problems + cache_problems_f:
        cell = cache_cell(u, pr)
        if cell in seen_cells:
            continue
        seen_cells.add(cell)
        ctx.report({"class": "cache-dependent-answer", "cell": cell},
                   f"{pr['query'][0]}({pr['query'][1]}, {pr['query'][2]}) answers differently depending on the subtype caches "
                   f"({pr['pass']} pass)", dict(pr, **u.replay_detail()))
    nviol_cache = len(ctx.violations)
    diffs = correspondence(ctx, u, ops, cold)
    ctx.coverage["correspondence_differences"] = len(diffs)
    ctx.count("disagreements_checked", len(diffs))
    nviol_before = len(ctx.violations)
    reported: set = set()
    law_search(ctx, u, ops, cold, u.main_idx, "main", reported)
    law_search(ctx, u, ops, cold_f, u.fam_idx, "family", reported)
    law_search(ctx, u, ops, cold_n, u.nest_idx, "nest", reported)
    if diffs and len(ctx.violations) == nviol_before and nviol_cache == 0:
        d = diffs[0]
        ctx.violation(f"correspondence broken: model ≠ code on {len(diffs)} case(s), first: {json.dumps(d)[:400]}; "
                      "no law instance was seen to fail on the real functions",
                      {"broken": "correspondence Driver/C08 vs mypy.subtypes/join/meet/typeops", "differences": diffs[:20],
                       **u.replay_detail()}, found_input=False)
    if not proved and not ctx.violations:
        ctx.violation("Lean development for C08 no longer builds", {"broken": ctx.broken_ties}, found_input=False)


# ------------------------------------------------------------------------------------ replay
def replay(ctx: Ctx, path: str) -> int:
    body = json.load(open(path))
    rep = body["replay"]
    det = rep.get("detail", rep)
    anns = det.get("annotations") or rep.get("annotations")
    u = Universe(ctx, annotations=anns, family=det.get("family") or rep.get("family"),
                 nest_thorough=det.get("nest_thorough", rep.get("nest_thorough")))
    ops = real.Ops()

    def ty(name: str):
        return u.types[u.index[name]]

    if "law" in det:
        names = det["operands"]
        ts = [ty(x) for x in names]
        law = det["law"]
        print(f"law {law} on {names}")
        if law in ("trans", "proper-trans"):
            f = ops.is_subtype if law == "trans" else ops.is_proper_subtype
            print("  a<:b", f(ts[0], ts[1]), " b<:c", f(ts[1], ts[2]), " a<:c", f(ts[0], ts[2]))
        elif law == "refl":
            print("  a<:a", ops.is_subtype(ts[0], ts[0]))
        elif law == "proper_imp_sub":
            print("  proper", ops.is_proper_subtype(ts[0], ts[1]), " sub", ops.is_subtype(ts[0], ts[1]))
        elif law == "join_upper":
            j = ops.join_types(ts[0], ts[1])
            print("  join =", j, " a<:join", ops.is_subtype(ts[0], j), " b<:join", ops.is_subtype(ts[1], j))
        elif law == "meet_lower":
            m = ops.meet_types(ts[0], ts[1])
            print("  meet =", m, " meet<:a", ops.is_subtype(m, ts[0]), " meet<:b", ops.is_subtype(m, ts[1]))
        else:
            s = ops.make_simplified_union(list(ts))
            r = ops.UnionType(list(ts))
            print("  simplified =", s, " s<:union", ops.is_subtype(s, r), " union<:s", ops.is_subtype(r, s))
    elif "query" in det:
        op, a, b = det["query"]
        ops.reset()
        c1 = canon_result(op, ops.run(op, [ty(a), ty(b)]))
        ops.reset()
        for (o, x, y) in det.get("warmup", []):
            ops.run(o, [ty(x), ty(y)])
        w = canon_result(op, ops.run(op, [ty(a), ty(b)]))
        print(f"{op}({a}, {b}): cold {c1[:200]} / after warm-up {w[:200]}")
    elif "differences" in rep:
        for d in rep["differences"][:20]:
            if d.get("kind") == "op":
                ops.reset()
                r = ops.run(d["op"], [ty(x) for x in d["operands"]])
                print(d["op"], d["operands"], "real now:", r, " recorded real:", d["real"], " model:", d["model"])
            else:
                print(d)
    else:
        print(json.dumps(rep)[:2000])
    return 0
