"""Fixture module and type universe for C08.

The fixture is type-checked by the real mypy in-process; every universe member is the declared type of a
module-level variable (or function), i.e. a real `mypy.types.Type` built by the real semantic analyser.

`MODEL_*`  : annotations whose types fall inside the Lean model's fragment (checked by `real.to_term`, which
             returns None for anything else — a model annotation that does not convert is a tool failure);
`EXTRA_*`  : Any-free types outside the model (protocols, TypedDicts, NamedTuple, enum, bool, float, variadic
             tuples, callables with all argument kinds, type variables with bounds) — search only.
No implicit-Any form (bare `type`, bare generics, `Callable[..., T]`) appears anywhere.
"""
from __future__ import annotations

import itertools

PRELUDE = '''
from typing import (Generic, TypeVar, Callable, Literal, Type, Sequence, Optional, Union, NoReturn, Tuple,
                    NamedTuple, Protocol, TypedDict, Iterable, Mapping, List, Dict)
from typing_extensions import Unpack, ReadOnly
import enum
T = TypeVar("T"); Tco = TypeVar("Tco", covariant=True); Tcn = TypeVar("Tcn", contravariant=True)
class A: pass
class B(A): pass
class C(A): pass
class D(B, C): pass
class E: pass
class F(E, A): pass
class Inv(Generic[T]): pass
class Co(Generic[Tco]): pass
class Cn(Generic[Tcn]): pass
class Sub(Inv[A]): pass
class CoSub(Co[B]): pass
class CoP(Co[Tco]): pass
class CnP(Cn[Tcn]): pass
class InvCo(Co[T]): pass
# ---- outside the model ----
class P(Protocol):
    def m(self) -> int: ...
class PI:
    def m(self) -> int: raise NotImplementedError
class P2(Protocol):
    x: int
class PX:
    x: int = 0
class PG(Protocol[Tco]):
    def get(self) -> Tco: ...
class GA:
    def get(self) -> A: raise NotImplementedError
class GB:
    def get(self) -> B: raise NotImplementedError
class Color(enum.Enum):
    R = 1
    G = 2
class TD(TypedDict):
    x: int
class TD2(TypedDict):
    x: int
    y: str
class TDb(TypedDict):
    x: int
class MyT(Tuple[A, B]): pass
class TDopt(TypedDict, total=False):
    x: int
class NT(NamedTuple):
    a: A
    b: B
TB = TypeVar("TB", bound=A)
class BoundG(Generic[TB]): pass
class Factory(Protocol):
    def __call__(self) -> A: ...
class WithCall:
    def __call__(self, a: A) -> B: raise NotImplementedError
def f_opt(a: A, b: B = ...) -> A: raise NotImplementedError
def f_star(a: A, *args: B) -> A: raise NotImplementedError
def f_kw(a: A, *, k: B) -> A: raise NotImplementedError
def f_kwopt(a: A, *, k: B = ...) -> A: raise NotImplementedError
def f_star2(a: A, **kw: B) -> A: raise NotImplementedError
def f_all(a: A, b: B = ..., *args: A, k: B, **kw: A) -> A: raise NotImplementedError
def f_named(a: A) -> A: raise NotImplementedError
def f_named2(b: A) -> A: raise NotImplementedError
'''

ATOMS = ["A", "B", "C", "D", "E", "F", "object", "None", "NoReturn", "int", "bytes",
         "Literal[1]", "Literal[2]", "Literal[b'a']"]

# depth-1 model types: every constructor over small sets of atoms
CLS = ["A", "B", "C", "D", "E"]


def model_depth1() -> list[str]:
    out: list[str] = []
    for g in ["Inv", "Co", "Cn", "CoP", "CnP", "InvCo", "Sequence"]:
        for a in ["A", "B", "E"]:
            out.append(f"{g}[{a}]")
    out += ["Sub", "CoSub", "Co[None]", "Co[NoReturn]", "Inv[None]", "Cn[object]", "Co[object]", "Cn[NoReturn]",
            "Inv[NoReturn]", "Cn[None]", "Inv[object]", "CnP[NoReturn]", "Sequence[NoReturn]", "Sequence[bytes]",
            "Sequence[int]", "Co[int]", "Co[Literal[1]]"]
    for a in ["A", "B", "E", "int", "bytes", "NoReturn"]:
        out.append(f"Tuple[{a}, ...]")
    for a in ["A", "B", "D", "Co[A]", "Sub"]:
        out.append(f"Type[{a}]")
    out += ["Tuple[()]", "Tuple[A]", "Tuple[B]", "Tuple[A, B]", "Tuple[B, A]", "Tuple[B, B]", "Tuple[A, A]",
            "Tuple[B, E]", "Tuple[int, bytes]", "Tuple[bytes, bytes]", "Tuple[A, B, C]", "Tuple[None, A]"]
    out += ["Callable[[], A]", "Callable[[], B]", "Callable[[], None]", "Callable[[], object]",
            "Callable[[A], A]", "Callable[[A], B]", "Callable[[B], A]", "Callable[[B], B]", "Callable[[E], A]",
            "Callable[[object], B]", "Callable[[A, B], A]", "Callable[[B, B], B]", "Callable[[A, A], A]",
            "Callable[[None], A]", "Callable[[NoReturn], A]", "Callable[[int], bytes]"]
    out += ["A | None", "None | A", "B | C", "C | B", "A | E", "B | E", "D | E", "int | bytes", "bytes | int",
            "int | None", "Literal[1] | Literal[2]", "Literal[2] | Literal[1]", "Literal[1] | bytes",
            "Literal[b'a'] | int", "Literal[1] | int", "A | B | E", "E | B | A", "B | C | None", "object | None"]
    return out


def model_depth2() -> list[str]:
    return [
        "Co[A | None]", "Co[B | None]", "Inv[A | B]", "Inv[B | A]", "Inv[B | C]", "Cn[A | E]", "Cn[B | C]",
        "Co[Co[B]]", "Co[Co[A]]", "Cn[Cn[A]]", "Cn[Cn[B]]", "Inv[Co[B]]", "Co[Inv[A]]", "Co[Sub]",
        "Tuple[A | None, B]", "Tuple[B | C, A]", "Tuple[Tuple[A], B]", "Tuple[Tuple[B], B]", "Tuple[Co[B], Cn[A]]",
        "Tuple[A | B, ...]", "Tuple[Tuple[A, B], ...]", "Sequence[Tuple[A, B]]", "Sequence[A | None]",
        "Callable[[A | None], B]", "Callable[[A], B | None]", "Callable[[Callable[[B], A]], A]",
        "Callable[[Callable[[A], B]], B]", "Callable[[], Callable[[], B]]", "Callable[[Co[A]], Cn[B]]",
        "Cn[Callable[[], A]]", "Cn[Type[A]]", "Co[Callable[[], A]]", "Co[Type[A]]", "Co[Type[B]]",
        "Inv[Type[A]]", "Inv[Callable[[], A]]", "Type[A] | None", "Type[A] | Type[E]", "Type[B] | Callable[[], A]",
        "Tuple[Type[B], A]", "Tuple[Callable[[], B], A]", "Callable[[Type[A]], A]", "Callable[[Callable[[], A]], A]",
        "Co[A] | Co[E]", "Inv[A] | Inv[B]", "Co[B] | Sub | None", "Tuple[A, B] | Tuple[B, A]",
        "Tuple[A] | Tuple[A, B]", "Co[Literal[1] | Literal[2]]", "Tuple[Literal[1], Literal[b'a']]",
        "Callable[[int], Literal[1]]", "Callable[[Literal[1]], int]", "Co[Tuple[A, B]]", "Cn[Tuple[A, B]]",
        "Co[Tuple[B, ...]]", "Sequence[Sequence[B]]", "Type[Co[B]]", "Type[Inv[A]]",
        # wrappers around the F-C08b cell (meet of contravariant generics over Type[...] / Callable) and, with NT, F23
        "Callable[[Cn[Callable[[], A]]], A]", "Callable[[Cn[Type[A]]], A]", "Tuple[Cn[Callable[[], A]]]",
        "Tuple[Cn[Type[A]]]", "Co[Cn[Type[A]]]", "Co[Cn[Callable[[], A]]]", "Co[Tuple[B, A]]", "Tuple[Tuple[B, A], A]",
    ]


EXTRA = [
    "str", "Literal['a']", "Sequence[str]", "Tuple[str, ...]", "int | str", "Literal['a'] | int", "Tuple[int, str]",
    "Callable[[int], str]", "P", "PI", "P2", "PX", "PG[A]", "PG[B]", "GA", "GB", "Color", "Literal[Color.R]", "Literal[Color.G]",
    "Literal[Color.R] | Literal[Color.G]", "bool", "Literal[True]", "Literal[True] | Literal[False]", "float",
    "int | float", "TD", "TD2", "TDopt", "NT", "BoundG[B]", "BoundG[A]", "WithCall", "Factory", "Type[Color]",
    "Type[NT]", "Mapping[str, A]", "Mapping[str, B]", "Iterable[A]", "Iterable[B]",
    "Tuple[A, Unpack[Tuple[B, ...]]]", "Tuple[Unpack[Tuple[A, ...]], B]", "Tuple[A, Unpack[Tuple[A, ...]], B]",
    "Tuple[bool, int]", "Tuple[int, int]", "Co[float]", "Co[bool]", "Inv[int]", "Inv[float]", "Cn[float]", "Cn[int]",
    "Callable[[float], int]", "Callable[[int], float]", "Callable[[P], A]", "Tuple[P, PI]", "Co[P]", "Co[PI]",
    "NT | None", "Tuple[NT, A]", "Callable[[], NT]", "TD | TD2", "Type[PI]", "Sequence[float]", "Tuple[float, ...]", "Co[NT]", "Cn[NT]",
]
EXTRA_FUNCS = ["f_opt", "f_star", "f_kw", "f_kwopt", "f_star2", "f_all", "f_named", "f_named2"]


def source(annotations: list[str], extra: str = "") -> str:
    return PRELUDE + extra + "\n".join(f"v{i}: {a}" for i, a in enumerate(annotations)) + "\n"


# ---------------------------------------------------------------------------- callables over all argument kinds
# (search only).  Kinds: po positional-only, pk positional-or-keyword, ok optional positional-or-keyword,
# va *args, ko keyword-only, oko optional keyword-only, kw **kwargs.  The i-th parameter is called x / y / z, so
# that the same name occurs with different kinds across the family (by-name matching against **kwargs etc.).
KINDS = ["po", "pk", "ok", "va", "ko", "oko", "kw"]
PNAMES = ["x", "y", "z"]
_RANK = {"po": 0, "pk": 1, "ok": 1, "va": 2, "ko": 3, "oko": 3, "kw": 4}


def valid_kinds(ks: tuple[str, ...]) -> bool:
    ranks = [_RANK[k] for k in ks]
    if ranks != sorted(ranks) or ks.count("va") > 1 or ks.count("kw") > 1:
        return False
    seen_opt = False
    for k in ks:
        if k == "ok":
            seen_opt = True
        elif k in ("po", "pk") and seen_opt:
            return False
    return True


def render_sig(ks: tuple[str, ...], ts: tuple[str, ...], names: list[str] | None = None) -> str:
    """Parameter list of a def with the given kinds and parameter types."""
    parts: list[str] = []
    star_done = False
    for i, (k, t) in enumerate(zip(ks, ts)):
        n = (names or PNAMES)[i]
        if k == "po":
            parts.append(f"{n}: {t}")
            if i + 1 == len(ks) or ks[i + 1] != "po":
                parts.append("/")
        elif k == "pk":
            parts.append(f"{n}: {t}")
        elif k == "ok":
            parts.append(f"{n}: {t} = ...")
        elif k == "va":
            parts.append(f"*args: {t}")
            star_done = True
        elif k in ("ko", "oko"):
            if not star_done:
                parts.append("*")
                star_done = True
            parts.append(f"{n}: {t}" + (" = ..." if k == "oko" else ""))
        else:
            parts.append(f"**kw: {t}")
    return ", ".join(parts)


def callable_family(rng, thorough: bool) -> list[tuple[str, str]]:
    """[(universe name, def source)]: all 1-parameter signatures over 3 types, all valid 2-parameter kind pairs over
    {A, B} (thorough: over 3 types) under two namings, a random sample of 3-parameter ones."""
    import itertools
    sigs: list[tuple[tuple[str, ...], tuple[str, ...]]] = []
    for k in KINDS:
        for t in ("A", "B", "int"):
            sigs.append(((k,), (t,)))
    types2 = ("A", "B", "int") if thorough else ("A", "B")
    for ks in itertools.product(KINDS, repeat=2):
        if valid_kinds(ks):
            for ts in itertools.product(types2, repeat=2):
                sigs.append((ks, ts))
    k3 = [ks for ks in itertools.product(KINDS, repeat=3) if valid_kinds(ks)]
    # fixed representatives of the F-C08j cell (same parameter reachable through *args and by keyword)
    sigs.append((("ok", "ok", "va"), ("A", "A", "B")))
    sigs.append((("ok", "va", "kw"), ("A", "A", "A")))
    for _ in range(260 if thorough else 30):
        sigs.append((rng.choice(k3), tuple(rng.choice(("A", "B", "int")) for _ in range(3))))
    out, seen = [], set()
    rendered = [render_sig(ks, ts) for ks, ts in sigs]
    # the 2-parameter signatures once more with the names swapped (same name at another position / kind)
    rendered += [render_sig(ks, ts, ["y", "x", "z"]) for ks, ts in sigs if len(ks) == 2]
    for sig in rendered:
        if sig in seen:
            continue
        seen.add(sig)
        fname = f"g{len(out)}"
        out.append((f"def ({sig})", f"def {fname}({sig}) -> A: raise NotImplementedError\n"))
    return out


# ---------------------------------------------------------------------------- nested near-equal pairs (search only)
# Base types that are look-alikes / mutual non-proper subtypes of one another (a NamedTuple, a tuple subclass and the
# plain tuple of the same shape; two TypedDicts with the same keys; an enum and the union of its literals; A | B and
# A; Type[A] and its constructor signature; int / Literal / float) and Never / None / object, each also wrapped in
# generics of every variance, list / dict / Sequence / Mapping, a tuple, and a mutable and a ReadOnly TypedDict item.
NEST_BASES_QUICK = ["NT", "Tuple[A, B]", "MyT", "TD", "TDb", "Literal[1]", "int", "Color",
                    "Literal[Color.R] | Literal[Color.G]", "NoReturn", "None", "object", "A", "A | B", "Type[A]"]
NEST_BASES_MORE = ["TD2", "Callable[[], A]", "TDopt", "bool", "Literal[True] | Literal[False]", "float", "int | float", "B | A", "Literal[Color.R]",
                   "Tuple[A, A]", "Tuple[A, ...]", "Callable[[A], A]", "Type[B]", "PI", "P"]
NEST_WRAPPERS_QUICK = ["Inv[{}]", "Co[{}]", "Cn[{}]", "List[{}]", "Tuple[{}, A]"]
NEST_WRAPPERS_MORE = ["Dict[str, {}]", "Sequence[{}]", "Mapping[str, {}]"]


def nest_family(thorough: bool) -> tuple[str, list[tuple[str, str]]]:
    """(extra source with the TypedDict wrapper classes, [(display name, annotation)])."""
    bases = NEST_BASES_QUICK + (NEST_BASES_MORE if thorough else [])
    src = ""
    out: list[tuple[str, str]] = [(b, b) for b in bases]
    for i, b in enumerate(bases):
        for w in NEST_WRAPPERS_QUICK + (NEST_WRAPPERS_MORE if thorough else []):
            out.append((w.format(b), w.format(b)))
        src += f"class NM{i}(TypedDict):\n    k: {b}\nclass NR{i}(TypedDict):\n    k: ReadOnly[{b}]\n"
        out.append((f"TypedDict({{k: {b}}})", f"NM{i}"))
        out.append((f"TypedDict({{k: ReadOnly[{b}]}})", f"NR{i}"))
    return src, out
