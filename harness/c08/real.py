"""The real side of C08: builds the fixture with mypy in-process, converts real `Type`s to model terms (or
None when outside the model's fragment), exports the class table, and asks the real lattice functions."""
from __future__ import annotations

import json
from typing import Any

from harness.vlib.core import ToolFailure


class World:
    """One in-process mypy build of the fixture + handles on everything the check needs."""

    def __init__(self, annotations: list[str], funcs: list[str], extra_source: str = ""):
        from mypy import build
        from mypy.modulefinder import BuildSource
        from mypy.options import Options
        from . import fixture

        opts = Options()
        opts.cache_dir = "/dev/null"
        opts.incremental = False
        opts.show_traceback = True
        src = fixture.source(annotations, extra_source)
        try:
            res = build.build([BuildSource("c08fixture.py", "c08fixture", src)], opts)
        except Exception as e:  # CompileError etc.
            raise ToolFailure(f"mypy could not build the C08 fixture: {e!r}")
        if res.errors:
            raise ToolFailure("C08 fixture does not type-check: " + " | ".join(res.errors[:5]))
        self.result = res
        tree = res.files["c08fixture"]
        self.types: dict[str, Any] = {}
        for i, a in enumerate(annotations):
            self.types[a] = tree.names[f"v{i}"].node.type
        for f in funcs:
            self.types[f] = tree.names[f].node.type
        self.tree = tree
        self.modules = res.manager.modules
        self.classes = ClassTable(self)

    def typeinfo(self, fullname: str):
        mod, _, name = fullname.rpartition(".")
        return self.modules[mod].names[name].node


# ------------------------------------------------------------------------------------ class table
MODEL_BUILTINS = ["builtins.object", "builtins.tuple", "builtins.function", "builtins.type", "builtins.int",
                  "builtins.bytes", "typing.Sequence"]
MODEL_USER = ["A", "B", "C", "D", "E", "F", "Inv", "Co", "Cn", "Sub", "CoSub", "CoP", "CnP", "InvCo"]


class ClassTable:
    """Ids and exported facts of the classes that may occur in model terms."""

    def __init__(self, w: World):
        from mypy.types import TUPLE_LIKE_INSTANCE_NAMES
        self.w = w
        self.infos = []
        for n in MODEL_BUILTINS:
            self.infos.append(w.typeinfo(n))
        for n in MODEL_USER:
            self.infos.append(w.tree.names[n].node)
        self.id = {ti.fullname: i for i, ti in enumerate(self.infos)}
        self.tuple_like = TUPLE_LIKE_INSTANCE_NAMES
        self._check_assumptions()

    def has(self, ti) -> bool:
        return ti.fullname in self.id and self.infos[self.id[ti.fullname]] is ti

    def _check_assumptions(self) -> None:
        """The model's standing assumptions about the classes of its fragment, checked on the real TypeInfos."""
        from mypy.types import Instance
        for ti in self.infos:
            bad = []
            if ti.is_protocol: bad.append("protocol")
            if ti.is_enum: bad.append("enum")
            if ti.tuple_type is not None: bad.append("tuple_type")
            if ti.typeddict_type is not None: bad.append("typeddict")
            if ti.fallback_to_any: bad.append("fallback_to_any")
            if len(ti.defn.type_vars) > 1: bad.append("arity>1")
            if ti.has_type_var_tuple_type: bad.append("variadic")
            if ti.get("__call__") is not None and ti.fullname not in ("builtins.type", "builtins.function"):
                bad.append("__call__")
            if ti.fullname != "builtins.type" and ti.has_base("builtins.type"): bad.append("metaclass")
            if ti.alt_promote is not None: bad.append("alt_promote")
            for p in ti._promote:
                # promotion targets (float) must be outside the table and have nothing but object above them,
                # so that the promotion rule is inert on the model's universe
                if not isinstance(p, Instance) or p.type.fullname in self.id or len(p.type.mro) != 2:
                    bad.append("promotion target inside the fragment")
            if bad:
                raise ToolFailure(f"class {ti.fullname} violates the model's assumptions: {bad}")
        # every proper ancestor of builtins.tuple that is generic and not a protocol is tuple-like
        tup = self.infos[self.id["builtins.tuple"]]
        for anc in tup.mro[1:]:
            if anc.fullname != "builtins.object" and not anc.is_protocol and anc.fullname not in self.tuple_like:
                raise ToolFailure(f"ancestor {anc.fullname} of builtins.tuple is not TUPLE_LIKE")

    def contracted_bases(self, ti) -> list[int]:
        """`ti.bases` with classes outside the table (protocol ancestors such as typing.Collection) replaced by
        their own bases, order kept, duplicates dropped."""
        out: list[int] = []

        def add(info):
            for b in info.bases:
                bt = b.type
                if self.has(bt):
                    if self.id[bt.fullname] not in out:
                        out.append(self.id[bt.fullname])
                else:
                    add(bt)
        add(ti)
        return out

    def export(self) -> list[str]:
        from mypy.maptype import map_instance_to_supertype
        from mypy.typevars import fill_typevars
        from mypy.types import Instance, TypeVarType
        lines = []
        for i, ti in enumerate(self.infos):
            generic = len(ti.defn.type_vars) == 1
            v = "i"
            if generic:
                v = {0: "i", 1: "c", 2: "n"}.get(ti.defn.type_vars[0].variance)
                if v is None:
                    raise ToolFailure(f"variance of {ti.fullname} not ready")
            sups = []
            me = fill_typevars(ti)
            for anc in ti.mro:
                if not self.has(anc):
                    continue
                d = self.id[anc.fullname]
                if not anc.defn.type_vars:
                    sups.append(f"{d}:n")
                    continue
                mapped = map_instance_to_supertype(me, anc) if isinstance(me, Instance) else None
                arg = mapped.args[0] if mapped is not None and mapped.args else None
                if isinstance(arg, TypeVarType) and generic and arg.id == ti.defn.type_vars[0].id:
                    sups.append(f"{d}:p")
                elif isinstance(arg, Instance) and not arg.args and self.has(arg.type):
                    sups.append(f"{d}:c{self.id[arg.type.fullname]}")
                else:
                    raise ToolFailure(f"cannot express the mapping {ti.fullname} -> {anc.fullname}: {arg}")
            bases = self.contracted_bases(ti)
            lines.append("K %d g=%d v=%s m=%d tl=%d b=%s s=%s" % (
                i, int(generic), v, len(ti.mro), int(ti.fullname in self.tuple_like),
                ",".join(map(str, bases)) or "-", ",".join(sups) or "-"))
        lines.append("X object=%d tuple=%d function=%d type=%d" % (
            self.id["builtins.object"], self.id["builtins.tuple"], self.id["builtins.function"], self.id["builtins.type"]))
        return lines


# ------------------------------------------------------------------------------------ terms
class Terms:
    """Real `Type` -> model term (S-expression) or None when outside the fragment; and back."""

    def __init__(self, w: World):
        self.w = w
        self.ct = w.classes
        self.str_values: list[str] = [""]      # index 0 = the empty (falsy) string

    def lit_value(self, v) -> int | None:
        if isinstance(v, bool):
            return None
        if isinstance(v, int):
            return 2 * v if v >= 0 else None
        if isinstance(v, str):
            if v not in self.str_values:
                self.str_values.append(v)
            return 2 * self.str_values.index(v) + 1
        return None

    def to_term(self, t) -> str | None:
        from mypy.nodes import ARG_POS
        from mypy.types import (CallableType, Instance, LiteralType, NoneType, TupleType, TypeType,
                                UninhabitedType, UnionType, UnpackType, get_proper_type)
        t = get_proper_type(t)
        if isinstance(t, UninhabitedType):
            return "N"
        if isinstance(t, NoneType):
            return "O"
        if isinstance(t, Instance):
            if not self.ct.has(t.type) or t.last_known_value is not None or t.extra_attrs:
                return None
            if t.type.fullname == "builtins.type":
                return None              # bare `type` is an implicit-Any form
            c = self.ct.id[t.type.fullname]
            nvars = len(t.type.defn.type_vars)
            if len(t.args) != nvars:
                return None
            if nvars == 0:
                return f"(I {c})"
            a = self.to_term(t.args[0])
            return None if a is None else f"(G {c} {a})"
        if isinstance(t, UnionType):
            items = [self.to_term(i) for i in t.items]
            if any(i is None for i in items):
                return None
            return "(U " + " ".join(items) + ")" if items else "(U)"   # type: ignore[arg-type]
        if isinstance(t, TupleType):
            if t.partial_fallback.type.fullname != "builtins.tuple" or any(isinstance(i, UnpackType) for i in t.items):
                return None
            items = [self.to_term(i) for i in t.items]
            if any(i is None for i in items):
                return None
            return "(T " + " ".join(items) + ")" if items else "(T)"   # type: ignore[arg-type]
        if isinstance(t, CallableType):
            if (t.variables or t.is_ellipsis_args or t.type_guard is not None or t.type_is is not None
                    or t.is_type_obj() or t.fallback.type.fullname != "builtins.function"
                    or any(k != ARG_POS for k in t.arg_kinds) or any(n is not None for n in t.arg_names)
                    or t.param_spec() is not None or t.from_concatenate or t.unpack_kwargs):
                return None
            args = [self.to_term(a) for a in t.arg_types]
            ret = self.to_term(t.ret_type)
            if ret is None or any(a is None for a in args):
                return None
            return "(C (" + " ".join(args) + ") " + ret + ")"          # type: ignore[arg-type]
        if isinstance(t, LiteralType):
            if t.fallback.type.fullname not in ("builtins.int", "builtins.bytes") or t.fallback.args:
                return None
            v = self.lit_value(t.value)
            if v is None:
                return None
            return f"(L {self.ct.id[t.fallback.type.fullname]} {v})"
        if isinstance(t, TypeType):
            if t.is_type_form:
                return None
            item = get_proper_type(t.item)
            if not isinstance(item, (Instance, UninhabitedType)):
                return None           # Type[tuple]/Type[None]/…: constructors the model does not describe
            if isinstance(item, Instance) and (item.type.metaclass_type is not None or item.type.is_abstract
                                               or (item.type.fullname.startswith("builtins.")
                                                   and item.type.fullname != "builtins.object")):
                return None           # metaclasses / overloaded constructors are outside the model
            a = self.to_term(item)
            return None if a is None else f"(Y {a})"
        return None


def canon_term(s: str) -> str:
    """Sort union items recursively (the order of union items is not part of the compared result)."""
    toks = s.replace("(", " ( ").replace(")", " ) ").split()
    pos = 0

    def parse():
        nonlocal pos
        tok = toks[pos]
        if tok != "(":
            pos += 1
            return tok
        pos += 1
        out = []
        while toks[pos] != ")":
            out.append(parse())
        pos += 1
        return out

    def show(x) -> str:
        if isinstance(x, str):
            return x
        if x and x[0] == "U":
            return "(U " + " ".join(sorted(show(i) for i in x[1:])) + ")" if len(x) > 1 else "(U)"
        return "(" + " ".join(show(i) for i in x) + ")"

    return show(parse())


def canon_real(t) -> str:
    """Canonical text of any real type (also outside the model): serialised form with union items sorted."""
    def norm(x):
        if isinstance(x, dict):
            d = {k: norm(v) for k, v in x.items()}
            if d.get(".class") == "UnionType":
                d["items"] = sorted(d["items"], key=lambda i: json.dumps(i, sort_keys=True))
            return d
        if isinstance(x, list):
            return [norm(i) for i in x]
        return x
    try:
        return json.dumps(norm(t.serialize()), sort_keys=True)
    except Exception:
        return "str:" + str(t)


def contains_any(t) -> bool:
    from mypy.types import AnyType, Instance, get_proper_type
    from mypy.type_visitor import BoolTypeQuery, ANY_STRATEGY

    class Q(BoolTypeQuery):
        def __init__(self):
            super().__init__(ANY_STRATEGY)

        def visit_any(self, t):
            return True

        def visit_instance(self, t):
            # bare `type` is Type[Any]
            if t.type.fullname == "builtins.type":
                return True
            return super().visit_instance(t)

        def visit_tuple_type(self, t):
            # the partial fallback `tuple[Any, ...]` is an implementation artifact, not part of the type
            if t.partial_fallback.type.fullname != "builtins.tuple" and self.query_types(t.partial_fallback.args):
                return True
            return self.query_types(t.items)
    return get_proper_type(t).accept(Q())


# ------------------------------------------------------------------------------------ real operations
class Ops:
    def __init__(self):
        from mypy.join import join_types
        from mypy.meet import meet_types
        from mypy.subtypes import is_proper_subtype, is_subtype
        from mypy.typeops import make_simplified_union
        from mypy.types import UnionType
        from mypy.typestate import type_state
        self.is_subtype = is_subtype
        self.is_proper_subtype = is_proper_subtype
        self.join_types = join_types
        self.meet_types = meet_types
        self.make_simplified_union = make_simplified_union
        self.UnionType = UnionType
        self.type_state = type_state

    def reset(self) -> None:
        self.type_state.reset_all_subtype_caches()

    def run(self, op: str, args: list):
        if op == "sub":
            return bool(self.is_subtype(args[0], args[1]))
        if op == "psub":
            return bool(self.is_proper_subtype(args[0], args[1]))
        if op == "join":
            return self.join_types(args[0], args[1])
        if op == "meet":
            return self.meet_types(args[0], args[1])
        if op == "simp":
            return self.make_simplified_union(list(args))
        raise ValueError(op)
