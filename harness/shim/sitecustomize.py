"""Schedule perturbation for the worker processes of a parallel mypy build (C07).

Inert unless PYTHON_MYPY_VERIF=1 *and* VERIF_SCHED_SEED is set.  It is placed on PYTHONPATH by the C07
harness only; workers are started by mypy as `python -m mypy.build_worker`, inherit the environment, and import
this module at start-up.  It wraps the two phases a worker executes per SCC with seed-derived sleeps (so that
reply orders vary) and, optionally, logs them.  Nothing else is changed.
"""
import os
import sys

if os.environ.get("PYTHON_MYPY_VERIF") == "1" and os.environ.get("VERIF_SCHED_SEED"):
    import importlib.abc
    import importlib.util

    class _Finder(importlib.abc.MetaPathFinder):
        def find_spec(self, name, path, target=None):
            if name != "mypy.build_worker.worker":
                return None
            sys.meta_path.remove(self)
            spec = importlib.util.find_spec(name)
            loader = spec.loader
            orig_exec = loader.exec_module

            def exec_module(module):
                orig_exec(module)
                _patch(module)
            loader.exec_module = exec_module
            return spec

    def _patch(worker):
        import random
        import time
        rng = random.Random(f"{os.environ['VERIF_SCHED_SEED']}:{os.getpid() % 7}:{os.environ.get('VERIF_SCHED_SALT', '')}")
        log = os.environ.get("VERIF_WORKER_LOG")
        orig_i = worker.process_stale_scc_interface
        orig_m = worker.process_stale_scc_implementation

        def wi(graph, scc, manager, from_cache):
            time.sleep(rng.choice([0, 0, 0.02, 0.08, 0.25]))
            r = orig_i(graph, scc, manager, from_cache)
            if log:
                with open(log, "a") as f:
                    f.write(f"{os.getpid()} iface {sorted(scc.mod_ids)}\n")
            return r

        def wm(graph, stale, manager, meta_files):
            time.sleep(rng.choice([0, 0, 0.02, 0.1, 0.3]))
            r = orig_m(graph, stale, manager, meta_files)
            if log:
                with open(log, "a") as f:
                    f.write(f"{os.getpid()} impl {sorted(stale)}\n")
            return r
        worker.process_stale_scc_interface = wi
        worker.process_stale_scc_implementation = wm
        oplog = os.environ.get("VERIF_WORKER_OPLOG")
        if oplog:
            import mypy.metastore as ms0
            for cls in (ms0.FilesystemMetadataStore, ms0.SqliteMetadataStore):
                for nm in ("write", "remove", "commit", "commit_path"):
                    if nm not in cls.__dict__:
                        continue
                    orig0 = getattr(cls, nm)

                    def logged(self, *a, _orig=orig0, _nm=nm, **k):
                        with open(oplog, "a") as f:
                            f.write(f"{os.getpid()} {_nm}:{a[0] if a and isinstance(a[0], str) else ''}\n")
                        return _orig(self, *a, **k)
                    setattr(cls, nm, logged)
        # optional fault injection inside workers (C04/C07): store writes whose record name contains the
        # given substring fail (return False without writing)
        pat = os.environ.get("VERIF_WORKER_FAIL_WRITE")
        if pat:
            import mypy.metastore as ms
            for cls in (ms.FilesystemMetadataStore, ms.SqliteMetadataStore):
                orig = cls.write

                def failing(self, name, data, mtime=None, _orig=orig):
                    if pat in name:
                        return False
                    return _orig(self, name, data, mtime)
                cls.write = failing

    sys.meta_path.insert(0, _Finder())
