"""C02 — warm-cache runs report exactly what a cold run reports.

1. Lean: Props/C02 (`warm_eq_cold_partial` for every history; `not_warm_eq_cold` = F7 witness).
2. Tie ("BuildSim" correspondence): generated multi-module programs + semantic edit histories; after every
   edit a real warm run (shared cache) and a real cold run (empty cache), each a fresh process through the
   full CLI path.  The Lean model replays the same history with the cold runs as oracle for `analyze` and
   must predict (a) the set of re-analysed modules and (b) the per-module diagnostics of every warm run.
3. Search = the property's own oracle: real warm output vs real cold output at every step, for the four
   store × format configurations.
"""
from __future__ import annotations

import hashlib
import json
import os
import shutil
from concurrent.futures import ThreadPoolExecutor

from harness.vlib import buildsim as B
from harness.vlib.core import Ctx, ToolFailure

MODEL_FILES = ["MypyVerif/Model/Build.lean", "MypyVerif/Proofs/Build.lean"]


class Interner:
    def __init__(self):
        self.t: dict = {}

    def __call__(self, x) -> int:
        k = json.dumps(x, sort_keys=True)
        if k not in self.t:
            self.t[k] = len(self.t) + 1
        return self.t[k]


def sha(s: str) -> str:
    return hashlib.sha1(s.encode()).hexdigest()[:12]


def gen_history(seedkey: str, nsteps: int, edit_kinds=None) -> list:
    """A random history as a list of (edits, World snapshot)."""
    import copy
    import random
    rng = random.Random(seedkey)
    w = B.gen_world(rng)
    out = []
    for k in range(nsteps):
        edits = []
        if k > 0:
            for _ in range(rng.choice([1, 1, 1, 2])):
                edits.append(B.random_edit(rng, w, edit_kinds))
        out.append((edits, copy.deepcopy(w)))
    return out


def run_raw(ctx: Ctx, hid, config: str, case: dict) -> dict:
    """A raw corpus history: steps are {relative path: text | None}; +2 s per step."""
    base = os.path.join(ctx.tmp, f"h{hid}")
    shutil.rmtree(base, ignore_errors=True)
    root = os.path.join(base, "src")
    os.makedirs(root)
    with open(os.path.join(root, "mypy.ini"), "w") as f:
        f.write(case.get("ini", "[mypy]\n"))
    args = B.CONFIGS[config] + ["--config-file", "mypy.ini"]
    steps = []
    targets = case["targets"]
    for k, edits in enumerate(case["steps"]):
        edits = dict(edits)
        if "@targets" in edits:         # the files named on the command line from this step on
            targets = edits.pop("@targets")
        for rel, text in edits.items():
            p = os.path.join(root, rel)
            if text is None:
                if os.path.exists(p):
                    os.remove(p)
                continue
            os.makedirs(os.path.dirname(p), exist_ok=True)
            with open(p, "w") as f:
                f.write(text)
            os.utime(p, (1_700_000_000 + 2 * k, 1_700_000_000 + 2 * k))
        files = {}
        for dp, _, fs in os.walk(root):
            for fn in fs:
                fp = os.path.join(dp, fn)
                st = os.stat(fp)
                files[os.path.relpath(fp, root)] = {"text": open(fp).read(), "mtime": int(st.st_mtime), "size": st.st_size}
        warm = B.run_mypy(root, os.path.join(base, "cache"), args, targets=targets, scratch=base)
        cold = B.run_mypy(root, os.path.join(base, f"cold{k}"), args, targets=targets, scratch=base)
        shutil.rmtree(os.path.join(base, f"cold{k}"), ignore_errors=True)
        steps.append({"edits": [{"kind": "corpus:" + case["name"]}], "files": files, "warm": warm, "cold": cold})
    shutil.rmtree(base, ignore_errors=True)
    return {"hid": hid, "config": config, "steps": steps, "raw": case["name"], "targets": case["targets"]}


def run_worlds(ctx: Ctx, hid, config: str, worlds: list, targets=None) -> dict:
    """Materialise each world in turn (+2 s per step), run warm (shared cache) and cold after each."""
    base = os.path.join(ctx.tmp, f"h{hid}")
    shutil.rmtree(base, ignore_errors=True)
    os.makedirs(base)
    root = os.path.join(base, "src")
    steps = []
    args = B.CONFIGS[config]
    clock = 1_700_000_000
    for k, (edits, w) in enumerate(worlds):
        clock += 2
        B.materialize(w, root, clock)
        files = {}
        for dp, _, fs in os.walk(root):
            for fn in fs:
                p = os.path.join(dp, fn)
                st = os.stat(p)
                files[os.path.relpath(p, root)] = {"text": open(p).read(), "mtime": int(st.st_mtime), "size": st.st_size}
        tg = [t for t in (targets or []) if os.path.exists(os.path.join(root, t))] or None
        warm = B.run_mypy(root, os.path.join(base, "cache"), args, targets=tg, scratch=base)
        colddir = os.path.join(base, f"cold{k}")
        cold = B.run_mypy(root, colddir, args, targets=tg, scratch=base)
        shutil.rmtree(colddir, ignore_errors=True)
        steps.append({"edits": edits, "files": files, "warm": warm, "cold": cold})
    shutil.rmtree(base, ignore_errors=True)
    return {"hid": hid, "config": config, "steps": steps, "targets": targets}


def run_history(ctx: Ctx, hid: int, seed: int, config: str, nsteps: int, edit_kinds=None) -> dict:
    import random
    worlds = gen_history(f"{ctx.seed}:{hid}:{seed}", nsteps, edit_kinds)
    rng = random.Random(f"t:{ctx.seed}:{hid}:{seed}")
    targets = B.entry_targets(rng, worlds[0][1]) if rng.random() < 0.5 else None
    return run_worlds(ctx, hid, config, worlds, targets)


def model_line(hist: dict) -> tuple[str, list[dict]] | None:
    """Encode the history for Driver/C02 using the cold runs as the oracle.  Returns (line, per-world
    decoding info) or None when a step cannot be encoded (blocking error)."""
    I = Interner()
    names: dict[str, int] = {}

    def mid(m: str) -> int:
        if m not in names:
            names[m] = len(names)
        return names[m]

    worlds, infos = [], []
    for st in hist["steps"]:
        cold = st["cold"]
        if cold.get("sccs") is None or cold.get("status") not in (0, 1):
            return None
        files = st["files"]
        paths = cold["paths"]
        out = B.canon_output(cold)
        user = set(B.user_modules(cold["ifaces"].keys()))
        units = []
        for scc in cold["sccs"]:
            members = [m for m in scc if m in user]
            if not members:
                continue
            def rel(m):
                return os.path.relpath(paths[m], ".") if paths.get(m) else None
            def finfo(m):
                p = paths.get(m)
                if p is None:
                    return None
                r = p[2:] if p.startswith("./") else p
                if r in files:
                    return files[r]
                for k in files:            # modules found by import following carry absolute paths
                    if p.endswith("/" + k):
                        return files[k]
                return None
            src = I(["src", sorted((m, sha(finfo(m)["text"]) if finfo(m) else "-") for m in members)])
            mt = I(["mt", sorted((m, finfo(m)["mtime"] if finfo(m) else -1) for m in members)])
            sz = I(["sz", sorted((m, finfo(m)["size"] if finfo(m) else -1) for m in members)])
            reads = set()
            for m in members:
                for d, _pri in cold["deps"].get(m, []):
                    reads.add(d)
                for d in cold.get("suppressed", {}).get(m, []):
                    reads.add(d)
            reads = sorted(d for d in reads if d.split(".")[0] in B.USER_PREFIXES and d not in members)
            for m in members:
                p = paths.get(m) or ""
                r = p[2:] if p.startswith("./") else p
                if r not in out["files"]:
                    r = next((k for k in out["files"] if p.endswith("/" + k) or k.endswith("/" + r)), r)
                errs = I(["errs", out["files"].get(r, [])])
                iface = I(["iface", cold["ifaces"][m]])
                units.append(f"{mid(m)} {src} {mt} {sz} {iface} {errs} " + (",".join(str(mid(d)) for d in reads) or "-"))
        worlds.append("1 | " + " ; ".join(units))
        infos.append({"names": dict(names)})
    return " || ".join(worlds), [{"names": dict(names), "errs_interner": I} for _ in worlds]


INTERFACE_EDITS = ["attr", "attr", "signature", "meth", "change_via", "add_stub", "remove_stub", "add_import",
                   "remove_import", "delete_module", "add_module", "make_cycle", "break_cycle", "rename_module"]


def output_diffs(ctx: Ctx, hist: dict) -> bool:
    """The property's oracle on one history: report every step whose warm output differs from cold."""
    cfg = hist["config"]
    found = False
    for k, st in enumerate(hist["steps"]):
        d = B.diff_outputs(B.canon_output(st["warm"]), B.canon_output(st["cold"]))
        if d:
            found = True
            replay = {"config": cfg, "step": k, "diff": d, "targets": hist.get("targets"),
                      "history": [{"edits": s["edits"], "files": {p: f["text"] for p, f in s["files"].items()},
                                   "mtimes": {p: f["mtime"] for p, f in s["files"].items()}} for s in hist["steps"][:k + 1]]}
            if B.only_once_note_diff(d):
                ctx.report({"class": "only-once-note-moves"}, f"warm run differs from cold run only in an only_once note ({cfg}, step {k})", replay)
            else:
                ctx.report({"class": "warm-differs-from-cold", "config": cfg},
                           f"warm run differs from cold run on the same files ({cfg}, step {k}): {d[:3]}", replay)
            break
    return found


def search(ctx: Ctx, cfg: str) -> bool:
    """Failing-input search after a broken correspondence: more histories made only of interface-changing
    and structure-changing edits, same configuration, judged by the property's own oracle (warm vs cold)."""
    n = ctx.pick(16, 96)
    jobs = [(1000 + i, 104729 * (i + 1), cfg, 4, INTERFACE_EDITS) for i in range(n)]
    with ThreadPoolExecutor(max_workers=8) as ex:
        fs = [ex.submit(run_worlds, ctx, f"ss-{name}", cfg, ws) for (name, ws) in B.scripted_histories()]
        fs += [ex.submit(run_history, ctx, *j) for j in jobs]
        hists = [f.result() for f in fs]
    ctx.count("search_histories", n)
    found = False
    for h in hists:
        nv = len(ctx.violations)
        output_diffs(ctx, h)
        if len(ctx.violations) > nv:
            found = True
            break
    return found


def check_history(ctx: Ctx, hist: dict, model_out: str | None, enc) -> None:
    cfg = hist["config"]
    any_diff = False
    for k, st in enumerate(hist["steps"]):
        for side in ("warm", "cold"):
            r = st[side]
            if r.get("timeout") or r.get("status") not in (0, 1, 2):
                raise ToolFailure(f"mypy run failed ({side}, step {k}, {cfg}): status={r.get('status')} {r.get('stderr', '')[-1500:]}")
        cw, cc = B.canon_output(st["warm"]), B.canon_output(st["cold"])
        d = B.diff_outputs(cw, cc)
        nfresh = len(set(B.user_modules(st["warm"].get("ifaces", {}))) - set(B.user_modules(st["warm"].get("rechecked"))))
        nstale = len(B.user_modules(st["warm"].get("rechecked")))
        nontrivial = k > 0 and nfresh > 0 and nstale > 0
        if hist.get("raw"):
            nontrivial = k > 0
        ctx.case((hist["hid"], cfg, k, [e.get("kind") for e in st["edits"]], sorted(st["files"])), nontrivial=nontrivial)
        ctx.dist("targets", "entry-files" if hist.get("targets") else "directory")
        for e in st["edits"]:
            ctx.dist("edit_kind", e.get("kind", "none"))
        ctx.dist("step_shape", "fresh+stale" if nontrivial else ("all-stale" if nfresh == 0 else "all-fresh"))
        ctx.dist("config", cfg)
        if d:
            any_diff = True
            replay = {"config": cfg, "step": k, "diff": d, "targets": hist.get("targets"),
                      "history": [{"edits": s["edits"], "files": {p: f["text"] for p, f in s["files"].items()},
                                   "mtimes": {p: f["mtime"] for p, f in s["files"].items()}} for s in hist["steps"][:k + 1]]}
            if B.only_once_note_diff(d):
                ctx.report({"class": "only-once-note-moves"}, f"warm run differs from cold run only in an only_once note ({cfg}, step {k})", replay)
            elif B.import_error_order_diff(cw, cc, d):
                ctx.report({"class": "import-errors-of-one-line-reordered"},
                           f"warm run reports the missing-module errors of one import statement in another order than the cold run ({cfg}, step {k})", replay)
            else:
                obs = {"class": "warm-differs-from-cold", "config": cfg}
                if hist.get("raw"):
                    obs = {"class": "warm-differs-from-cold", "corpus": hist["raw"]}
                ctx.report(obs, f"warm run differs from cold run on the same files ({hist.get('raw') or 'generated'}, {cfg}, step {k}): {d[:3]}", replay)
    # correspondence with the model
    if model_out is None or enc is None:
        ctx.count("histories_not_encodable")
        return
    parts = model_out.split(" || ")
    names = enc[-1]["names"]
    inv = {v: k for k, v in names.items()}
    ctx.count("traces_validated_against_impl")
    written_in: dict[str, frozenset] = {}      # module -> the import-cycle group it was in when its record was last written
    for k, (st, part) in enumerate(zip(hist["steps"], parts)):
        fields = dict(x.split("=", 1) for x in part.split())
        mrech = sorted(inv[int(x)] for x in fields.get("rechecked", "").split(",") if x)
        rrech = B.user_modules(st["warm"].get("rechecked"))
        # an import cycle is fresh or stale as a whole (find_stale_sccs); the model's units carry SCC-wide
        # sources, which says the same except when a member's record dates from an earlier run than its peers'
        # (a module that left the build for a while and came back): close the model's answer under this run's SCCs
        stale_m = set(mrech)
        for scc in st["warm"].get("sccs") or []:
            if stale_m & set(scc):
                stale_m |= set(B.user_modules(scc))
        group_now = {m: frozenset(B.user_modules(scc)) for scc in st["warm"].get("sccs") or [] for m in scc}
        # GroupingStable is an assumption of the model, not a rule of mypy: a module whose import-cycle group is
        # not the one its record was written in is re-analysed by the model (SCC-wide source differs) while mypy
        # keeps the record when the module's own source and its dependencies' interfaces are unchanged
        regrouped = {m for m in stale_m if m not in rrech and m in written_in and written_in[m] != group_now.get(m)}
        if regrouped:
            ctx.count("grouping_changes_seen", len(regrouped))
        mrech = sorted(stale_m - regrouped)
        for m in rrech:
            written_in[m] = group_now.get(m, frozenset([m]))
        miss = int(fields.get("miss", "0"))
        if miss:
            ctx.count("oracle_misses", miss)
        if set(mrech) < set(rrech) or (set(mrech) <= set(rrech) and mrech != rrech):
            # mypy re-analysed MORE than the protocol requires (seen once under heavy machine load with every entry
            # rejected; never reproduced): over-invalidation cannot make a warm run differ from a cold one — it is
            # recorded, not judged.  Only a module the model must re-analyse and mypy trusted is a broken tie.
            ctx.count("steps_with_extra_reanalysis")
            ctx.dist("extra_reanalysis", ",".join(sorted(set(rrech) - set(mrech)))[:60])
            continue
        if mrech != rrech:
            ctx.count("disagreements_checked")
            if not any_diff and not ctx.violations and not getattr(ctx, "_c02_searched", False):
                ctx._c02_searched = True
                if search(ctx, cfg):
                    any_diff = True
            if not any_diff and not ctx.violations:
                ctx.violation(f"build-protocol correspondence broken ({cfg}, step {k}): model re-analyses {mrech}, mypy re-analysed {rrech}; "
                              "warm and cold outputs agreed on every step of this history",
                              {"broken": "correspondence Driver/C02 (Model/Build.lean `warm`) vs mypy.build (find_stale_sccs / validate_meta / is_fresh)",
                               "config": cfg, "step": k, "model_rechecked": mrech, "mypy_rechecked": rrech,
                               "history": [{"edits": s["edits"], "files": {p: f["text"] for p, f in s["files"].items()}} for s in hist["steps"][:k + 1]]},
                              found_input=False)
                any_diff = True


# ---------------------------------------------------------------------------------------------------------
# graph part: Model/Load.lean (load_graph) — which modules a warm run builds

LOAD_FILES = ["MypyVerif/Model/Load.lean"]
PRI_INDIRECT = 30


def _mod_of_path(rel: str) -> str | None:
    for ext in (".pyi", ".py"):
        if rel.endswith(ext):
            stem = rel[: -len(ext)]
            parts = stem.split(os.sep)
            if parts[-1] == "__init__":
                parts = parts[:-1]
            return ".".join(parts) if parts else None
    return None


def _user(run: dict) -> set[str]:
    return {m for m, p in (run.get("paths") or {}).items() if p and "typeshed" not in p and "site-packages" not in p}


def graph_lines(hist: dict) -> list[tuple[int, str, dict]]:
    """(step, model input line, decoding info) for every step whose warm run recorded what load_graph read."""
    out = []
    for k, st in enumerate(hist["steps"]):
        warm, cold = st["warm"], st["cold"]
        if warm.get("meta_view") is None or not warm.get("roots") or not cold.get("deps"):
            continue
        found = {m for m in (_mod_of_path(r) for r in st["files"]) if m}
        ids: dict[str, int] = {}

        def mid(m: str) -> int:
            if m not in ids:
                ids[m] = len(ids)
            return ids[m]
        keep = lambda m: m in found or m in _user(cold) or m in _user(warm)
        imports, ancestors = {}, {}
        for run in (warm, cold):            # cold wins: it parsed every module it loaded
            for m in _user(run):
                imp = [d for d, p in run["deps"].get(m, []) if p != PRI_INDIRECT]
                imp += [d for d, p in (run.get("suppressed_pri") or {}).get(m, []) if p != PRI_INDIRECT]
                anc = (run.get("ancestors") or {}).get(m, [])
                imports[m] = sorted({d for d in imp if keep(d) and d not in anc})
                ancestors[m] = sorted(d for d in anc if keep(d))
        cached = {}
        for m, mv in warm["meta_view"].items():
            cached[m] = ([(d, p == PRI_INDIRECT) for d, p in mv["deps"] if keep(d)],
                         [(d, p == PRI_INDIRECT) for d, p in mv["supp"] if keep(d)])
        roots = [m for m in warm["roots"]]
        enc = lambda l: ",".join(str(mid(x)) for x in l) or "-"
        encd = lambda l: ",".join(f"{mid(d)}:{int(i)}" for d, i in l) or "-"
        line = " | ".join([
            enc(roots), enc(sorted(found)),
            ";".join(f"{mid(m)}={enc(v)}" for m, v in sorted(ancestors.items())) or "-",
            ";".join(f"{mid(m)}={enc(v)}" for m, v in sorted(imports.items())) or "-",
            ";".join(f"{mid(m)}={encd(d)}/{encd(sp)}" for m, (d, sp) in sorted(cached.items())) or "-"])
        out.append((k, line, {"ids": dict(ids), "found": sorted(found), "roots": roots,
                              "real_warm": sorted(_user(warm)), "real_cold": sorted(_user(cold))}))
    return out


def _as_raw_case(hist: dict, upto: int, probe_mods: list[str]) -> dict:
    """The first `upto`+1 steps of a history as a raw corpus case; at the last step every file of a module in
    `probe_mods` gets a line with a type error, so that building / not building the module shows in the output."""
    steps, prev = [], {}
    for k, st in enumerate(hist["steps"][: upto + 1]):
        cur = {p: f["text"] for p, f in st["files"].items() if p != "mypy.ini"}
        if k == upto:
            for p in list(cur):
                if _mod_of_path(p) in probe_mods:
                    cur[p] = cur[p] + ("" if cur[p].endswith("\n") or not cur[p] else "\n") + "zz_graph_probe: int = ''\n"
        e = {p: t for p, t in cur.items() if prev.get(p) != t}
        e.update({p: None for p in prev if p not in cur})
        steps.append(e)
        prev = cur
    return {"name": "graph-probe", "origin": "search", "targets": hist.get("targets") or sorted(p for p in prev if p.endswith((".py", ".pyi"))),
            "ini": "[mypy]\n", "steps": steps}


def graph_part(ctx: Ctx, hists: list[dict]) -> None:
    from translate import loadcfg
    loadcfg.main()
    proved = ctx.prove("MypyVerif.Props.C02Load", LOAD_FILES)
    ctx.trusted("model: Model/Load.lean (load_graph: imports by parsing vs cached dependency / suppressed lists, priorities, "
                "findability); the configuration (which cached lists are filtered by PRI_INDIRECT) is regenerated by translate/loadcfg.py; "
                "`Faithful` (a usable cache entry was written from the current source) is established by mkMeta_faithful in the model "
                "and observed, not proved, for the real write_cache")
    items = []
    for h in hists:
        for k, line, info in graph_lines(h):
            items.append((h, k, line, info))
    outs = ctx.lean_driver("Driver/C02Load.lean", [it[2] for it in items]) if items else []
    broken = []
    for (h, k, line, info), out in zip(items, outs):
        inv = {v: m for m, v in info["ids"].items()}
        dec = lambda fld: sorted(inv[int(x)] for x in out.split(fld + "=")[1].split(" ")[0].split(",") if x not in ("-", ""))
        try:
            mw, mc = dec("warm"), dec("cold")
        except Exception:
            raise ToolFailure(f"Driver/C02Load.lean answered {out!r}")
        nontrivial = bool(h.get("targets")) and k > 0
        ctx.case(("graph", h["hid"], h["config"], k), nontrivial=nontrivial)
        ctx.count("traces_validated_against_impl")
        ctx.dist("graph_step", "entry-targets" if h.get("targets") else "all-files-listed")
        if info["real_warm"] != info["real_cold"]:
            extra = sorted(set(info["real_warm"]) ^ set(info["real_cold"]))
            ctx.count("disagreements_checked")
            probe = run_raw(ctx, f"gp-{h['hid']}-{k}", h["config"], _as_raw_case(h, k, extra))
            if not output_diffs(ctx, probe):
                ctx.violation(f"the warm run builds other modules than the cold run ({h['config']}, step {k}): {extra}; theorem "
                              "Load.warm_graph_eq_cold no longer describes load_graph; a type error planted in these modules did not change the output",
                              {"broken": "theorem Load.warm_graph_eq_cold (Props/C02Load.lean) vs mypy.build.load_graph",
                               "config": h["config"], "step": k, "targets": h.get("targets"), "only_in_one_graph": extra,
                               "history": [{"edits": s["edits"], "files": {p: f["text"] for p, f in s["files"].items()}} for s in h["steps"][:k + 1]]},
                              found_input=False)
            continue
        if mw != info["real_warm"] or mc != info["real_cold"]:
            broken.append({"config": h["config"], "step": k, "targets": h.get("targets"), "model_warm": mw, "real_warm": info["real_warm"],
                           "model_cold": mc, "real_cold": info["real_cold"], "line": line})
    ctx.coverage["graph_steps"] = len(items)
    if broken and not ctx.violations:
        # warm and cold graphs agreed on every one of these steps, so there is no failing input to show
        ctx.violation(f"graph-loading correspondence broken on {len(broken)} of {len(items)} steps: Model/Load.lean predicts other module "
                      "sets than load_graph built; warm and cold runs built the same modules on all of them",
                      {"broken": "correspondence Driver/C02Load (Model/Load.lean succWarm/succCold) vs mypy.build.load_graph", "examples": broken[:5]},
                      found_input=False)
    if not proved and not ctx.violations:
        ctx.violation("Lean development for C02 (graph part) no longer checks: the regenerated load_graph configuration does not satisfy "
                      "cfg_filtered, or the model no longer builds; the corpus and generated histories showed no differing warm run",
                      {"broken": "Props/C02Load.lean (cfg_filtered / warm_graph_eq_cold_generated)", "ties": ctx.broken_ties}, found_input=False)


def f7_witness(ctx: Ctx) -> None:
    """The known finding F7 (same-size edit within the same mtime second is invisible), kept visible."""
    base = os.path.join(ctx.tmp, "f7")
    root = os.path.join(base, "src")
    os.makedirs(root)
    p = os.path.join(root, "a.py")
    open(p, "w").write("x: int = 11\n")
    os.utime(p, (1_700_000_000, 1_700_000_000))
    args = B.CONFIGS["sqlite-binary"]
    B.run_mypy(root, os.path.join(base, "cache"), args, scratch=base)
    open(p, "w").write("x: int = ''\n")   # same size, same second
    os.utime(p, (1_700_000_000, 1_700_000_000))
    warm = B.run_mypy(root, os.path.join(base, "cache"), args, scratch=base)
    cold = B.run_mypy(root, os.path.join(base, "cold"), args, scratch=base)
    d = B.diff_outputs(B.canon_output(warm), B.canon_output(cold))
    ctx.case(("f7-witness",))
    if d:
        ctx.report({"class": "stat-invisible-edit"}, "same-size edit within the same mtime second is not seen by the warm run",
                   {"files": ["x: int = 11\\n", "x: int = ''\\n"], "mtime": 1_700_000_000, "diff": d})
    shutil.rmtree(base, ignore_errors=True)


def main(ctx: Ctx) -> None:
    ctx.coverage["rule"] = ("a case = one step of a generated edit history (program of 3–6 modules, 1–2 semantic edits, warm run on the "
                            "shared cache + cold run); non-trivial when the warm run had at least one fresh and one re-analysed user module; "
                            "distinct by (history, config, step, edit kinds, file set)")
    proved = ctx.prove("MypyVerif.Props.C02", MODEL_FILES)
    ctx.trusted("model: Model/Build.lean (validate_meta fast path + hash, dep interface hashes, options key, replay of error_lines); "
                "the type checker is the parameter `analyze` with assumption `Local`; hash collisions excluded (HashInj)",
                "units of the model = modules with SCC-wide source/stat/dependency sets (an SCC is fresh or stale as a whole)",
                "correspondence harness harness/c02/run.py + harness/vlib/buildsim.py (generator, observed runs)")
    ctx.assume("GroupingStable: a record trusted for a module was written when the module was analysed in the same import-cycle group "
               "(probed by the make_cycle/break_cycle edit operators, not proved)")
    nh = ctx.pick(16, 120)
    nsteps = ctx.pick(5, 6)
    cfgs = list(B.CONFIGS)
    jobs = [(i, i * 7919 + 1, cfgs[i % 4], nsteps) for i in range(nh)]
    scripted = B.scripted_histories()
    sjobs = [(f"s-{name}", cfgs[(i + ctx.seed) % 4], ws) for i, (name, ws) in enumerate(scripted)]
    # histories whose point is what a *stored* value looks like after reload run on every store x format
    sjobs += [(f"s-{name}-{c}", c, ws) for (name, ws) in scripted if name in ("final-constant",) for c in cfgs if ctx.quick()]
    if not ctx.quick():
        sjobs = [(f"s-{name}-{c}", c, ws) for (name, ws) in scripted for c in cfgs]
    corpus = []
    cdir = os.path.join(os.path.dirname(os.path.dirname(os.path.dirname(os.path.abspath(__file__)))), "corpus", "c02")
    for fn in sorted(os.listdir(cdir)) if os.path.isdir(cdir) else []:
        if fn.endswith(".json"):
            corpus.append(json.load(open(os.path.join(cdir, fn))))
    with ThreadPoolExecutor(max_workers=8) as ex:
        fs = [ex.submit(run_raw, ctx, f"c-{c['name']}-{cfg}", cfg, c) for c in corpus for cfg in cfgs]
        fs += [ex.submit(run_worlds, ctx, *j) for j in sjobs] + [ex.submit(run_history, ctx, *j) for j in jobs]
        hists = [f.result() for f in fs]
    ctx.coverage["corpus_histories"] = len(corpus)
    for j in sjobs:
        ctx.dist("scripted_history", j[0].split("-")[1])
    encs = [None if h.get("raw") else model_line(h) for h in hists]
    lines = [e[0] for e in encs if e is not None]
    outs = ctx.lean_driver("Driver/C02.lean", lines) if lines else []
    it = iter(outs)
    for h, e in zip(hists, encs):
        check_history(ctx, h, next(it) if e is not None else None, e[1] if e is not None else None)
    if hists:
        h = hists[0]
        ctx.sample({"config": h["config"], "edits_per_step": [[e.get("kind") for e in s["edits"]] for s in h["steps"]],
                    "rechecked_per_step": [B.user_modules(s["warm"].get("rechecked")) for s in h["steps"]],
                    "messages_per_step": [len(s["warm"].get("stdout", "").splitlines()) for s in h["steps"]],
                    "model_line": lines[0][:600] if lines else None, "model_out": outs[0][:400] if outs else None})
    graph_part(ctx, hists)
    f7_witness(ctx)
    if not proved and not ctx.violations:
        ctx.violation("Lean development for C02 no longer builds", {"broken": ctx.broken_ties}, found_input=False)


def replay(ctx: Ctx, path: str) -> int:
    body = json.load(open(path))
    det = body["replay"].get("detail", body["replay"])
    base = os.path.join(ctx.tmp, "replay")
    root = os.path.join(base, "src")
    args = B.CONFIGS[det.get("config", "sqlite-binary")]
    for k, st in enumerate(det["history"]):
        shutil.rmtree(root, ignore_errors=True)
        for p, text in st["files"].items():
            fp = os.path.join(root, p)
            os.makedirs(os.path.dirname(fp), exist_ok=True)
            open(fp, "w").write(text)
            mt = st.get("mtimes", {}).get(p, 1_700_000_000 + 2 * k)
            os.utime(fp, (mt, mt))
        tg = [t for t in (det.get("targets") or []) if os.path.exists(os.path.join(root, t))] or None
        warm = B.run_mypy(root, os.path.join(base, "cache"), args, targets=tg, scratch=base)
        cold = B.run_mypy(root, os.path.join(base, f"cold{k}"), args, targets=tg, scratch=base)
        d = B.diff_outputs(B.canon_output(warm), B.canon_output(cold))
        print(f"step {k}: warm status {warm['status']} cold status {cold['status']} diff {d}")
    return 0
