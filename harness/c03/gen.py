"""C03 generator: construct × edit-kind scenarios aimed at mypy/server/deps.py, astdiff.py, astmerge.py.

A *scenario* is a small group of modules: a defining module `{D}` (sometimes a re-exporting / subclassing
middle module `{M}`) and using modules `{U}`, `{V}`.  The construct under test is defined in `{D}`; the
diagnostics it causes live in `{U}` / `{V}`.  `{D}` (and sometimes `{M}`) has several *variants*; an edit
switches the variant, so the file that changes is the defining one while the error appears / disappears /
changes in a module that is not edited.  A world packs several scenarios (distinct module names) plus file
level edits: delete / re-create the defining module, add / remove a stub for it, turn it into a package,
touch it, make a syntax error in it.

Everything is derived from the `random.Random` passed in.
"""
from __future__ import annotations

import copy

# Each scenario: name, construct (the deps.py visitor it aims at), files: role -> list of variant texts.
# Role "D" is the defining module; "M" optional middle; "U", "V" users (single variant unless listed).
SCENARIOS: list[dict] = [
    {"name": "inherited-attr", "construct": "attribute of an inherited class (visit_member_expr / add_attribute_dependency)",
     "D": ["class Base:\n    x: int = 0\n    y: str = ''\n",
           "class Base:\n    x: str = ''\n    y: str = ''\n",
           "class Base:\n    y: str = ''\n",
           "class Root:\n    x: int = 0\nclass Base(Root):\n    y: str = ''\n",
           "class Root:\n    x: str = ''\nclass Base(Root):\n    y: str = ''\n"],
     "M": ["from {D} import Base\nclass Sub(Base):\n    z: int = 0\n"],
     "U": ["from {M} import Sub\ndef f(s: Sub) -> int:\n    return s.x\nv: int = Sub().x\n"]},
    {"name": "decorator", "construct": "decorator (visit_decorator)",
     "D": ["from typing import Callable\ndef deco(f: Callable[[int], int]) -> Callable[[int], int]:\n    return f\n",
           "from typing import Callable\ndef deco(f: Callable[[int], int]) -> Callable[[str], int]:\n    return lambda s: 0\n",
           "from typing import Callable\ndef deco(f: Callable[[int], int]) -> Callable[[int], str]:\n    return lambda i: ''\n",
           "from typing import Callable\ndef deco(f: Callable[[str], int]) -> Callable[[int], int]:\n    return lambda i: 0\n",
           "def deco(f: int) -> int:\n    return f\n"],
     "U": ["from {D} import deco\n@deco\ndef g(x: int) -> int:\n    return x\nr: int = g(1)\nclass K:\n    @deco\n    def m(x: int) -> int:\n        return x\n"],
     "V": ["import {U}\ndef h() -> int:\n    return {U}.g(2)\nw = {U}.g\n"]},
    {"name": "decorated-method", "construct": "decorated method: the Decorator node's var.type in the class symbol table (snapshot_definition of Decorator)",
     "D": ["from typing import Any, Callable\ndef deco(f: Callable[[Any, int], int]) -> Callable[[Any, int], int]:\n    return f\nclass K:\n    @deco\n    def m(self, x: int) -> int:\n        return x\n",
           "from typing import Any, Callable\ndef deco(f: Callable[[Any, int], int]) -> Callable[[Any, str], int]:\n    return lambda s, x: 0\nclass K:\n    @deco\n    def m(self, x: int) -> int:\n        return x\n",
           "from typing import Any, Callable\ndef deco(f: Callable[[Any, int], int]) -> Callable[[Any, int], str]:\n    return lambda s, x: ''\nclass K:\n    @deco\n    def m(self, x: int) -> int:\n        return x\n",
           "from typing import Any, Callable\ndef deco(f: Callable[[Any, int], int]) -> int:\n    return 0\nclass K:\n    @deco\n    def m(self, x: int) -> int:\n        return x\n",
           "class K:\n    def m(self, x: int) -> int:\n        return x\n"],
     "U": ["from {D} import K\nr: int = K().m(1)\ndef f(k: K) -> int:\n    return k.m(2)\n"]},
    {"name": "overload", "construct": "overloaded function (visit_overloaded_func_def / snapshot of OverloadedFuncDef)",
     "D": ["from typing import overload\n@overload\ndef f(x: int) -> int: ...\n@overload\ndef f(x: str) -> str: ...\ndef f(x):\n    return x\n",
           "from typing import overload\n@overload\ndef f(x: int) -> str: ...\n@overload\ndef f(x: str) -> str: ...\ndef f(x):\n    return x\n",
           "from typing import overload\n@overload\ndef f(x: bytes) -> int: ...\n@overload\ndef f(x: str) -> str: ...\ndef f(x):\n    return x\n",
           "def f(x: int) -> int:\n    return x\n",
           "from typing import overload\n@overload\ndef f(x: str) -> str: ...\n@overload\ndef f(x: int) -> int: ...\n@overload\ndef f(x: bytes) -> bytes: ...\ndef f(x):\n    return x\n"],
     "U": ["from {D} import f\na: int = f(1)\nb: str = f('s')\ndef g() -> int:\n    return f(2)\n"]},
    {"name": "protocol", "construct": "protocol implementation (protocol deps, TypeState.update_protocol_deps)",
     "D": ["from typing import Protocol\nclass P(Protocol):\n    def m(self) -> int: ...\n",
           "from typing import Protocol\nclass P(Protocol):\n    def m(self) -> str: ...\n",
           "from typing import Protocol\nclass P(Protocol):\n    def m(self) -> int: ...\n    def n(self) -> int: ...\n",
           "from typing import Protocol\nclass P(Protocol):\n    def m(self, a: int = 0) -> int: ...\n",
           "class P:\n    def m(self) -> int:\n        return 0\n"],
     "M": ["class Impl:\n    def m(self) -> int:\n        return 1\n",
           "class Impl:\n    def m(self) -> str:\n        return ''\n",
           "class Impl:\n    def m(self) -> int:\n        return 1\n    def n(self) -> int:\n        return 2\n",
           "class Impl:\n    def q(self) -> int:\n        return 1\n"],
     "U": ["from {D} import P\nfrom {M} import Impl\ndef use(p: P) -> None: ...\nuse(Impl())\ndef g() -> None:\n    x: P = Impl()\n"]},
    {"name": "namedtuple", "construct": "NamedTuple field (visit_class_def for tuple types, snapshot of TupleType)",
     "D": ["from typing import NamedTuple\nclass NT(NamedTuple):\n    a: int\n    b: str\n",
           "from typing import NamedTuple\nclass NT(NamedTuple):\n    a: str\n    b: str\n",
           "from typing import NamedTuple\nclass NT(NamedTuple):\n    b: str\n    a: int\n",
           "from typing import NamedTuple\nclass NT(NamedTuple):\n    a: int\n    b: str\n    c: int = 0\n",
           "from typing import NamedTuple\nNT = NamedTuple('NT', [('a', int), ('b', str)])\n",
           "from collections import namedtuple\nNT = namedtuple('NT', ['a', 'b'])\n"],
     "U": ["from {D} import NT\nx: int = NT(1, '').a\ndef f(n: NT) -> int:\n    p, q = n\n    return p\ndef g(n: NT) -> str:\n    return n[1]\n"]},
    {"name": "typeddict", "construct": "TypedDict key (visit_typeddict_type / TypedDict snapshot)",
     "D": ["from typing import TypedDict\nclass TD(TypedDict):\n    a: int\n",
           "from typing import TypedDict\nclass TD(TypedDict):\n    a: str\n",
           "from typing import TypedDict\nclass TD(TypedDict):\n    a: int\n    b: str\n",
           "from typing import TypedDict\nclass TD(TypedDict, total=False):\n    a: int\n",
           "from typing import TypedDict\nTD = TypedDict('TD', {'a': int})\n"],
     "U": ["from {D} import TD\ndef f(t: TD) -> int:\n    return t['a']\nd = TD(a=1)\ndef g() -> TD:\n    return {'a': 1}\n"]},
    {"name": "dataclass", "construct": "dataclass field (plugin generated __init__, snapshot of plugin_generated nodes)",
     "D": ["from dataclasses import dataclass\n@dataclass\nclass DC:\n    a: int\n    b: str = ''\n",
           "from dataclasses import dataclass\n@dataclass\nclass DC:\n    a: str\n    b: str = ''\n",
           "from dataclasses import dataclass\n@dataclass\nclass DC:\n    a: int\n    c: int\n    b: str = ''\n",
           "from dataclasses import dataclass\n@dataclass(frozen=True)\nclass DC:\n    a: int\n    b: str = ''\n",
           "from dataclasses import dataclass\n@dataclass(order=True)\nclass DC:\n    a: int\n    b: str = ''\n",
           "class DC:\n    def __init__(self, a: int) -> None:\n        self.a = a\n"],
     "U": ["from {D} import DC\nx = DC(1)\ny: int = x.a\ndef f(d: DC) -> None:\n    d.a = 2\ndef g(p: DC, q: DC) -> bool:\n    return p < q\n"],
     "V": ["from dataclasses import dataclass\nfrom {D} import DC\n@dataclass\nclass Sub(DC):\n    z: int = 0\ns = Sub(1)\n"]},
    {"name": "type-alias", "construct": "type alias (alias_deps, visit_type_alias_type)",
     "D": ["Alias = list[int]\n", "Alias = dict[str, int]\n", "Alias = list[str]\n", "from typing import Union\nAlias = Union[int, str]\n",
           "class Alias:\n    pass\n"],
     "M": ["from {D} import Alias\nAlias2 = Alias\nNested = dict[str, Alias]\n"],
     "U": ["from {D} import Alias\ndef f(x: Alias) -> int:\n    return x[0]\n"],
     "V": ["from {M} import Alias2, Nested\ndef g(x: Alias2) -> int:\n    return x[0]\ndef h(n: Nested) -> int:\n    return n['k'][0]\n"]},
    {"name": "super-init", "construct": "__init__ signature used via super() (visit_super_expr)",
     "D": ["class B:\n    def __init__(self, a: int) -> None:\n        self.a = a\n",
           "class B:\n    def __init__(self, a: str) -> None:\n        self.a = a\n",
           "class B:\n    def __init__(self, a: int, b: int) -> None:\n        self.a = a\n",
           "class B:\n    def __init__(self) -> None:\n        self.a = 0\n",
           "class B:\n    a: int = 0\n"],
     "U": ["from {D} import B\nclass C(B):\n    def __init__(self) -> None:\n        super().__init__(1)\nclass E(B):\n    pass\ne = E(1)\n"]},
    {"name": "super-intermediate", "construct": "super() resolved through an intermediate base that later gains the method (visit_super_expr: edges for every base up to the defining one)",
     "D": ["class A:\n    def f(self) -> object:\n        return 0\nclass B(A):\n    pass\n",
           "class A:\n    def f(self) -> object:\n        return 0\nclass B(A):\n    def f(self) -> str:\n        return ''\n",
           "class A:\n    def f(self) -> object:\n        return 0\nclass B(A):\n    pass\n",
           "class A:\n    def f(self) -> object:\n        return 0\nclass B(A):\n    def f(self) -> int:\n        return 0\n",
           "class A:\n    def f(self) -> str:\n        return ''\nclass B(A):\n    pass\n",
           "class A:\n    pass\nclass B(A):\n    def f(self) -> object:\n        return 0\n"],
     "U": ["from {D} import B\nclass C(B):\n    def g(self) -> None:\n        y = super().f()\n        y = 1\n"]},
    {"name": "import-as", "construct": "module attribute through `import as` (visit_name_expr / visit_member_expr on module refs)",
     "D": ["X: int = 1\ndef fn() -> int:\n    return 1\n", "X: str = ''\ndef fn() -> int:\n    return 1\n",
           "X = [1]\ndef fn() -> str:\n    return ''\n", "def fn() -> int:\n    return 1\n", "X: int = 1\n"],
     "U": ["import {D} as dd\ny: int = dd.X\ndef f() -> int:\n    return dd.fn()\n"],
     "V": ["from {D} import X as Y, fn as gn\nz: int = Y\ndef g() -> int:\n    return gn()\n"]},
    {"name": "inferred-chain", "construct": "inferred module attribute chain (several propagation iterations)",
     "D": ["def mk() -> int:\n    return 1\n", "def mk() -> str:\n    return ''\n", "def mk() -> list[int]:\n    return [1]\n",
           "def mk():\n    return 1\n"],
     "M": ["import {D}\nval = {D}.mk()\n"],
     "U": ["from {M} import val\nval2 = val\n"],
     "V": ["import {U}\nz: int = {U}.val2\ndef f() -> int:\n    return {U}.val2\n"]},
    {"name": "star-import", "construct": "from m import * (wildcard trigger)",
     "D": ["A: int = 1\nB: int = 2\n__all__ = ['A', 'B']\n", "A: int = 1\nB: int = 2\n__all__ = ['B']\n", "A: int = 1\nB: int = 2\n",
           "A: str = ''\nB: int = 2\n", "B: int = 2\n", "A: int = 1\nB: int = 2\nC: int = 3\n",
           "def A() -> int:\n    return 1\nB: int = 2\n__all__ = ['A', 'B']\n", "def A() -> int:\n    return 1\nB: int = 2\n__all__ = ['B']\n"],
     "M": ["from {D} import *\n"],
     "U": ["from {M} import A\nx: int = A\n"],
     "V": ["from {D} import *\ny: int = A + B\n"]},
    {"name": "generic-bound", "construct": "TypeVar bound / generic base (visit_type_var, visit_instance)",
     "D": ["from typing import TypeVar, Generic\nclass Bound:\n    n: int = 0\nT = TypeVar('T', bound=Bound)\nclass Box(Generic[T]):\n    def __init__(self, v: T) -> None:\n        self.v = v\n",
           "from typing import TypeVar, Generic\nclass Bound:\n    n: str = ''\nT = TypeVar('T', bound=Bound)\nclass Box(Generic[T]):\n    def __init__(self, v: T) -> None:\n        self.v = v\n",
           "from typing import TypeVar, Generic\nclass Bound:\n    n: int = 0\nT = TypeVar('T', bound=int)\nclass Box(Generic[T]):\n    def __init__(self, v: T) -> None:\n        self.v = v\n",
           "from typing import TypeVar, Generic\nclass Bound:\n    n: int = 0\nT = TypeVar('T')\nclass Box(Generic[T]):\n    def __init__(self, v: T) -> None:\n        self.v = v\n",
           "class Bound:\n    n: int = 0\nclass Box:\n    def __init__(self, v: Bound) -> None:\n        self.v = v\n"],
     "U": ["from {D} import Box, Bound\nclass Mine(Bound):\n    pass\nb = Box(Mine())\nk: int = b.v.n\ndef f(x: Box[Mine]) -> Mine:\n    return x.v\n"]},
    {"name": "enum", "construct": "Enum members (visit_member_expr on enum, literal types)",
     "D": ["from enum import Enum\nclass Color(Enum):\n    RED = 1\n    GREEN = 2\n",
           "from enum import Enum\nclass Color(Enum):\n    RED = 1\n",
           "from enum import Enum\nclass Color(Enum):\n    RED = 'r'\n    GREEN = 'g'\n",
           "from enum import IntEnum\nclass Color(IntEnum):\n    RED = 1\n    GREEN = 2\n",
           "class Color:\n    RED = 1\n    GREEN = 2\n"],
     "U": ["from {D} import Color\nc = Color.GREEN\ndef f(x: Color) -> int:\n    if x is Color.RED:\n        return 1\n    return x.value\nn: int = Color.RED + 1\n"]},
    {"name": "property", "construct": "property / method kind change (snapshot of Decorator + is_property)",
     "D": ["class Pr:\n    @property\n    def p(self) -> int:\n        return 1\n",
           "class Pr:\n    @property\n    def p(self) -> str:\n        return ''\n",
           "class Pr:\n    def p(self) -> int:\n        return 1\n",
           "class Pr:\n    p: int = 1\n",
           "class Pr:\n    @property\n    def p(self) -> int:\n        return 1\n    @p.setter\n    def p(self, v: int) -> None: ...\n",
           "class Pr:\n    @staticmethod\n    def p() -> int:\n        return 1\n"],
     "U": ["from {D} import Pr\nx: int = Pr().p\ndef f(o: Pr) -> None:\n    o.p = 3\n"]},
    {"name": "override", "construct": "method override compatibility in a using subclass (visit_func_def on methods: base-class deps)",
     "D": ["class Base:\n    def m(self, a: int) -> int:\n        return a\n",
           "class Base:\n    def m(self, a: str) -> int:\n        return 0\n",
           "class Base:\n    def m(self, a: int) -> str:\n        return ''\n",
           "class Base:\n    def m(self, a: int, b: int = 0) -> int:\n        return a\n",
           "class Base:\n    m: int = 0\n",
           "class Base:\n    pass\n"],
     "M": ["from {D} import Base\nclass Mid(Base):\n    pass\n"],
     "U": ["from {M} import Mid\nclass Leaf(Mid):\n    def m(self, a: int) -> int:\n        return a + 1\n"]},
    {"name": "abstract", "construct": "abstract method set (is_abstract / abstract_attributes in TypeInfo snapshot)",
     "D": ["from abc import ABC, abstractmethod\nclass A(ABC):\n    def m(self) -> int:\n        return 0\n",
           "from abc import ABC, abstractmethod\nclass A(ABC):\n    @abstractmethod\n    def m(self) -> int: ...\n",
           "from abc import ABC, abstractmethod\nclass A(ABC):\n    @abstractmethod\n    def m(self) -> int: ...\n    @abstractmethod\n    def n(self) -> int: ...\n",
           "class A:\n    def m(self) -> int:\n        return 0\n"],
     "M": ["from {D} import A\nclass Impl(A):\n    def m(self) -> int:\n        return 1\n"],
     "U": ["from {M} import Impl\nfrom {D} import A\nx = Impl()\ny = A()\n"]},
    {"name": "final-const", "construct": "Final constant / literal value (final_value in snapshot)",
     "D": ["from typing import Final\nK: Final = 1\n", "from typing import Final\nK: Final = 2\n", "from typing import Final\nK: Final = 'a'\n",
           "K = 1\n", "from typing import Final\nK: Final[int] = 1\n"],
     "U": ["from typing import Literal\nfrom {D} import K\nx: Literal[1] = K\ndef f() -> None:\n    global y\ny: int = K\n"],
     "V": ["import {D}\n{D}.K = 5\n"]},
    {"name": "func-default", "construct": "function signature: defaults, kinds, names (snapshot of CallableType)",
     "D": ["def fn(a: int, b: int = 0) -> int:\n    return a\n", "def fn(a: int, b: int) -> int:\n    return a\n",
           "def fn(a: int, *, b: int = 0) -> int:\n    return a\n", "def fn(a: int, c: int = 0) -> int:\n    return a\n",
           "def fn(*a: int, **b: int) -> int:\n    return 0\n", "async def fn(a: int, b: int = 0) -> int:\n    return a\n"],
     "U": ["from {D} import fn\nx: int = fn(1)\ny: int = fn(1, 2)\ndef g() -> int:\n    return fn(1, b=2)\n"]},
    {"name": "class-kind", "construct": "name changes kind: class / function / variable / module-level alias (snapshot kind tags)",
     "D": ["class Thing:\n    def __init__(self, a: int) -> None: ...\n", "def Thing(a: int) -> int:\n    return a\n",
           "Thing = int\n", "Thing: int = 0\n", "import os as Thing\n", "from typing import Any\nThing: Any = None\n"],
     "U": ["from {D} import Thing\nt = Thing(1)\ndef f(x: Thing) -> None: ...\n"],
     "V": ["import {D}\ndef g() -> None:\n    {D}.Thing(1)\n"]},
    {"name": "nested-class", "construct": "nested class attribute (find_symbol_tables_recursive, nested TypeInfo snapshot)",
     "D": ["class Outer:\n    class Inner:\n        v: int = 0\n", "class Outer:\n    class Inner:\n        v: str = ''\n",
           "class Outer:\n    class Inner:\n        w: int = 0\n", "class Outer:\n    Inner = int\n",
           "class Outer:\n    class Inner:\n        v: int = 0\n        class Deep:\n            d: int = 0\n"],
     "U": ["from {D} import Outer\nx: int = Outer.Inner().v\ndef f(i: Outer.Inner) -> int:\n    return i.v\n"]},
    {"name": "metaclass", "construct": "metaclass attribute / class-level call (metaclass deps)",
     "D": ["class Meta(type):\n    def make(cls) -> int:\n        return 1\nclass WithMeta(metaclass=Meta):\n    pass\n",
           "class Meta(type):\n    def make(cls) -> str:\n        return ''\nclass WithMeta(metaclass=Meta):\n    pass\n",
           "class Meta(type):\n    pass\nclass WithMeta(metaclass=Meta):\n    pass\n",
           "class Meta(type):\n    def make(cls) -> int:\n        return 1\nclass WithMeta:\n    pass\n"],
     "U": ["from {D} import WithMeta\nx: int = WithMeta.make()\nclass Child(WithMeta):\n    pass\ny: int = Child.make()\n"]},
    {"name": "operator", "construct": "operator methods (visit_op_expr / visit_index_expr / visit_unary_expr, __r*__ deps)",
     "D": ["class Num:\n    def __add__(self, o: int) -> int:\n        return 1\n    def __getitem__(self, i: int) -> int:\n        return 1\n    def __neg__(self) -> int:\n        return 1\n",
           "class Num:\n    def __add__(self, o: str) -> int:\n        return 1\n    def __getitem__(self, i: int) -> str:\n        return ''\n    def __neg__(self) -> str:\n        return ''\n",
           "class Num:\n    def __radd__(self, o: int) -> int:\n        return 1\n",
           "class Num:\n    def __add__(self, o: int) -> int:\n        return 1\n    def __getitem__(self, i: int) -> int:\n        return 1\n    def __neg__(self) -> int:\n        return 1\n    def __iter__(self) -> 'Num':\n        return self\n    def __next__(self) -> int:\n        return 1\n    def __enter__(self) -> int:\n        return 1\n    def __exit__(self, *a: object) -> None: ...\n"],
     "U": ["from {D} import Num\na: int = Num() + 1\nb: int = Num()[0]\nc: int = -Num()\nd: int = 1 + Num()\ndef f() -> None:\n    for i in Num():\n        j: int = i\n    with Num() as w:\n        k: int = w\n"]},
    {"name": "reveal", "construct": "note-only output (reveal_type of an imported name) — the status of a check with notes only",
     "D": ["def fn() -> int:\n    return 1\n", "def fn() -> str:\n    return ''\n", "def fn() -> list[int]:\n    return []\n"],
     "U": ["from {D} import fn\nreveal_type(fn())\n"]},
    {"name": "self-type", "construct": "attribute defined in a method (`self.x = …` in __init__ of a base, inferred)",
     "D": ["class HasInit:\n    def __init__(self) -> None:\n        self.attr = 1\n", "class HasInit:\n    def __init__(self) -> None:\n        self.attr = ''\n",
           "class HasInit:\n    def __init__(self) -> None:\n        self.other = 1\n",
           "class HasInit:\n    def __init__(self) -> None:\n        self.setup()\n    def setup(self) -> None:\n        self.attr = 1\n"],
     "M": ["from {D} import HasInit\nclass Derived(HasInit):\n    def get(self) -> int:\n        return self.attr\n"],
     "U": ["from {M} import Derived\nx: int = Derived().attr\ny: int = Derived().get()\n"]},
    {"name": "callable-attr", "construct": "callback protocol / __call__ (visit_call_expr on instances)",
     "D": ["class CB:\n    def __call__(self, a: int) -> int:\n        return a\n", "class CB:\n    def __call__(self, a: str) -> int:\n        return 0\n",
           "class CB:\n    def __call__(self, a: int) -> str:\n        return ''\n", "class CB:\n    pass\n"],
     "U": ["from typing import Callable\nfrom {D} import CB\nx: int = CB()(1)\nf: Callable[[int], int] = CB()\n"]},
    {"name": "module-getattr", "construct": "submodule as attribute of a package (`import pkg.sub`; delete / change the submodule)",
     "package": True,
     "D": ["def fn() -> int:\n    return 1\nclass C:\n    v: int = 0\n", "def fn() -> str:\n    return ''\nclass C:\n    v: str = ''\n",
           "class C:\n    v: int = 0\n", "def fn() -> int:\n    return 1\n"],
     "U": ["import {P}.{D}\nx: int = {P}.{D}.fn()\nclass Sub({P}.{D}.C):\n    v: int = 1\n"],
     "V": ["from {P} import {D}\ndef f() -> int:\n    return {D}.fn()\nfrom {P}.{D} import C\nclass S2(C):\n    def get(self) -> int:\n        return self.v\n"]},
]

from harness.c03.gen2 import WIDE_SCENARIOS  # noqa: E402

N_BASE_SCENARIOS = len(SCENARIOS)
SCENARIOS += WIDE_SCENARIOS

SYNTAX_ERROR = "def broken(:\n"


class Instance:
    """One scenario placed in a world with its own module names."""

    def __init__(self, idx: int, sc: dict, rng) -> None:
        self.sc = sc
        self.idx = idx
        self.pkg = f"p{idx}" if sc.get("package") else None
        self.names = {"D": f"d{idx}", "M": f"m{idx}", "U": f"u{idx}", "V": f"v{idx}", "P": f"p{idx}"}
        self.roles = [r for r in ("D", "M", "U", "V") if r in sc]
        self.variant = {r: 0 for r in self.roles}
        self.present = {r: True for r in self.roles}
        self.stub: int | None = None          # variant index of {D}.pyi if a stub exists
        self.as_package = False               # {D}.py  ↦  {D}/__init__.py
        self.broken = False                   # syntax error appended to {D}
        self.touch = False
        self.bump = {r: 0 for r in self.roles}     # trailing "# edit n" comment per module (content change, same semantics)

    def modname(self, role: str) -> str:
        n = self.names[role]
        if self.pkg and role == "D":
            return f"{self.pkg}.{n}"
        return n

    def text(self, role: str, variant: int | None = None) -> str:
        v = self.sc[role][self.variant[role] if variant is None else variant]
        for k, n in self.names.items():
            v = v.replace("{" + k + "}", n)
        return v

    def files(self) -> dict[str, str]:
        out: dict[str, str] = {}
        for r in self.roles:
            if not self.present[r]:
                continue
            n = self.names[r]
            if r == "D" and self.pkg:
                out[f"{self.pkg}/__init__.py"] = ""
                out[f"{self.pkg}/{n}.py"] = self.text(r) + (SYNTAX_ERROR if self.broken else "")
            elif r == "D" and self.as_package:
                out[f"{n}/__init__.py"] = self.text(r) + (SYNTAX_ERROR if self.broken else "")
            elif r == "D":
                out[f"{n}.py"] = self.text(r) + (SYNTAX_ERROR if self.broken else "")
            else:
                out[f"{n}.py"] = self.text(r) + (f"# edit {self.bump[r]}\n" if self.bump[r] else "")
        if self.pkg and "D" in self.roles and not self.present["D"]:
            out[f"{self.pkg}/__init__.py"] = ""
        if self.stub is not None and self.present["D"] and not self.pkg and not self.as_package:
            out[f"{self.names['D']}.pyi"] = stubify(self.text("D", self.stub))
        return out


def stubify(src: str) -> str:
    """A .pyi is given the same text as the .py variant (function bodies are allowed in stubs)."""
    return src


EDITS = ["variant", "variant", "variant", "variant", "variant", "mid-variant", "edit-users", "delete-definer", "restore-definer",
         "add-stub", "remove-stub", "to-package", "from-package", "touch", "break-syntax", "fix-syntax", "delete-user",
         "restore-user"]


class CWorld:
    def __init__(self, rng, n: tuple[int, int] = (4, 7), only: list[str] | None = None, wide: bool = False) -> None:
        pool = [s for s in (SCENARIOS if wide else SCENARIOS[:N_BASE_SCENARIOS]) if only is None or s["name"] in only]
        k = min(len(pool), rng.randint(*n))
        self.insts = [Instance(i, sc, rng) for i, sc in enumerate(rng.sample(pool, k))]
        for inst in self.insts:
            for r in inst.roles:
                inst.variant[r] = rng.randrange(len(inst.sc[r]))

    def files(self) -> dict[str, str]:
        out: dict[str, str] = {}
        for i in self.insts:
            out.update(i.files())
        return out

    def take_touched(self) -> list[str]:
        out = []
        for i in self.insts:
            if i.touch:
                i.touch = False
                n = i.names["D"]
                out.append(f"{i.pkg}/{n}.py" if i.pkg else (f"{n}/__init__.py" if i.as_package else f"{n}.py"))
        return out

    def edit(self, rng, kinds: list[str] | None = None) -> dict:
        for _ in range(30):
            kind = rng.choice(kinds or EDITS)
            inst = rng.choice(self.insts)
            d = {"kind": kind, "scenario": inst.sc["name"], "module": inst.modname("D")}
            if kind == "variant":
                if not inst.present["D"] or len(inst.sc["D"]) < 2:
                    continue
                new = rng.choice([v for v in range(len(inst.sc["D"])) if v != inst.variant["D"]])
                d["from"], d["to"] = inst.variant["D"], new
                inst.variant["D"] = new
            elif kind == "mid-variant":
                if "M" not in inst.roles or len(inst.sc["M"]) < 2:
                    continue
                new = rng.choice([v for v in range(len(inst.sc["M"])) if v != inst.variant["M"]])
                d["module"] = inst.modname("M")
                d["from"], d["to"] = inst.variant["M"], new
                inst.variant["M"] = new
            elif kind == "delete-definer":
                if not inst.present["D"]:
                    continue
                inst.present["D"] = False
                if inst.pkg:
                    d["submodule_of_remaining_package"] = True
            elif kind == "restore-definer":
                if inst.present["D"]:
                    continue
                inst.present["D"] = True
                inst.variant["D"] = rng.randrange(len(inst.sc["D"]))
                d["to"] = inst.variant["D"]
            elif kind == "add-stub":
                if inst.stub is not None or inst.pkg or inst.as_package or not inst.present["D"]:
                    continue
                inst.stub = rng.randrange(len(inst.sc["D"]))
                d["to"] = inst.stub
            elif kind == "remove-stub":
                if inst.stub is None:
                    continue
                inst.stub = None
            elif kind == "to-package":
                if inst.as_package or inst.pkg or inst.stub is not None or not inst.present["D"]:
                    continue
                inst.as_package = True
            elif kind == "from-package":
                if not inst.as_package:
                    continue
                inst.as_package = False
            elif kind == "touch":
                if not inst.present["D"]:
                    continue
                inst.touch = True
            elif kind == "break-syntax":
                if inst.broken or not inst.present["D"] or any(i.broken for i in self.insts):
                    continue
                inst.broken = True
            elif kind == "fix-syntax":
                if not inst.broken:
                    continue
                inst.broken = False
            elif kind == "edit-users":
                # the using and middle modules of the instance change in the same step (not their meaning)
                for r in inst.roles:
                    if r != "D" and inst.present[r]:
                        inst.bump[r] += 1
                d["module"] = ",".join(inst.modname(r) for r in inst.roles if r != "D")
                if rng.random() < 0.5 and inst.present["D"] and len(inst.sc["D"]) > 1:
                    new = rng.choice([v for v in range(len(inst.sc["D"])) if v != inst.variant["D"]])
                    d["also_variant"] = [inst.variant["D"], new]
                    inst.variant["D"] = new
            elif kind == "delete-user":
                users = [r for r in inst.roles if r in ("U", "V") and inst.present[r]]
                if not users:
                    continue
                r = rng.choice(users)
                inst.present[r] = False
                d["module"] = inst.modname(r)
            elif kind == "restore-user":
                users = [r for r in inst.roles if r in ("U", "V") and not inst.present[r]]
                if not users:
                    continue
                r = rng.choice(users)
                inst.present[r] = True
                d["module"] = inst.modname(r)
            return d
        return {"kind": "none"}


def catalog_history(rng, nsteps: int, only: list[str] | None = None, kinds: list[str] | None = None,
                    n: tuple[int, int] = (4, 7), wide: bool = False) -> list[dict]:
    """[{edits, files, touch}] — step 0 is the initial program."""
    w = CWorld(rng, n=n, only=only, wide=wide)
    out = []
    for k in range(nsteps):
        edits = []
        if k > 0:
            for _ in range(rng.choice([1, 1, 2, 3])):
                edits.append(w.edit(rng, kinds))
        out.append({"edits": edits, "files": w.files(), "touch": w.take_touched()})
    return out


def pair_histories() -> list[tuple[str, list[dict]]]:
    """Deterministic sweep: for every scenario, the history that walks through all variants of the defining
    module (v0 → v1 → … → v0), alone in its world.  Every construct × variant-change pair occurs."""
    import random
    out = []
    for sc in SCENARIOS:
        rng = random.Random(0)
        inst = Instance(0, sc, rng)
        steps = [{"edits": [], "files": inst.files(), "touch": []}]
        nv = len(sc["D"])
        for v in list(range(1, nv)) + [0]:
            inst.variant["D"] = v
            steps.append({"edits": [{"kind": "variant", "scenario": sc["name"], "module": inst.modname("D"), "to": v}],
                          "files": inst.files(), "touch": []})
        if "M" in sc and len(sc["M"]) > 1:
            for v in list(range(1, len(sc["M"]))) + [0]:
                inst.variant["M"] = v
                steps.append({"edits": [{"kind": "mid-variant", "scenario": sc["name"], "module": inst.modname("M"), "to": v}],
                              "files": inst.files(), "touch": []})
        out.append((sc["name"], steps))
    return out


def packed_sweeps(rng=None, group: int = 10, which: str = "all") -> list[tuple[str, list[dict]]]:
    """Every scenario × every variant of its defining module, `group` scenarios per world: at step k every
    scenario of the world switches its defining module to the next variant of its walk (the fixed walk
    v0 → v1 → … → v0 when `rng` is None, a random permutation otherwise); afterwards the middle modules walk
    through their variants.  The scenarios of one world share no module, so each diagnostic is attributable."""
    out = []
    scs = list(SCENARIOS)
    if which == "base":
        scs = scs[:N_BASE_SCENARIOS]
    elif which == "wide":
        scs = scs[N_BASE_SCENARIOS:]
    tag = "" if which != "wide" else "w"
    for g0 in range(0, len(scs), group):
        part = scs[g0:g0 + group]
        insts = [Instance(i, sc, None) for i, sc in enumerate(part)]
        walks = []
        for inst in insts:
            nv = len(inst.sc["D"])
            w = list(range(1, nv)) + [0]
            if rng is not None:
                w = list(range(nv))
                rng.shuffle(w)
                inst.variant["D"] = w[0]
                w = w[1:] + [w[0]]
            walks.append(w)

        def files():
            o = {}
            for i in insts:
                o.update(i.files())
            return o
        steps = [{"edits": [], "files": files(), "touch": []}]
        for k in range(max(len(w) for w in walks)):
            edits = []
            for inst, w in zip(insts, walks):
                if k < len(w):
                    edits.append({"kind": "variant", "scenario": inst.sc["name"], "module": inst.modname("D"),
                                  "from": inst.variant["D"], "to": w[k]})
                    inst.variant["D"] = w[k]
            steps.append({"edits": edits, "files": files(), "touch": []})
        mids = [i for i in insts if "M" in i.sc and len(i.sc["M"]) > 1]
        for k in range(max([len(i.sc["M"]) for i in mids] or [0])):
            edits = []
            for inst in mids:
                nv = len(inst.sc["M"])
                if k < nv:
                    to = (k + 1) % nv
                    edits.append({"kind": "mid-variant", "scenario": inst.sc["name"], "module": inst.modname("M"), "to": to})
                    inst.variant["M"] = to
            if edits:
                steps.append({"edits": edits, "files": files(), "touch": []})
        out.append((f"{tag}{'walk' if rng is None else 'shuffle'}-{g0 // group}", steps))
    return out


def entry_targets(steps: list[dict]) -> list[str]:
    """Entry-point mode: only the top using modules (v*.py, else u*.py) are given to mypy; the rest is followed."""
    import re
    names = sorted({rel for st in steps for rel in st["files"]})
    idx = sorted({re.sub(r"\D", "", n.split("/")[0].split(".")[0]) for n in names if re.match(r"^[uv]\d+\.py$", n)})
    out = []
    for i in idx:
        out.append(f"v{i}.py" if f"v{i}.py" in names else f"u{i}.py")
        if f"v{i}.py" in names and f"u{i}.py" in names:
            # v does not always import u; keep u as a root too unless v imports it
            vtxt = next((st["files"][f"v{i}.py"] for st in steps if f"v{i}.py" in st["files"]), "")
            if f"u{i}" not in vtxt:
                out.append(f"u{i}.py")
    return out
