"""C03 worker: one edit history, in this process.

    python worker.py spec.json result.json

spec = {"root": dir, "follow_imports": "normal"|"error"|"skip", "steps": [{"files": {rel: text}, "touch": [rel],
        "clock": int, "recheck": bool}], "trace": bool, "targets": [rel]|null}
("recheck": answer this step with `cmd_recheck` instead of `check`; only set when the file set is unchanged.)

After every step: the real `dmypy_server.Server.check` (one Server for the whole history, in-process) and a fresh
non-incremental `mypy.build.build` on the same files.  With "trace": the fine-grained propagation is observed
from outside (module-level functions of mypy.server.update are wrapped): per call of
`propagate_changes_using_dependencies` the triggers, per iteration the part of the real `deps` map reachable from
the active triggers, `lookup_target` results, `reprocess_nodes` calls (module, fired triggers) and the
`processed_targets` appended.
"""
from __future__ import annotations

import json
import os
import sys
import traceback


def write_step(root: str, step: dict) -> None:
    files = step["files"]
    clock = step["clock"]
    for rel, text in files.items():
        p = os.path.join(root, rel)
        os.makedirs(os.path.dirname(p), exist_ok=True)
        old = open(p).read() if os.path.exists(p) else None
        if old != text or rel in step.get("touch", []):
            with open(p, "w") as f:
                f.write(text)
            os.utime(p, (clock, clock))
    for dp, _dns, fs in os.walk(root, topdown=False):
        for fn in fs:
            rel = os.path.relpath(os.path.join(dp, fn), root)
            if rel.endswith((".py", ".pyi")) and rel not in files:
                os.remove(os.path.join(dp, fn))
        if dp != root and not os.listdir(dp):
            os.rmdir(dp)


class Tracer:
    """Observes mypy.server.update from outside."""

    def __init__(self) -> None:
        import mypy.server.update as U
        self.U = U
        self.calls: list[dict] = []
        self.cur: dict | None = None
        self.it: dict | None = None
        self.orig = {n: getattr(U, n) for n in ("propagate_changes_using_dependencies", "find_targets_recursive",
                                                "reprocess_nodes", "lookup_target")}
        U.propagate_changes_using_dependencies = self.propagate
        U.find_targets_recursive = self.find_targets
        U.reprocess_nodes = self.reprocess
        U.lookup_target = self.lookup
        # ---- the callers: FineGrainedBuildManager.update / update_module / calculate_active_triggers
        self.updates: list[dict] = []
        self.upd: dict | None = None
        self.mod_ev: dict | None = None
        tracer = self
        FG = U.FineGrainedBuildManager
        orig_update, orig_update_module, orig_active = FG.update, FG.update_module, U.calculate_active_triggers

        def update(fg, changed_modules, removed_modules, followed=False):
            rec = {"prev": sorted(fg.previous_targets_with_errors), "changed": [m for m, _ in changed_modules],
                   "removed": [m for m, _ in removed_modules], "stale": [m for m, _ in fg.stale],
                   "blocking_before": fg.blocking_error is not None, "events": [], "ok": True}
            outer = tracer.upd
            tracer.upd = rec
            tracer.updates.append(rec)
            try:
                res = orig_update(fg, changed_modules, removed_modules, followed)
                rec["blocking_after"] = fg.blocking_error is not None
                rec["final_prev"] = sorted(fg.previous_targets_with_errors)
                return res
            except BaseException:
                rec["ok"] = False
                raise
            finally:
                tracer.upd = outer

        def update_module(fg, module, path, force_removed, followed):
            ev = {"type": "module", "module": module, "triggered": None}
            if tracer.upd is not None:
                tracer.upd["events"].append(ev)
            tracer.mod_ev = ev
            res = orig_update_module(fg, module, path, force_removed, followed)
            remaining, (mod2, _p), blocker = res
            ev.update({"processed_as": mod2, "remaining": [m for m, _ in remaining], "blocked": blocker is not None,
                       "errs_after": sorted(fg.manager.errors.targets())})
            return res

        def active(manager, old_snapshots, new_modules):
            res = orig_active(manager, old_snapshots, new_modules)
            if tracer.mod_ev is not None:
                tracer.mod_ev["triggered"] = sorted(res)
            return res

        FG.update = update
        FG.update_module = update_module
        U.calculate_active_triggers = active

    def take(self) -> list[dict]:
        out, self.calls = self.calls, []
        return out

    def take_updates(self) -> list[dict]:
        out, self.updates = self.updates, []
        return out

    def propagate(self, manager, graph, deps, triggered, up_to_date_modules, targets_with_errors, processed_targets):
        rec = {"triggered": sorted(triggered), "up_to_date": sorted(up_to_date_modules),
               "targets_with_errors": sorted(targets_with_errors), "iters": [], "outcome": "done"}
        self.cur = rec
        self.calls.append(rec)
        if self.upd is not None:
            self.upd["events"].append({"type": "propagate", "call": rec})
        n0 = len(processed_targets)
        self._pt = processed_targets
        try:
            res = self.orig["propagate_changes_using_dependencies"](manager, graph, deps, triggered, up_to_date_modules,
                                                                   targets_with_errors, processed_targets)
            rec["remaining"] = [m for m, _ in res]
            return res
        except RuntimeError as e:
            rec["outcome"] = "max_iter" if "Max number of iterations" in str(e) else "error"
            raise
        finally:
            rec["processed"] = list(processed_targets[n0:])
            self.cur = None
            self.it = None

    def find_targets(self, manager, graph, triggers, deps, up_to_date_modules):
        from mypy.util import module_prefix
        trig = set(triggers)
        # the part of the real deps map reachable from the active triggers (a superset would be harmless)
        seen = set(trig)
        todo = list(trig)
        sub: dict[str, list[str]] = {}
        while todo:
            k = todo.pop()
            if not k.startswith("<"):
                continue
            vs = deps.get(k)
            if vs is None:
                continue
            sub[k] = sorted(vs)
            for v in vs:
                if v not in seen:
                    seen.add(v)
                    todo.append(v)
        it = {"triggers": sorted(trig), "up_to_date": sorted(up_to_date_modules), "deps": sub, "lookup": {}, "mod_of": {},
              "reprocess": [], "n_processed_before": len(self._pt) if self.cur is not None else 0}
        tgts = {v for vs in sub.values() for v in vs if not v.startswith("<")} | {t for t in trig if not t.startswith("<")}
        if self.cur is not None:
            tgts |= set(self.cur["targets_with_errors"]) if not self.cur["iters"] else set()
        for t in sorted(tgts):
            m = module_prefix(graph, t)
            loaded = m is not None and m in manager.modules and not manager.modules[m].is_cache_skeleton
            it["mod_of"][t] = [m, loaded]
        self.it = it
        if self.cur is not None:
            self.cur["iters"].append(it)
        res = self.orig["find_targets_recursive"](manager, graph, triggers, deps, up_to_date_modules)
        todo_d, unloaded, stale = res
        it["todo"] = {m: sorted((d.node.fullname, d.node.line) for d in ns) for m, ns in todo_d.items()}
        it["unloaded"] = sorted(unloaded)
        it["stale_protos"] = sorted(i.fullname for i in stale)
        return res

    def lookup(self, manager, target, module_id):
        res = self.orig["lookup_target"](manager, target, module_id)
        if self.it is not None:
            nodes, proto = res
            self.it["lookup"][target] = {"nodes": [[d.node.fullname, d.node.line] for d in nodes],
                                         "proto": proto.fullname if proto is not None else None}
        return res

    def reprocess(self, manager, graph, module_id, nodeset, deps, processed_targets):
        n0 = len(processed_targets)
        lines = {d.node.fullname: d.node.line for d in nodeset}
        fired = self.orig["reprocess_nodes"](manager, graph, module_id, nodeset, deps, processed_targets)
        if self.it is not None:
            self.it["reprocess"].append({"module": module_id, "in_graph": module_id in graph, "lines": lines,
                                         "processed": list(processed_targets[n0:]), "fired": sorted(fired)})
        return fired


def full_build(req: dict) -> dict:
    """A fresh non-incremental build of the files as they are now (runs in the full-build child process)."""
    from mypy import build
    from mypy.errors import CompileError
    from mypy.find_sources import create_source_list
    from mypy.fscache import FileSystemCache
    from mypy.options import Options
    from mypy.util import count_stats
    fopt = Options()
    fopt.cache_dir = os.devnull
    fopt.show_traceback = True
    fopt.local_partial_types = True       # the daemon forces it; give the full check the same flag
    fopt.follow_imports = req.get("follow_imports", "normal")
    fopt.error_summary = False
    fopt.incremental = False
    for k, v in req.get("flags", {}).items():
        setattr(fopt, k, v)
    msgs: list[str] = []
    try:
        fsrcs = create_source_list(req["targets"], fopt, FileSystemCache())
        build.build(fsrcs, fopt, flush_errors=lambda f, m, s: msgs.extend(m), fscache=FileSystemCache())
        _, n_notes, _ = count_stats(msgs)
        return {"out": "".join(m + "\n" for m in msgs), "status": 1 if msgs and n_notes < len(msgs) else 0}
    except CompileError as e:
        allm = msgs + [m for m in e.messages if m not in msgs]    # streamed messages reach the callback first
        return {"out": "".join(m + "\n" for m in allm), "status": 2, "blocker": True}
    except BaseException as e:      # noqa
        if isinstance(e, KeyboardInterrupt):
            raise
        return {"crash": type(e).__name__, "traceback": traceback.format_exc()[-3000:]}


def full_server() -> int:
    """Child process: one full build per request line; never shares interpreter state with the daemon."""
    for line in sys.stdin:
        line = line.strip()
        if not line:
            continue
        res = full_build(json.loads(line))
        sys.stdout.write("@@RESULT " + json.dumps(res) + "\n")
        sys.stdout.flush()
    return 0


class FullClient:
    def __init__(self, root: str) -> None:
        import subprocess
        self.p = subprocess.Popen([sys.executable, os.path.abspath(__file__), "--full-server"], cwd=root, stdin=subprocess.PIPE,
                                  stdout=subprocess.PIPE, text=True, env=dict(os.environ))

    def build(self, req: dict) -> dict:
        assert self.p.stdin and self.p.stdout
        self.p.stdin.write(json.dumps(req) + "\n")
        self.p.stdin.flush()
        while True:
            line = self.p.stdout.readline()
            if not line:
                return {"crash": "full-build child died", "traceback": ""}
            if line.startswith("@@RESULT "):
                return json.loads(line[len("@@RESULT "):])

    def close(self) -> None:
        try:
            if self.p.stdin:
                self.p.stdin.close()
            self.p.wait(timeout=20)
        except Exception:
            self.p.kill()


def main() -> int:
    if sys.argv[1] == "--full-server":
        return full_server()
    spec = json.load(open(sys.argv[1]))
    root = spec["root"]
    os.makedirs(root, exist_ok=True)
    os.chdir(root)
    from mypy.dmypy_server import Server
    from mypy.find_sources import create_source_list
    from mypy.fscache import FileSystemCache
    from mypy.options import Options

    def options(fine: bool) -> Options:
        o = Options()
        o.cache_dir = os.devnull
        o.show_traceback = True
        o.local_partial_types = True       # the daemon forces it; give the full check the same flag
        o.follow_imports = spec.get("follow_imports", "normal")
        o.error_summary = False
        for k, v in spec.get("flags", {}).items():
            setattr(o, k, v)
        if fine:
            o.incremental = True
            o.fine_grained_incremental = True
        else:
            o.incremental = False
        return o

    tracer = Tracer() if spec.get("trace") else None
    dopt = options(True)
    server = Server(dopt, os.path.join(os.path.dirname(root), "status-%d.json" % os.getpid()))
    full = FullClient(root)
    targets = spec.get("targets") or ["."]
    out_steps = []
    dead = False
    for k, step in enumerate(spec["steps"]):
        write_step(root, step)
        res: dict = {}
        tg = [t for t in targets if t == "." or os.path.exists(t)] or ["."]
        # ---- daemon
        if not dead:
            try:
                if step.get("recheck") and server.fine_grained_manager is not None:
                    # `dmypy recheck`: same list of files as the previous request
                    r = server.cmd_recheck(is_tty=False, terminal_width=80, export_types=False)
                else:
                    srcs = create_source_list(tg, dopt, FileSystemCache())
                    r = server.check(srcs, export_types=False, is_tty=False, terminal_width=80)
                res["daemon"] = {"out": r.get("out", ""), "err": r.get("err", ""), "status": r.get("status")}
                fg = server.fine_grained_manager
                if fg is not None:
                    res["daemon"]["updated_modules"] = list(fg.updated_modules)
            except BaseException as e:     # noqa: the daemon process would have died here
                if isinstance(e, KeyboardInterrupt):
                    raise
                dead = True
                tb = traceback.format_exc()
                frames = traceback.extract_tb(e.__traceback__)
                res["daemon"] = {"crash": type(e).__name__, "message": str(e)[:300], "traceback": tb[-3000:],
                                 "where": [f"{os.path.basename(f.filename)}:{f.name}" for f in frames[-4:]]}
            if tracer is not None:
                res["trace"] = tracer.take()
                res["updates"] = tracer.take_updates()
        else:
            res["daemon"] = {"dead": True}
        # ---- full, non-incremental, in another process (the daemon's interpreter state is never shared)
        res["full"] = full.build({"targets": tg, "follow_imports": spec.get("follow_imports", "normal"), "flags": spec.get("flags", {})})
        out_steps.append(res)
    full.close()
    with open(sys.argv[2], "w") as f:
        json.dump({"steps": out_steps}, f)
    return 0


if __name__ == "__main__":
    sys.exit(main())
