"""Developer tool: shrink a failing C03 history.   python -m harness.c03.minimize replay.json [mode]

Greedy: drop module groups (files sharing a numeric suffix, e.g. d3/m3/u3/v3/p3), then drop steps, while the
daemon still shows the same kind of failure (crash type / first differing step exists)."""
from __future__ import annotations

import json
import os
import re
import shutil
import subprocess
import sys
import tempfile

from harness.vlib.core import PY, VERIF, repo_env

WORKER = os.path.join(VERIF, "harness", "c03", "worker.py")


def run(steps, mode):
    base = tempfile.mkdtemp(prefix="c03-min-", dir="/var/tmp")
    try:
        spec = {"root": base + "/src", "follow_imports": mode, "steps": steps, "trace": False}
        json.dump(spec, open(base + "/spec.json", "w"))
        subprocess.run([PY, WORKER, base + "/spec.json", base + "/res.json"], env=repo_env(), capture_output=True, text=True, timeout=900)
        return json.load(open(base + "/res.json"))["steps"]
    finally:
        shutil.rmtree(base, ignore_errors=True)


def signature(res):
    for k, r in enumerate(res):
        d, f = r["daemon"], r["full"]
        if "crash" in d:
            return ("crash", d["crash"], d.get("message"))
        if "out" in d:
            dl = sorted(l for l in d["out"].splitlines() if not l.startswith(("Found", "Success")))
            fl = sorted(l for l in f.get("out", "").splitlines())
            if dl != fl:
                return ("diff",)
    return None


def group(rel):
    m = re.match(r"^[a-z]+(\d+)", rel.split("/")[0].split(".")[0])
    return m.group(1) if m else rel


def main():
    body = json.load(open(sys.argv[1]))
    det = body["replay"].get("detail", body["replay"]) if "replay" in body else body
    steps = det["history"]
    mode = sys.argv[2] if len(sys.argv) > 2 else det.get("mode", "normal")
    want = signature(run(steps, mode))
    print("signature", want)
    if want is None:
        return
    groups = sorted({group(r) for s in steps for r in s["files"]})
    for g in groups:
        cand = [dict(s, files={r: t for r, t in s["files"].items() if group(r) != g}) for s in steps]
        if all(c["files"] for c in cand) and signature(run(cand, mode)) == want:
            steps = cand
            print("dropped group", g)
    i = 1
    while i < len(steps):
        cand = steps[:i] + steps[i + 1:]
        if len(cand) >= 2 and signature(run(cand, mode)) == want:
            steps = cand
            print("dropped step", i)
        else:
            i += 1
    for rel in sorted({r for s in steps for r in s["files"]}):
        cand = [dict(s, files={r: t for r, t in s["files"].items() if r != rel}) for s in steps]
        if all(c["files"] for c in cand) and signature(run(cand, mode)) == want:
            steps = cand
            print("dropped file", rel)
    out = sys.argv[1].replace(".json", ".min.json")
    json.dump({"mode": mode, "history": steps}, open(out, "w"), indent=1)
    print("written", out)
    for k, s in enumerate(steps):
        print("--- step", k, s.get("edits"))
        for r, t in sorted(s["files"].items()):
            print("#", r)
            print(t)


if __name__ == "__main__":
    main()
