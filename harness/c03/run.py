"""C03 — the daemon's fine-grained updates equal a full check after every edit.

1. Lean: Props/C03 (`propagate_reaches_fixpoint` for every state type; `closure_exact`; `update_eq_full` for the
   semantic instance relative to H_complete, `not_update_eq_full_without_depsComplete`; `updateG_sem`;
   `findChanged_complete_partial` + the F7 witness; `changedModules_complete_partial` + the stub-removal
   witness; `sortMessages_keeps_file_order`).
2. Tie at two levels, on the same generated edit histories (harness/c03/gen.py construct × edit-kind scenarios —
   packed sweeps over every scenario × variant plus random walks —, harness/vlib/buildsim.py module-structure
   edits, scripted witnesses), one worker process per history (harness/c03/worker.py: a real in-process
   `dmypy_server.Server`; the full builds run in a child process so that no interpreter state is shared):
   (i)  algorithm — every call of `propagate_changes_using_dependencies` is observed from outside (real `deps`
        map, triggers, `lookup_target` / `module_prefix` results, what each `reprocess_nodes` call fired) and
        replayed by Driver/C03 on the *model's* `propagate` (`P` lines): same reprocessed-target sequence, same
        `remaining_modules`, same stale protocols, same outcome.  Every whole `FineGrainedBuildManager.update`
        call without blocker / newly discovered modules is replayed on the model's `updateG` (`U` lines): same
        `update_module` order, same reprocess sequence across its propagate calls, same
        `previous_targets_with_errors` afterwards.  Plus the real `FileSystemWatcher._find_changed` and
        `Server._find_changed` against Model/FsWatch on random stat/hash scripts (`W`, `M` lines).
   (ii) output — daemon `check` / `recheck` after every edit vs a fresh non-incremental `build.build` on the same
        files: same messages per file in the same order, same status; follow-imports normal / skip / error.
3. Search = the property's own oracle (ii).  A level-(i) difference alone is not a violation: the output
   oracle is evaluated on that history and on a batch of extra histories; a concrete daemon ≠ full step is
   reported with the edit history as replay, otherwise `no-failing-input-found`.
A daemon/full difference is partitioned line by line (`explain`) into parts that match a listed known finding;
anything left over is a VIOLATION.
"""
from __future__ import annotations

import copy
import json
import os
import random
import re
import shutil
import subprocess
import zlib
from concurrent.futures import ThreadPoolExecutor

from harness.c03 import gen as G
from harness.vlib import buildsim as B
from harness.vlib.core import PY, VERIF, Ctx, ToolFailure, repo_env

MODEL_FILES = ["MypyVerif/Model/FineGrained.lean", "MypyVerif/Model/FsWatch.lean", "MypyVerif/Proofs/FineGrained.lean",
               "MypyVerif/Proofs/FsWatch.lean", "MypyVerif/Proofs/FineGrainedSem.lean"]
MODES = ["normal", "skip", "error"]
WORKER = os.path.join(VERIF, "harness", "c03", "worker.py")
NPROC = 6
CLOCK0 = 1_700_000_000


# ------------------------------------------------------------------------------------------ histories
def with_clock(steps: list[dict], same_second: set[int] = frozenset()) -> list[dict]:
    """+2 s per step (whole seconds, so every edit is observable by stat) unless the step is in `same_second`."""
    clock = CLOCK0
    out = []
    for k, st in enumerate(steps):
        if k not in same_second:
            clock += 2
        # half of the steps that keep the file set are answered by `dmypy recheck` (cmd_recheck) instead of `check`
        same_files = k > 0 and sorted(st["files"]) == sorted(steps[k - 1]["files"])
        recheck = same_files and zlib.crc32(json.dumps(st["files"], sort_keys=True).encode()) % 2 == 0
        out.append(dict(st, clock=clock, recheck=recheck))
    return out


def buildsim_history(seedkey: str, nsteps: int, kinds=None) -> list[dict]:
    rng = random.Random(seedkey)
    w = B.gen_world(rng)
    out = []
    for k in range(nsteps):
        edits = []
        if k > 0:
            for _ in range(rng.choice([1, 1, 1, 2])):
                edits.append(B.random_edit(rng, w, kinds))
        touch = [n.replace(".", "/") + ".py" for n in sorted(w.touched)]
        w.touched.clear()
        out.append({"edits": edits, "files": w.files(), "touch": touch})
    return out


def scripted_buildsim() -> list[tuple[str, list[dict]]]:
    out = []
    for name, ws in B.scripted_histories():
        steps = []
        for edits, w in ws:
            touch = [n.replace(".", "/") + ".py" for n in sorted(w.touched)]
            steps.append({"edits": edits, "files": w.files(), "touch": touch})
        out.append((name, steps))
    return out


def raw(name: str, *file_dicts: dict, kinds: list[str] | None = None) -> tuple[str, list[dict]]:
    steps = []
    for k, f in enumerate(file_dicts):
        steps.append({"edits": [] if k == 0 else [{"kind": (kinds[k - 1] if kinds else "witness:" + name)}], "files": f, "touch": []})
    return name, steps


def witnesses() -> list[dict]:
    """Small scripted histories that keep each known finding of C03 visible (and must stop matching if fixed)."""
    A = "import b\nx: int = b.f()\n"
    out = []
    # new, previously unseen stdlib import (follow-imports normal)
    n, s = raw("new-stdlib-import", {"a.py": A, "b.py": "def f() -> int:\n    return 1\n"},
               {"a.py": A, "b.py": "import unittest\ndef f() -> str:\n    return ''\n"},
               {"a.py": A, "b.py": "import unittest\ndef f() -> int:\n    return 1\n"}, kinds=["add-stdlib-import:unittest", "signature"])
    out.append({"name": n, "steps": s, "modes": ["normal", "skip"]})
    n, s = raw("new-stdlib-import-dotted", {"a.py": A, "b.py": "def f() -> int:\n    return 1\n"},
               {"a.py": A, "b.py": "import xml.dom.minidom\ndef f() -> str:\n    return ''\n"}, kinds=["add-stdlib-import:xml.dom.minidom"])
    out.append({"name": n, "steps": s, "modes": ["normal"]})
    # stub added, then removed, while b.py never changes
    n, s = raw("stub-removed", {"a.py": A, "b.py": "def f() -> str:\n    return ''\n"},
               {"a.py": A, "b.py": "def f() -> str:\n    return ''\n", "b.pyi": "def f() -> int: ...\n"},
               {"a.py": A, "b.py": "def f() -> str:\n    return ''\n"}, kinds=["add-stub", "remove-stub"])
    out.append({"name": n, "steps": s, "modes": ["normal", "skip"]})
    # notes only / blocking error: status
    n, s = raw("notes-only", {"a.py": "import b\nreveal_type(b.f())\n", "b.py": "def f() -> int:\n    return 1\n"},
               {"a.py": "import b\nreveal_type(b.f())\n", "b.py": "def f() -> str:\n    return ''\n"}, kinds=["signature"])
    out.append({"name": n, "steps": s, "modes": ["normal"]})
    n, s = raw("blocking-error", {"a.py": A, "b.py": "def f() -> int:\n    return 1\n"},
               {"a.py": A, "b.py": "def f() -> int:\n    return 1\ndef broken(:\n"},
               {"a.py": A, "b.py": "def f() -> str:\n    return ''\n"}, kinds=["break-syntax", "fix-syntax+signature"])
    out.append({"name": n, "steps": s, "modes": ["normal", "skip"]})
    # missing dependency edges (deps.py): state-dependent, so the witnesses are three-step histories
    M0 = "from d0 import Base\nclass Sub(Base):\n    z: int = 0\n"
    U0 = "from m0 import Sub\ndef f(s: Sub) -> int:\n    return s.x\nv: int = Sub().x\n"
    n, s = raw("base-attr-added-later", {"d0.py": "class Base:\n    y: str = ''\n", "m0.py": M0, "u0.py": U0},
               {"d0.py": "class Base:\n    x: int = 0\n    y: str = ''\n", "m0.py": M0, "u0.py": U0},
               {"d0.py": "class Base:\n    x: str = ''\n    y: str = ''\n", "m0.py": M0, "u0.py": U0})
    s[1]["edits"] = [{"kind": "variant", "scenario": "inherited-attr", "module": "d0", "from": 2, "to": 0}]
    s[2]["edits"] = [{"kind": "variant", "scenario": "inherited-attr", "module": "d0", "from": 0, "to": 1}]
    out.append({"name": n, "steps": s, "modes": ["normal", "skip"]})
    UK = "from d0 import Thing\ndef f(x: Thing) -> None: ...\n"
    n, s = raw("any-typed-name-in-annotation", {"d0.py": "def Thing(a: int) -> int:\n    return a\n", "u0.py": UK},
               {"d0.py": "from typing import Any\nThing: Any = None\n", "u0.py": UK},
               {"d0.py": "Thing: int = 0\n", "u0.py": UK})
    s[1]["edits"] = [{"kind": "variant", "scenario": "class-kind", "module": "d0", "from": 1, "to": 5}]
    s[2]["edits"] = [{"kind": "variant", "scenario": "class-kind", "module": "d0", "from": 5, "to": 3}]
    out.append({"name": n, "steps": s, "modes": ["normal", "skip"]})
    # a property of a class that astdiff does not snapshot: @dataclass ↦ @dataclass(frozen=True)
    DCU = "from d0 import DC\ndef f(d: DC) -> None:\n    d.a = 2\n"
    DCV = "from dataclasses import dataclass\nfrom d0 import DC\n@dataclass\nclass Sub(DC):\n    z: int = 0\n"
    n, s = raw("dataclass-frozen", {"d0.py": "from dataclasses import dataclass\n@dataclass\nclass DC:\n    a: int\n", "u0.py": DCU, "v0.py": DCV},
               {"d0.py": "from dataclasses import dataclass\n@dataclass(frozen=True)\nclass DC:\n    a: int\n", "u0.py": DCU, "v0.py": DCV})
    s[1]["edits"] = [{"kind": "variant", "scenario": "dataclass", "module": "d0", "from": 0, "to": 3}]
    out.append({"name": n, "steps": s, "modes": ["normal", "skip"]})
    # blocking error pending in b.py, then b.pyi appears (N1) / b.py becomes b/__init__.py still broken (N2)
    BAD = "def f() -> int:\n    return 1\ndef broken(:\n"
    n, s = raw("blocker-then-stub", {"a.py": A, "b.py": "def f() -> int:\n    return 1\n"}, {"a.py": A, "b.py": BAD},
               {"a.py": A, "b.py": BAD, "b.pyi": "def f() -> str: ...\n"}, kinds=["break-syntax", "add-stub"])
    out.append({"name": n, "steps": s, "modes": ["normal", "skip"]})
    n, s = raw("blocker-then-package", {"a.py": A, "b.py": "def f() -> int:\n    return 1\n"}, {"a.py": A, "b.py": BAD},
               {"a.py": A, "b/__init__.py": BAD}, kinds=["break-syntax", "to-package"])
    out.append({"name": n, "steps": s, "modes": ["normal", "skip"]})
    # reprocessed method loses `self` in a signature note
    n, s = raw("self-dropped", {"d.py": "class Base:\n    def m(self, a: int) -> int:\n        return a\n",
                                "u.py": "from d import Base\nclass Leaf(Base):\n    def m(self, a: int) -> int:\n        return a + 1\n"},
               {"d.py": "class Base:\n    def m(self, a: int, b: int = 0) -> int:\n        return a\n",
                "u.py": "from d import Base\nclass Leaf(Base):\n    def m(self, a: int) -> int:\n        return a + 1\n"}, kinds=["variant"])
    out.append({"name": n, "steps": s, "modes": ["normal"]})
    # F20: submodule deleted, package stays
    U = "import p.d\nx: int = p.d.fn()\nclass Sub(p.d.C):\n    v: int = 1\n"
    V = "from p import d\ndef f() -> int:\n    return d.fn()\nfrom p.d import C\n"
    D = "def fn() -> int:\n    return 1\nclass C:\n    v: int = 0\n"
    n, s = raw("submodule-deleted", {"p/__init__.py": "", "p/d.py": D, "u.py": U, "v.py": V},
               {"p/__init__.py": "", "u.py": U, "v.py": V},
               {"p/__init__.py": "", "p/d.py": D, "u.py": U, "v.py": V}, kinds=["delete-definer", "restore-definer"])
    s[1]["edits"][0].update({"submodule_of_remaining_package": True, "module": "p.d"})
    out.append({"name": n, "steps": s, "modes": ["normal", "skip"]})
    # entry-point mode: only main.py is given, a.py and b.py are followed; main.py and a.py change in the same step
    MAIN = "import a\nx: int = a.f()\n"
    n, s = raw("entry-chain", {"main.py": MAIN, "a.py": "import b\ndef f() -> int:\n    return b.g()\n", "b.py": "def g() -> int:\n    return 1\nbad: int = 'x'\n"},
               {"main.py": MAIN + "# 1\n", "a.py": "import b\ndef f() -> int:\n    return b.g()\n# 1\n", "b.py": "def g() -> int:\n    return 1\nbad: int = 'x'\n"},
               {"main.py": MAIN + "# 2\n", "a.py": "import b\ndef f() -> str:\n    return str(b.g())\n# 2\n", "b.py": "def g() -> int:\n    return 1\nbad: int = 'x'\n"},
               {"main.py": MAIN + "# 3\n", "a.py": "import b\ndef f() -> int:\n    return b.g()\n", "b.py": "def g() -> int:\n    return 1\nbad: int = 'x'\n"},
               kinds=["edit-users", "edit-users+signature", "edit-users+signature"])
    out.append({"name": n, "steps": s, "modes": ["normal"], "targets": ["main.py"]})
    n, s = raw("entry-followed-deleted", {"main.py": "import a\nx: int = a.f()\n", "a.py": "def f() -> int:\n    return 1\n"},
               {"main.py": "import a\nx: int = a.f()\n"}, kinds=["delete-followed-module"])
    out.append({"name": n, "steps": s, "modes": ["normal"], "targets": ["main.py"]})
    # F7: same size, same second
    n, s = raw("same-second", {"a.py": "x: int = 11\n"}, {"a.py": "x: int = ''\n"}, kinds=["same-size-same-second"])
    out.append({"name": n, "steps": s, "modes": ["normal"], "same_second": {1}})
    return out


# ------------------------------------------------------------------------------------------ running
def run_job(ctx: Ctx, job: dict) -> dict:
    base = os.path.join(ctx.tmp, f"h-{job['hid']}")
    shutil.rmtree(base, ignore_errors=True)
    os.makedirs(base)
    spec = {"root": os.path.join(base, "src"), "follow_imports": job["mode"], "steps": job["steps"], "trace": job.get("trace", True),
            "targets": job.get("targets")}
    sp, rp = os.path.join(base, "spec.json"), os.path.join(base, "res.json")
    with open(sp, "w") as f:
        json.dump(spec, f)
    try:
        p = subprocess.run([PY, WORKER, sp, rp], env=repo_env(), capture_output=True, text=True, timeout=1800)
    except subprocess.TimeoutExpired:
        raise ToolFailure(f"C03 worker timed out on history {job['hid']}")
    if not os.path.exists(rp):
        raise ToolFailure(f"C03 worker produced no result for {job['hid']} (rc={p.returncode}):\n{p.stderr[-3000:]}")
    res = json.load(open(rp))
    shutil.rmtree(base, ignore_errors=True)
    return dict(job, result=res["steps"])


def run_jobs(ctx: Ctx, jobs: list[dict]) -> list[dict]:
    with ThreadPoolExecutor(max_workers=NPROC) as ex:
        return list(ex.map(lambda j: run_job(ctx, j), jobs))


# ------------------------------------------------------------------------------------------ level (ii): output
def canon(out: str, status) -> dict:
    lines = [l for l in out.splitlines() if not l.startswith(("Found ", "Success: "))]
    return B.canon_output({"stdout": "\n".join(lines), "status": status})


NOTE_RE = re.compile(r"^[^:]+:\d+: note: ")
SELF_RE = re.compile(r"\((self|cls)(, )?")


def is_note(line: str) -> bool:
    return bool(NOTE_RE.match(line))


# (scenario, predicate on the list of variants the defining module went through (last = current), name of the shape):
# the daemon misses errors of the using modules after a later variant change
MISSING_DEP_SHAPES = [
    # deps.py generates the inheritance edges <Base.x> -> <Sub.x> (process_type_info) only when the subclass' module is
    # processed as a whole, for the names its bases have at that moment; reprocessing the module top level
    # (get_dependencies_of_target skips ClassDefs) does not regenerate them.  After two or more changes of the set of
    # attributes the base chain defines (x: absent / in Base / in Root; self.attr: absent / in __init__ / in setup)
    # a later change of the attribute no longer reaches the users of Sub().x
    ("inherited-attr", lambda hist: len(hist) >= 3, "base-class-attributes-changed-after-subclass-module-was-analysed"),
    ("self-type", lambda hist: len(hist) >= 3, "base-class-attributes-changed-after-subclass-module-was-analysed"),
    # the same for a base class reached as `pkg.sub.C` / `from pkg.sub import C`: the dependencies of a `class S(C)`
    # statement (base expression, inherited attributes) are not regenerated when only the module top level is reprocessed
    ("module-getattr", lambda hist: len(hist) >= 3, "base-class-attributes-changed-after-subclass-module-was-analysed"),
    # the name was a variable of declared type Any (valid as a type, analysed to Any): no dependency on the name
    # is recorded for the annotation that used it
    # (or the defining module was missing, which makes the imported name an Any-typed variable as well)
    ("class-kind", lambda hist: 5 in hist[:-1] or -1 in hist[:-1], "annotation-resolved-to-any-typed-variable"),
]


# (scenario, variant switched to or from in this step, pattern of the missed messages, shape)
SNAPSHOT_SHAPES = [
    ("dataclass", 3, r"read-only|frozen", "dataclass-frozen-flag"),
    # gen2 `sf-variable`: `v: int = 0` <-> `v: ClassVar[int] = 0` — Var.is_classvar is not in the Var snapshot
    ("sf-variable", 5, r"class variable", "var-classvar-flag"),
]
# (scenario, variant switched to or from in this step, pattern of the missed messages, shape) — class missing-dependency
KIND_CHANGE_SHAPES = [
    # gen2 `tp-cast` / `tp-isinstance`: C reaches the user through a re-exporting module (`from M import C`, M: `from D import C as C`);
    # D.C turns from an alias into a variable: the targets that use C in cast() / isinstance() are not reprocessed
    ("tp-cast", 8, r"not valid as a type|C\? has no attribute|variables-vs-type-aliases", "reexported-name-alias-to-variable"),
    ("tp-isinstance", 8, r"isinstance", "reexported-name-alias-to-variable"),
]


def explain(diff: list[str], dm: dict, fm: dict, hist_state: dict) -> tuple[list[dict], list[str]]:
    """Partition a daemon/full difference into parts that match a known class; returns (observations to
    report, unexplained lines).  Every predicate is about the *lines themselves*; nothing is deleted before
    the comparison."""
    plus = [d[1:] for d in diff if d.startswith("+")]       # daemon only
    minus = [d[1:] for d in diff if d.startswith("-")]      # full only
    other = [d for d in diff if d[0] in "!~"]
    obs: list[dict] = []
    # (a) only_once notes that moved between files / were duplicated
    oo = lambda l: any(n in l for n in B.ONLY_ONCE_NOTES[:3])
    if any(oo(l) for l in plus + minus):
        obs.append({"class": "only-once-note-moves"})
        plus = [l for l in plus if not oo(l)]
        minus = [l for l in minus if not oo(l)]
    # (b) a signature note of a reprocessed method printed without its first parameter
    rest_plus = list(plus)
    for l in list(minus):
        if is_note(l) and " def " in l and SELF_RE.search(l):
            dropped = SELF_RE.sub("(", l, count=1)
            if dropped in rest_plus:
                rest_plus.remove(dropped)
                minus.remove(l)
                if not any(o["class"] == "signature-note-drops-self" for o in obs):
                    obs.append({"class": "signature-note-drops-self"})
    plus = rest_plus
    # (e) F20: lines that name a submodule deleted from a package that remains
    names = hist_state.get("deleted_submodules", set())
    if names and (plus or minus):
        def names_it(l: str) -> bool:
            return any(f'"{n}' in l or f'"{n.rsplit(".", 1)[-1]}"' in l or f'"{n.rsplit(".", 1)[0]}" has no attribute "{n.rsplit(".", 1)[-1]}"' in l
                       for n in names)
        if any(names_it(l) for l in plus + minus):
            obs.append({"class": "submodule-deleted-package-remains"})
            plus = [l for l in plus if not names_it(l)]
            minus = [l for l in minus if not names_it(l)]
    # (f) missing dependency edges that depend on the variants a construct scenario went through earlier
    if minus and hist_state.get("variants") and hist_state.get("scenario_history"):
        for idx, ent in hist_state["variants"].items():
            for scen, pred, shape in MISSING_DEP_SHAPES:
                if ent["scenario"] == scen and pred(ent["hist"]):
                    mine = [l for l in minus if re.match(r"^[a-z]+" + idx + r"(\.pyi?|/)", l)]
                    if mine:
                        obs.append({"class": "missing-dependency", "scenario": scen, "shape": shape})
                        minus = [l for l in minus if l not in mine]
    # (g) properties of a definition that the snapshot (astdiff.py) does not contain: switching them fires no trigger
    if minus and hist_state.get("variants") and hist_state.get("scenario_history"):
        for idx, ent in hist_state["variants"].items():
            for scen, variant, pattern, shape in SNAPSHOT_SHAPES:
                if ent["scenario"] == scen and len(ent["hist"]) >= 2 and variant in ent["hist"][-2:]:
                    mine = [l for l in minus if re.match(r"^[a-z]+" + idx + r"(\.pyi?|/)", l) and re.search(pattern, l)]
                    if mine:
                        obs.append({"class": "snapshot-incomplete", "scenario": scen, "shape": shape})
                        minus = [l for l in minus if l not in mine]
    if minus and hist_state.get("variants") and hist_state.get("scenario_history"):
        for idx, ent in hist_state["variants"].items():
            for scen, variant, pattern, shape in KIND_CHANGE_SHAPES:
                if ent["scenario"] == scen and len(ent["hist"]) >= 2 and variant in ent["hist"][-2:]:
                    mine = [l for l in minus if re.match(r"^[a-z]+" + idx + r"(\.pyi?|/)", l) and re.search(pattern, l)]
                    if mine:
                        obs.append({"class": "missing-dependency", "scenario": scen, "shape": shape})
                        minus = [l for l in minus if l not in mine]
    # order-only differences caused by a moved note are part of (a)
    if any(o["class"] == "only-once-note-moves" for o in obs):
        other = [d for d in other if not d.startswith("~")]
    # (c) status
    for d in list(other):
        if d.startswith("!status"):
            dl = [l for f in dm["files"].values() for l in f] + dm["other"]
            if dm["status"] == 1 and fm["status"] == 0 and dl and all(is_note(l) for l in dl) and not plus and not minus:
                obs.append({"class": "daemon-status", "shape": "notes-only"})
                other.remove(d)
            elif dm["status"] == 1 and fm["status"] == 2 and fm.get("blocker"):
                obs.append({"class": "daemon-status", "shape": "blocking-error"})
                other.remove(d)
            elif obs and dm["status"] == (1 if dl else 0):
                other.remove(d)          # consequence of the message difference explained above
    return obs, ["+" + l for l in plus] + ["-" + l for l in minus] + other


def step_events(prev_files: dict | None, files: dict, edits: list[dict], hist_state: dict) -> None:
    """Track, from the files themselves, the events the known-finding predicates refer to."""
    hist_state.setdefault("deleted_submodules", set())
    # construct scenarios: the variants the defining module of each instance has gone through
    vh = hist_state.setdefault("variants", {})
    for e in edits:
        if e.get("kind") in ("variant", "restore-definer", "add-stub", "delete-definer") and e.get("scenario") and e.get("module"):
            idx = re.sub(r"\D", "", e["module"].split(".")[-1])
            ent = vh.setdefault(idx, {"scenario": e["scenario"], "hist": []})
            if e["kind"] == "delete-definer":
                ent["hist"].append(-1)          # the defining module is absent
            elif "to" in e:
                if not ent["hist"] and e.get("from") is not None:
                    ent["hist"].append(e["from"])
                ent["hist"].append(e["to"])
    hist_state["stub_removed"] = []
    hist_state["new_stdlib_imports"] = []
    hist_state.setdefault("followed_moved", set())
    if prev_files is None:
        return
    if hist_state.get("targets"):
        # entry-point mode: modules that are only reached by following imports and whose defining file appeared,
        # disappeared or moved (X.py / X.pyi / X/__init__.py)
        def stem(rel: str) -> str:
            r = rel[:-4] if rel.endswith(".pyi") else rel[:-3]
            return r[:-9] if r.endswith("/__init__") else r
        for rel in set(prev_files) ^ set(files):
            if rel.endswith((".py", ".pyi")) and rel not in hist_state["targets"]:
                hist_state["followed_moved"].add(stem(rel))
    for rel in prev_files:
        if rel not in files and rel.endswith(".py") and "/" in rel:
            # a module (or a whole sub-package) deleted below a package that remains
            stem = rel[:-3]
            if stem.endswith("/__init__"):
                stem = stem[:-9]
            anc = stem
            while "/" in anc:
                anc = anc.rsplit("/", 1)[0]
                if anc + "/__init__.py" in files:
                    hist_state["deleted_submodules"].add(stem.replace("/", "."))
                    break
        if rel.endswith(".pyi") and rel not in files:
            src = rel[:-1]
            if src in files and prev_files.get(src) == files[src]:
                hist_state["stub_removed"].append(rel)
    for rel in files:
        if rel.endswith(".py") and "/" in rel:
            stem = rel[:-3][:-9] if rel.endswith("/__init__.py") else rel[:-3]
            hist_state["deleted_submodules"].discard(stem.replace("/", "."))
    old_imports = set(re.findall(r"^\s*(?:import|from)\s+([\w.]+)", "\n".join(prev_files.values()), re.M))
    for rel, text in files.items():
        if prev_files.get(rel) != text:
            for m in re.findall(r"^\s*(?:import|from)\s+([\w.]+)", text, re.M):
                top = m.split(".")[0]
                if m not in old_imports and (top + ".py") not in files and (top + "/__init__.py") not in files and top + ".pyi" not in files \
                        and top != "missing_mod_zz":
                    hist_state["new_stdlib_imports"].append(m)


IMPORT_RE = re.compile(r"^\s*(?:import|from)\s+([\w.]+)(?:\s+import\s+([\w, ]+))?", re.M)


def dependents(files: dict, stems: list[str]) -> set[str]:
    """The files that (transitively) import one of the modules `stems` (path stems like 'd3', 'pkg/s1'), plus
    those modules' own files."""
    def mod_of(rel: str) -> str:
        r = rel[:-4] if rel.endswith(".pyi") else rel[:-3]
        if r.endswith("/__init__"):
            r = r[:-9]
        return r.replace("/", ".")
    imports: dict[str, set[str]] = {}
    for rel, text in files.items():
        deps = set()
        for m in IMPORT_RE.finditer(text):
            deps.add(m.group(1))
            for part in (m.group(2) or "").split(","):
                if part.strip():
                    deps.add(m.group(1) + "." + part.strip().split(" ")[0])
        imports[rel] = deps
    targets = {s.replace("/", ".") for s in stems}
    out = {rel for rel in files if mod_of(rel) in targets}
    changed = True
    while changed:
        changed = False
        reach_mods = {mod_of(r) for r in out} | targets
        for rel, deps in imports.items():
            if rel not in out and any(d in reach_mods or any(d.startswith(t + ".") for t in reach_mods) for d in deps):
                out.add(rel)
                changed = True
    return out


def lines_within(diff: list[str], files: set[str]) -> bool:
    for d in diff:
        if d[0] in "+-":
            if d[1:].split(":", 1)[0] not in files:
                return False
    return True


def replay_of(h: dict, k: int, diff) -> dict:
    return {"mode": h["mode"], "step": k, "diff": diff, "kind": h["kind"], "name": h.get("name"), "targets": h.get("targets"),
            "history": [{"edits": s["edits"], "files": s["files"], "touch": s.get("touch", []), "clock": s["clock"],
                         "recheck": s.get("recheck", False)} for s in h["steps"][:k + 1]]}


def check_outputs(ctx: Ctx, h: dict, count: bool = True) -> tuple[bool, bool]:
    """The property's oracle on one history.  Returns (any difference, any VIOLATION reported)."""
    hist_state: dict = {"scenario_history": h["kind"] in ("pairs", "catalog", "search", "witness"), "targets": h.get("targets")}
    prev_files = None
    prev_daemon = None
    any_diff = False
    nviol0 = len(ctx.violations)
    for k, (st, r) in enumerate(zip(h["steps"], h["result"])):
        step_events(prev_files, st["files"], st["edits"], hist_state)
        prev_files = st["files"]
        d, f = r["daemon"], r["full"]
        if "crash" in f or "out" not in f:
            raise ToolFailure(f"full build failed in history {h['hid']} step {k}: {f.get('traceback', f)[-1500:]}")
        if count:
            nontrivial = k > 0 and bool(r.get("trace")) and any(c["iters"] for c in r["trace"])
            ctx.case((h["hid"], h["mode"], k, [e.get("kind") for e in st["edits"]], sorted(st["files"]), hash(json.dumps(st["files"], sort_keys=True))),
                     nontrivial=nontrivial)
            ctx.dist("history_kind", h["kind"])
            ctx.dist("follow_imports", h["mode"])
            ctx.dist("files_given", "entry points only" if h.get("targets") else "all files (directory)")
            ctx.dist("request", "first-check" if k == 0 else ("recheck" if st.get("recheck") else "check"))
            for e in st["edits"]:
                ctx.dist("edit_kind", e.get("kind", "none"))
                if e.get("scenario"):
                    ctx.dist("construct", e["scenario"])
            iters = max([len(c["iters"]) for c in r.get("trace", [])] or [0])
            ctx.dist("propagation_iterations_max", str(min(iters, 5)))
            ctx.dist("messages_in_full_check", "0" if not f["out"] else ("1-5" if f["out"].count("\n") <= 5 else ">5"))
        if "dead" in d:
            break
        if "crash" in d:
            any_diff = True
            where = d.get("where", [])
            obs = {"class": "daemon-crash", "exception": d["crash"], "where": where[-1] if where else "?"}
            if hist_state["new_stdlib_imports"] and h["mode"] == "normal" and d["crash"] == "KeyError" and \
                    any(w.startswith("dmypy_server.py:") for w in where):
                obs = {"class": "daemon-crash-on-new-stdlib-import", "exception": "KeyError", "follow_imports": "normal"}
            ctx.report(obs, f"the daemon crashed on a check request ({d['crash']}: {d.get('message')}; {' < '.join(reversed(where))}) "
                            f"where a full check answers normally ({h['kind']} history, follow-imports={h['mode']}, step {k})",
                       dict(replay_of(h, k, None), traceback=d.get("traceback")))
            break
        dm, fm = canon(d["out"], d["status"]), canon(f["out"], f["status"])
        # a blocking error was pending in the daemon and the file that defines that module is now another one
        blocker_moved = False
        if hist_state.get("pending_blocker") and k > 0:
            stem = hist_state["pending_blocker"]
            cands = [stem + ".py", stem + ".pyi", stem + "/__init__.py", stem + "/__init__.pyi"]
            before = [c for c in cands if c in h["steps"][k - 1]["files"]]
            blocker_moved = before != [c for c in cands if c in st["files"]]
        m = re.search(r"^([^:\n]+?)(?:/__init__)?\.pyi?:\d+: error: .*\[syntax\]$", d["out"], re.M)
        hist_state["pending_blocker"] = m.group(1) if m else None
        if d.get("err"):
            dm["other"].append("stderr: " + d["err"].strip())
        fm["blocker"] = f.get("blocker", False)
        if fm["blocker"]:
            hist_state["blocker_seen"] = True
        diff = B.diff_outputs(dm, fm)
        if diff:
            any_diff = True
            obs, rest = explain(diff, dm, fm, hist_state)
            rest_lines = [x for x in rest if x[0] in "+-"]
            # stub removal: the daemon does not notice; every differing line is in a file that (transitively)
            # imports the module whose stub went away
            if rest and hist_state["stub_removed"] and lines_within(rest_lines, dependents(st["files"], [r[:-4] for r in hist_state["stub_removed"]])):
                ctx.report({"class": "module-path-change-undetected", "edit": "stub-removed-source-unchanged"},
                           f"a stub was deleted while the source file it shadowed is unchanged since the daemon last saw it: the daemon "
                           f"keeps checking against the deleted stub ({hist_state['stub_removed']}, follow-imports={h['mode']}, step {k}): {diff[:3]}",
                           replay_of(h, k, diff))
                break
            # (a blocker reported for the old file of such a module replaces the whole output)
            blocker_in_moved = bool(m) and m.group(1) in hist_state["followed_moved"]
            if rest and hist_state["followed_moved"] and (blocker_in_moved or lines_within(
                    rest_lines, dependents(st["files"], sorted(hist_state["followed_moved"]))
                    | dependents(h["steps"][k - 1]["files"] if k else {}, sorted(hist_state["followed_moved"])))):
                ctx.report({"class": "followed-module-file-change", "mode": "entry-points-only"},
                           f"only the entry points are given to the daemon; a module reached by following imports was deleted, created or "
                           f"moved ({sorted(hist_state['followed_moved'])}) and the daemon's answer for its importers differs from a full check "
                           f"(follow-imports={h['mode']}, step {k}, edits {[e.get('kind') for e in st['edits']]}): {rest[:3]}",
                           replay_of(h, k, diff))
                break
            if rest and blocker_moved:
                ctx.report({"class": "module-path-change-undetected", "edit": "blocking-error-module-moved"},
                           f"a blocking error was pending in a module whose file then changed path (stub added / moved into a package): "
                           f"update() re-processes the module at its old path first ({h['kind']} history, follow-imports={h['mode']}, step {k}): {diff[:3]}",
                           replay_of(h, k, diff))
                break
            if h.get("same_second") and k in h["same_second"]:
                ctx.report({"class": "stat-invisible-edit"}, "a same-size edit within the same mtime second is not seen by the daemon",
                           replay_of(h, k, diff))
                break
            if rest:
                ctx.report({"class": "daemon-differs-from-full", "follow_imports": h["mode"]},
                           f"daemon check differs from a full check of the same files ({h['kind']} history {h.get('name') or h['hid']}, "
                           f"follow-imports={h['mode']}, step {k}, edits {[e.get('kind') for e in st['edits']]}): {rest[:4]}",
                           replay_of(h, k, diff))
                break
            for o in obs:
                ctx.report(o, f"daemon check differs from a full check ({o}; {h['kind']} history, follow-imports={h['mode']}, step {k}): {diff[:2]}",
                           replay_of(h, k, diff))
        prev_daemon = d["out"]
    return any_diff, len(ctx.violations) > nviol0


# ------------------------------------------------------------------------------------------ level (i): algorithm
class Intern:
    def __init__(self, names):
        self.t = {n: i for i, n in enumerate(sorted(set(names)))}

    def __call__(self, n: str) -> int:
        return self.t[n]


def collect_call(call: dict, trigs: set, tgts: set, mods: set) -> None:
    trigs |= set(call["triggered"])
    tgts |= set(call["targets_with_errors"])
    mods |= set(call["up_to_date"]) | set(call.get("remaining", []))
    for it in call["iters"]:
        trigs |= set(it["triggers"])
        for k, vs in it["deps"].items():
            trigs.add(k)
            for v in vs:
                (trigs if v.startswith("<") else tgts).add(v)
        for t, (m, _l) in it["mod_of"].items():
            tgts.add(t)
            if m is not None:
                mods.add(m)
        for t, e in it["lookup"].items():
            tgts.add(t)
            tgts |= {n for n, _ in e["nodes"]}
        for rp in it["reprocess"]:
            mods.add(rp["module"])
            trigs |= set(rp["fired"])
            tgts |= set(rp["processed"])
        mods |= set(it.get("unloaded", []))


def ilist(xs) -> str:
    return ",".join(str(x) for x in xs) or "-"


def call_sections(call: dict, N, T, M, c0: int, prefix: str = "") -> tuple[list[str], list, list, int]:
    """The `I …` / `R …` sections of one propagate call; reprocess counting starts at c0."""
    secs, real_seq, real_protos = [], [], []
    c = c0
    for it in call["iters"]:
        deps = ";".join(f"{N(k)}:" + (",".join(("T%d" % N(v)) if v.startswith("<") else ("G%d" % T(v)) for v in vs) or "-")
                        for k, vs in sorted(it["deps"].items())) or "-"
        mod = ";".join(f"{T(t)}:{M(m)}:{int(l)}" for t, (m, l) in sorted(it["mod_of"].items()) if m is not None) or "-"
        look = ";".join(f"{T(t)}:{int(e['proto'] is not None)}:" + (",".join(f"{T(n)}@{ln}" for n, ln in e["nodes"]) or "-")
                        for t, e in sorted(it["lookup"].items())) or "-"
        secs.append(f"I {prefix}c={c} deps={deps} mod={mod} look={look}")
        real_protos.append(sorted(T(p) for p in it.get("stale_protos", []) if p in T.t))
        for rp in it["reprocess"]:
            secs.append(f"R m={M(rp['module'])} fired={ilist(sorted(N(t) for t in rp['fired']))}")
            lines = rp.get("lines", {})
            procd = rp["processed"]
            sorted_by_line = all(lines.get(a, 0) <= lines.get(b, 0) for a, b in zip(procd, procd[1:]))
            canon_units = sorted(procd, key=lambda n: (lines.get(n, 0), T(n)))
            real_seq.append((M(rp["module"]), [T(n) for n in canon_units], sorted_by_line, rp.get("in_graph", True)))
            c += 1
    return secs, real_seq, real_protos, c


def encode_update(upd: dict):
    """One observed FineGrainedBuildManager.update call → a `U` line + what mypy did; None if the call used a
    path the model does not have (blocking error, newly discovered modules, stale list, typeshed module)."""
    if not upd.get("ok") or upd.get("blocking_before") or upd.get("blocking_after") or upd.get("stale"):
        return None
    evs = upd["events"]
    mods_ev = [e for e in evs if e["type"] == "module"]
    calls = [e["call"] for e in evs if e["type"] == "propagate"]
    if not mods_ev or len(calls) != len(mods_ev) + 1:
        return None
    order = []
    for m in upd["changed"] + upd["removed"]:
        if m not in order:
            order.append(m)
    if [e["module"] for e in mods_ev] != order:
        return None
    for e in mods_ev:
        if e["triggered"] is None or e.get("remaining") or e.get("blocked") or e.get("processed_as") != e["module"]:
            return None
    # events must alternate: module, propagate, module, propagate, …, propagate
    kinds = [e["type"] for e in evs]
    if kinds != ["module", "propagate"] * len(mods_ev) + ["propagate"]:
        return None
    if any(c["outcome"] != "done" or c.get("remaining") for c in calls):
        return None
    trigs, tgts, mods = set(), set(upd["prev"]) | set(upd["final_prev"]), set(order)
    for e in mods_ev:
        trigs |= set(e["triggered"])
        tgts |= set(e["errs_after"])
    for c in calls:
        collect_call(c, trigs, tgts, mods)
    if any(not t.startswith("<") for t in trigs):
        return None
    N, T, M = Intern(trigs), Intern(tgts), Intern(mods)
    secs = [f"U prev={ilist(sorted(T(t) for t in upd['prev']))} changed={ilist(M(m) for m in order)}"]
    c, pm = 0, 0
    real_seq = []
    ci = 0
    for e in evs:
        if e["type"] == "module":
            secs.append(f"M m={M(e['module'])} trig={ilist(sorted(N(t) for t in e['triggered']))}")
            pm += 1
        else:
            s, rs, _rp, c = call_sections(e["call"], N, T, M, c, prefix=f"pm={pm} ")
            secs += s
            real_seq += rs
            errs = mods_ev[ci]["errs_after"] if ci < len(mods_ev) else upd["final_prev"]
            secs.append(f"E pm={pm} c={c} targets={ilist(sorted(T(t) for t in errs))}")
            ci += 1
    real = {"modules": [M(m) for m in order], "seq": real_seq, "prev": sorted(T(t) for t in set(upd["final_prev"]))}
    return " | ".join(secs), real


def compare_update(model_line: str, real: dict):
    fields = dict(x.split("=", 1) for x in model_line.split(" ") if "=" in x and not x.startswith(("reprocess#", "update_module#")))
    err = model_line.split(" err=", 1)[1] if " err=" in model_line else "-"
    if fields.get("outcome") != "done":
        return f"outcome: model {fields.get('outcome')}, mypy done"
    mmods = [int(x) for x in fields.get("modules", "-").split(",")] if fields.get("modules", "-") != "-" else []
    if mmods != real["modules"]:
        return f"update_module order: model {mmods}, mypy {real['modules']}"
    mseq = []
    if fields.get("seq", "-") != "-":
        for part in fields["seq"].split(";"):
            m, us = part.split(":")
            mseq.append((int(m), [int(x) for x in us.split(",")] if us != "-" else []))
    if len(mseq) != len(real["seq"]):
        return f"reprocess calls over the whole update: model {len(mseq)}, mypy {len(real['seq'])} ({err})"
    for i, ((mm, mu), (rm, ru, sorted_by_line, in_graph)) in enumerate(zip(mseq, real["seq"])):
        if mm != rm:
            return f"batch {i}: model reprocesses module #{mm}, mypy module #{rm}"
        if in_graph and mu != ru:
            return f"batch {i} (module #{mm}): model targets {mu}, mypy {ru}"
    mprev = [int(x) for x in fields.get("prev", "-").split(",")] if fields.get("prev", "-") != "-" else []
    if mprev != real["prev"]:
        return f"previous_targets_with_errors after the update: model {mprev}, mypy {real['prev']}"
    if err != "-":
        return f"replay notes: {err}"
    return None


def encode_call(call: dict) -> tuple[str, dict] | None:
    """One observed `propagate_changes_using_dependencies` call → a `P` line for Driver/C03 + what mypy did."""
    trigs, tgts, mods = set(), set(), set()
    collect_call(call, trigs, tgts, mods)
    # a non-trigger among the triggers does not occur (make_trigger); keep the model's input well-formed
    if any(not t.startswith("<") for t in trigs):
        return None
    N, T, M = Intern(trigs), Intern(tgts), Intern(mods)
    secs = [f"P k=1000 trig={ilist(sorted(N(t) for t in call['triggered']))} utd={ilist(sorted(M(m) for m in call['up_to_date']))} "
            f"terr={ilist(sorted(T(t) for t in call['targets_with_errors']))}"]
    isecs, real_seq, real_protos, _c = call_sections(call, N, T, M, 0)
    real = {"outcome": "done" if call["outcome"] == "done" else "maxiter",
            "remaining": [M(m) for m in call.get("remaining", [])], "seq": real_seq, "protos": real_protos,
            "names": {"N": N.t, "T": T.t, "M": M.t}}
    return " | ".join(secs + isecs), real


def compare_call(model_line: str, real: dict) -> str | None:
    """None when the model's replay agrees with what mypy did; otherwise a description."""
    fields = dict(x.split("=", 1) for x in model_line.split(" ") if "=" in x and not x.startswith("reprocess#"))
    err = model_line.split(" err=", 1)[1] if " err=" in model_line else "-"
    if fields.get("outcome") != real["outcome"]:
        return f"outcome: model {fields.get('outcome')}, mypy {real['outcome']}"
    mseq = []
    if fields.get("seq", "-") != "-":
        for part in fields["seq"].split(";"):
            m, us = part.split(":")
            mseq.append((int(m), [int(x) for x in us.split(",")] if us != "-" else []))
    for i, (m, us, sorted_by_line, in_graph) in enumerate(real["seq"]):
        if not sorted_by_line:
            return f"mypy reprocessed the nodes of batch {i} out of line order"
    if len(mseq) != len(real["seq"]):
        return f"reprocess calls: model {len(mseq)}, mypy {len(real['seq'])} ({err})"
    for i, ((mm, mu), (rm, ru, _s, in_graph)) in enumerate(zip(mseq, real["seq"])):
        if mm != rm:
            return f"batch {i}: model reprocesses module #{mm}, mypy module #{rm}"
        # a reprocess_nodes call for a module that is not in the graph processes nothing in mypy
        if in_graph and mu != ru:
            return f"batch {i} (module #{mm}): model targets {mu}, mypy {ru}"
    mrem = [int(x) for x in fields.get("remaining", "-").split(",")] if fields.get("remaining", "-") != "-" else []
    if mrem != real["remaining"]:
        return f"remaining modules: model {mrem}, mypy {real['remaining']}"
    mprotos = [sorted(int(x) for x in p.split(",")) if p != "-" else [] for p in fields.get("protos", "-").split("/")] if fields.get("protos", "-") != "-" else []
    rprotos = real["protos"][:len(mprotos)] if len(real["protos"]) >= len(mprotos) else real["protos"]
    if mprotos != rprotos and [p for p in mprotos if p] != [p for p in real["protos"] if p]:
        return f"stale protocols: model {mprotos}, mypy {real['protos']}"
    if err != "-":
        return f"replay notes: {err}"
    return None


def algorithm_correspondence(ctx: Ctx, hists: list[dict]) -> list[tuple[dict, int, str, str]]:
    """Replay every observed propagate call on the model.  Returns the disagreements."""
    lines, meta = [], []
    for h in hists:
        for k, r in enumerate(h["result"]):
            for ci, call in enumerate(r.get("trace") or []):
                if call["outcome"] == "error":
                    continue
                enc = encode_call(call)
                if enc is None:
                    ctx.count("propagate_calls_not_encodable")
                    continue
                lines.append(enc[0])
                meta.append((h, k, ci, enc[1], call))
    for h in hists:
        for k, r in enumerate(h["result"]):
            for upd in r.get("updates") or []:
                if not (upd["changed"] or upd["removed"]):
                    ctx.dist("update_call", "no-op (empty change list)")
                    continue
                enc = encode_update(upd)
                if enc is None:
                    ctx.count("update_calls_not_encodable")
                    ctx.dist("update_call", "not-encodable (blocker / new modules / crash)")
                    continue
                ctx.dist("update_call", f"{min(len(enc[1]['modules']), 3)} changed module(s)")
                lines.append(enc[0])
                meta.append((h, k, -1, enc[1], upd))
    if not lines:
        return []
    outs = ctx.lean_driver("Driver/C03.lean", lines)
    if len(outs) != len(lines):
        raise ToolFailure(f"Driver/C03 returned {len(outs)} lines for {len(lines)} cases")
    bad = []
    for (h, k, ci, real, call), line, out in zip(meta, lines, outs):
        ctx.count("traces_validated_against_impl")
        if ci == -1:        # a whole FineGrainedBuildManager.update call
            why = compare_update(out, real)
            if why is not None:
                bad.append((h, k, "update(): " + why, line + "\n→ " + out))
            continue
        ctx.dist("propagate_call_iterations", str(min(len(call["iters"]), 5)))
        ctx.dist("propagate_call_reprocess_batches", str(min(sum(len(i["reprocess"]) for i in call["iters"]), 6)))
        ctx.dist("propagate_call_deps_entries", "0" if not any(i["deps"] for i in call["iters"]) else
                 ("1-9" if max(len(i["deps"]) for i in call["iters"]) < 10 else ">=10"))
        why = compare_call(out, real)
        if why is not None:
            bad.append((h, k, why, line + "\n→ " + out))
    if lines:
        ctx.sample({"propagate_call_line": lines[len(lines) // 2][:700], "model_output": outs[len(lines) // 2][:300]})
    return bad


class _FakeFs:
    def __init__(self):
        self.files: dict[str, tuple[float, int, str]] = {}

    def stat_or_none(self, path):
        f = self.files.get(path)
        if f is None:
            return None
        return os.stat_result((0o100644, 0, 0, 1, 0, 0, f[1], f[0], f[0], f[0]))

    def hash_digest(self, path):
        return self.files[path][2]


def watcher_correspondence(ctx: Ctx) -> list[str]:
    """Real FileSystemWatcher._find_changed and Server._find_changed vs Model/FsWatch on random scripts."""
    from mypy.fswatcher import FileData, FileSystemWatcher
    rng = ctx.rng
    lines, expect, desc = [], [], []
    for case in range(ctx.pick(60, 600)):
        fs = _FakeFs()
        w = FileSystemWatcher(fs)        # type: ignore[arg-type]
        paths = [f"p{i}" for i in range(rng.randint(1, 4))]
        w.add_watched_paths(paths)
        pid = {p: i + 1 for i, p in enumerate(paths)}
        t = 1000 * rng.randint(10, 20)
        for _step in range(rng.randint(2, 5)):
            for p in paths:
                r = rng.random()
                if r < 0.2:
                    fs.files.pop(p, None)
                elif r < 0.75:
                    old = fs.files.get(p)
                    # same or different size / second / content, in every combination (incl. the F7 shape)
                    size = old[1] if old and rng.random() < 0.6 else rng.randint(1, 3)
                    ms = int(old[0] * 1000) + rng.choice([0, 1, 400, 1000, 2500]) if old and rng.random() < 0.8 else t + rng.randint(0, 5000)
                    content = old[2] if old and old[1] == size and rng.random() < 0.4 else "%d" % (size * 1000 + rng.randint(0, 2))
                    fs.files[p] = (ms / 1000.0, size, content)
            data = w.dump_file_data()
            d = ";".join(f"{pid[p]}:{int(round(v[0] * 1000))}:{v[1]}:{v[2]}" for p, v in sorted(data.items())) or "-"
            f = ";".join(f"{pid[p]}:{int(round(v[0] * 1000))}:{v[1]}:{v[2]}" for p, v in sorted(fs.files.items())) or "-"
            lines.append(f"W d={d} f={f} w={','.join(str(pid[p]) for p in paths)}")
            changed = w.find_changed()
            nd = w.dump_file_data()
            expect.append("changed=" + (",".join(str(pid[p]) for p in paths if p in changed) or "-") + " data=" +
                          (";".join(f"{pid[p]}:{int(round(nd[p][0] * 1000))}:{nd[p][1]}:{nd[p][2]}" for p in paths if p in nd) or "-"))
            desc.append({"files": dict(fs.files), "data_before": {k: list(v) for k, v in data.items()}})
            ctx.dist("watcher_step", "changed" if changed else "unchanged")
    # Server._find_changed
    from mypy.dmypy_server import Server
    from mypy.modulefinder import BuildSource
    from mypy.options import Options
    srv = Server.__new__(Server)
    # which version of Server._find_changed does the checked tree have?  (probe: the stub-removal input)
    srv.previous_sources = [BuildSource("b.pyi", "b")]
    rule = "new" if ("b", "b.py") in srv._find_changed([BuildSource("b.py", "b")], {"b.pyi"})[0] else "old"
    ctx.coverage["find_changed_rule"] = rule + " (module whose defining file changed is reported)" if rule == "new" else rule

    def dedupe(l):
        out = []
        for x in l:
            if x not in out:
                out.append(x)
        return out
    for case in range(ctx.pick(60, 400)):
        mods = [f"m{i}" for i in range(4)]
        pths = [f"q{i}" for i in range(5)]
        def srcs():
            ms = rng.sample(mods, rng.randint(1, 4))
            ps = rng.sample(pths, len(ms))
            return list(zip(ms, ps))
        prev, cur = srcs(), srcs()
        if rng.random() < 0.5:      # mostly-stable paths
            pm = dict(prev)
            cur = [(m, pm.get(m, p)) for m, p in cur]
            if len({p for _, p in cur}) < len(cur):
                continue
        chp = rng.sample(pths, rng.randint(0, 3))
        srv.previous_sources = [BuildSource(p, m) for m, p in prev]
        changed, removed = srv._find_changed([BuildSource(p, m) for m, p in cur], set(chp))
        enc = lambda l: ";".join(f"{int(m[1:])}:{int(p[1:])}" for m, p in l) or "-"
        lines.append(f"M rule={rule} s={enc(cur)} p={enc(prev)} c={','.join(p[1:] for p in chp) or '-'}")
        # update() applies dedupe_modules to the lists; a module reported by two rules appears twice in the real list
        expect.append(f"changed={enc(dedupe(changed))} removed={enc(dedupe(removed))}")
        desc.append({"sources": cur, "previous": prev, "changed_paths": chp})
        ctx.dist("find_changed_modules", "some" if changed or removed else "none")
    outs = ctx.lean_driver("Driver/C03.lean", lines)
    bad = []
    def dd(out: str) -> str:
        parts = []
        for fld in out.split(" "):
            k, _, v = fld.partition("=")
            items = []
            for x in v.split(";"):
                if x not in items:
                    items.append(x)
            parts.append(k + "=" + ";".join(items))
        return " ".join(parts)
    for l, e, o, d in zip(lines, expect, outs, desc):
        ctx.count("traces_validated_against_impl")
        ctx.case(("W", l), nontrivial=False)
        if l.startswith("M "):
            o = dd(o)
        if e != o:
            bad.append(f"{l}: mypy {e} | model {o} | {d}")
    return bad


# ------------------------------------------------------------------------------------------ main
def make_jobs(ctx: Ctx) -> list[dict]:
    jobs = []
    seed = ctx.seed

    def add(kind, name, steps, mode, **kw):
        jobs.append(dict({"hid": f"{kind}-{name}-{mode}", "kind": kind, "name": name, "mode": mode,
                          "steps": with_clock(steps, kw.pop("same_second", frozenset()))}, **kw))

    for w in witnesses():
        for mode in w["modes"]:
            add("witness", w["name"], w["steps"], mode, same_second=w.get("same_second", frozenset()))
            if w.get("targets"):
                jobs[-1]["targets"] = w["targets"]
            if w.get("same_second"):
                jobs[-1]["same_second"] = sorted(w["same_second"])
    # construct × edit-kind sweep: every scenario × every variant of its defining module, several scenarios per world
    sweeps = G.packed_sweeps(None, which="base") + G.packed_sweeps(random.Random(f"c03sweep:{seed}"), which="base")
    # second catalogue (gen2: type positions, snapshot fields, kind changes): the fixed walk on every run,
    # shuffled walks and random worlds in the thorough tier
    wide = G.packed_sweeps(None, group=11, which="wide")
    if ctx.quick():
        for i, (name, steps) in enumerate(sweeps):
            add("pairs", name, steps, MODES[(i + seed) % 3])
        for i, (name, steps) in enumerate(wide):
            add("pairs", name, steps, MODES[(i + seed) % 3])
    else:
        more = G.packed_sweeps(random.Random(f"c03sweep2:{seed}"), which="base") + G.packed_sweeps(random.Random(f"c03wide:{seed}"), group=11, which="wide")
        for name, steps in sweeps + wide + more + G.pair_histories()[:G.N_BASE_SCENARIOS]:
            for mode in MODES:
                add("pairs", name, steps, mode)
    scripted = scripted_buildsim()
    for i, (name, steps) in enumerate(scripted):
        for mode in (MODES if not ctx.quick() else [MODES[(i + seed) % 3]]):
            add("scripted", name, steps, mode)
    for i in range(ctx.pick(8, 60)):
        add("buildsim", f"{seed}.{i}", buildsim_history(f"c03:{seed}:{i}", ctx.pick(5, 6)), MODES[i % 3])
    for i in range(ctx.pick(12, 100)):
        rng = random.Random(f"c03cat:{seed}:{i}")
        steps = G.catalog_history(rng, ctx.pick(5, 7), wide=not ctx.quick() and i % 2 == 1)
        add("catalog", f"{seed}.{i}", steps, MODES[i % 3])
        if MODES[i % 3] == "normal" and i % 2 == 0:
            # entry-point mode: only the top using modules are given to mypy, the rest is found by following imports
            jobs[-1]["targets"] = G.entry_targets(steps)
    return jobs


SEARCH_KINDS = ["variant", "variant", "variant", "mid-variant", "delete-definer", "restore-definer", "to-package", "from-package"]


def search(ctx: Ctx, around: dict | None) -> bool:
    """Failing-input search after a broken level-(i) correspondence or proof: the output oracle on the history
    that disagreed (already evaluated by the caller) and on extra histories made of interface-changing edits,
    all three follow-imports modes."""
    jobs = []
    n = ctx.pick(12, 60)
    for i in range(n):
        rng = random.Random(f"c03search:{ctx.seed}:{i}")
        steps = with_clock(G.catalog_history(rng, 5, kinds=SEARCH_KINDS))
        jobs.append({"hid": f"search-{i}", "kind": "search", "name": str(i), "mode": MODES[i % 3], "steps": steps})
    if around is not None:
        for mode in MODES:
            if mode != around["mode"]:
                jobs.append(dict(around, hid=f"search-around-{mode}", mode=mode, result=None))
    ctx.count("search_histories", len(jobs))
    found = False
    for h in run_jobs(ctx, jobs):
        _, viol = check_outputs(ctx, h, count=False)
        if viol:
            found = True
            break
    return found


def main(ctx: Ctx) -> None:
    ctx.coverage["rule"] = ("a case = one step of an edit history (program of 2–25 modules; 1–3 semantic edits; real daemon check + full "
                            "non-incremental build); non-trivial when the daemon's update ran at least one propagation iteration; "
                            "distinct by (history, follow-imports mode, step, edits, file contents).  Level (i) additionally counts every "
                            "observed propagate call replayed on the model (traces_validated_against_impl).")
    proved = ctx.prove("MypyVerif.Props.C03", MODEL_FILES)
    ctx.trusted("model: Model/FineGrained.lean (find_targets_recursive, the targets_with_errors loop, todo ordering, the MAX_ITER loop, "
                "FineGrainedBuildManager.update as `updateG` (module loop, final pass over the targets with errors), "
                "sort_messages_preserving_file_order; update_module / errors.reset for the semantic instance) and Model/FsWatch.lean; "
                "lookup_target, module_prefix, reprocess_nodes, deps.py, astdiff.py, astmerge.py, aststrip.py are parameters of the model "
                "(observed tables at level (i); H_complete / ReprocessSpec at the level of the theorems)",
                "correspondence harness harness/c03/{run,worker,gen}.py + harness/vlib/buildsim.py; the tracer wraps four module-level "
                "functions of mypy.server.update from outside",
                "not modelled: loading from a fine-grained cache (unloaded modules / ensure_deps_loaded), dmypy suggest/inspect, "
                "fine_grained_increment_follow_imports' module discovery (covered by the output oracle only)")
    ctx.assume("H_complete: dependency generation (deps.py) covers every name a target reads; the snapshot diff (astdiff.py) fires the trigger "
               "of every name whose snapshot changed; the checker's result for a target depends only on the names it reports as read "
               "(validated only by the daemon-vs-full correspondence, not proved)",
               "Determinate: a program has one consistent assignment of symbol snapshots (the cold result does not depend on processing order)",
               "EditsObservable: generated histories advance mtimes by whole seconds; the same-second witness keeps F7 visible")
    jobs = make_jobs(ctx)
    hists = run_jobs(ctx, jobs)
    # (ii) output oracle on every history
    diff_hists = []
    for h in hists:
        any_diff, _ = check_outputs(ctx, h)
        if any_diff:
            diff_hists.append(h["hid"])
    ctx.coverage["histories"] = len(hists)
    ctx.coverage["histories_with_a_difference"] = len(diff_hists)
    # (i) algorithm
    bad = algorithm_correspondence(ctx, hists)
    wbad = watcher_correspondence(ctx)
    ctx.count("disagreements_checked", len(bad) + len(wbad))
    ctx.coverage["level_i_disagreements"] = {"propagate_calls": len(bad), "watcher_cases": len(wbad),
                                             "first": (bad[0][2] if bad else (wbad[0][:300] if wbad else None))}
    if bad or wbad:
        print(f"  level-(i) correspondence: {len(bad)} propagate call(s) and {len(wbad)} watcher case(s) disagree with the model"
              f" — first: {(bad[0][2] if bad else wbad[0][:200])}", flush=True)
    if hists:
        h = next((x for x in hists if x["kind"] == "catalog"), hists[0])
        ctx.sample({"history": h["hid"], "edits_per_step": [[e.get("kind") for e in s["edits"]] for s in h["steps"]],
                    "files": sorted(h["steps"][0]["files"]),
                    "daemon_status_per_step": [r["daemon"].get("status", r["daemon"].get("crash", "dead")) for r in h["result"]],
                    "full_status_per_step": [r["full"].get("status") for r in h["result"]]})
    if bad and not ctx.violations:
        h, k, why, detail = bad[0]
        # the output oracle has already been evaluated on this history (no VIOLATION, or we would not be here)
        if not search(ctx, h):
            ctx.violation(f"propagation correspondence broken: the model's replay of a real propagate_changes_using_dependencies call "
                          f"disagrees with mypy ({why}); {len(bad)} call(s) disagree; daemon and full outputs agreed on every explored history",
                          {"broken": "correspondence Driver/C03 `P` (Model/FineGrained `propagate`) vs mypy.server.update.propagate_changes_using_dependencies",
                           "why": why, "case": detail[:6000], "history": replay_of(h, k, None)}, found_input=False)
    if wbad and not ctx.violations:
        if not search(ctx, None):
            ctx.violation(f"watcher correspondence broken: Model/FsWatch disagrees with mypy on {len(wbad)} scripted stat/hash cases; "
                          "daemon and full outputs agreed on every explored history",
                          {"broken": "correspondence Driver/C03 `W`/`M` vs mypy.fswatcher.FileSystemWatcher._find_changed / dmypy_server.Server._find_changed",
                           "cases": wbad[:5]}, found_input=False)
    if not proved and not ctx.violations:
        if not search(ctx, None):
            ctx.violation("Lean development for C03 no longer builds", {"broken": ctx.broken_ties}, found_input=False)


def replay(ctx: Ctx, path: str) -> int:
    body = json.load(open(path))
    det = body["replay"].get("detail", body["replay"])
    if "history" not in det or isinstance(det["history"], dict):
        det = det.get("history", det)
    if "history" not in det:
        print(json.dumps(det, indent=1)[:4000])
        return 0
    job = {"hid": "replay", "kind": "replay", "name": "replay", "mode": det.get("mode", "normal"), "steps": det["history"], "trace": True,
           "targets": det.get("targets")}
    h = run_job(ctx, job)
    for k, r in enumerate(h["result"]):
        d, f = r["daemon"], r["full"]
        if "out" in d:
            diff = B.diff_outputs(canon(d["out"], d["status"]), canon(f["out"], f["status"]))
            print(f"step {k}: daemon status {d['status']} full status {f['status']} diff {diff}")
        else:
            print(f"step {k}: daemon {d.get('crash', 'dead')} {d.get('message', '')} {d.get('where', '')}; full status {f.get('status')}")
    bad = algorithm_correspondence(ctx, [h])
    print(f"level (i): {ctx.coverage.get('traces_validated_against_impl', 0)} propagate/update calls replayed on the model, {len(bad)} disagree")
    for _h, k, why, detail in bad[:5]:
        print(f"  step {k}: {why}")
    return 0
